"""C07 scenarios: sets of 2-3 concurrent validate calls (DESIGN 4/C07).

A scenario is rebuilt from scratch (schemas, frames) for every schedule so a
state leak found in one schedule cannot contaminate the next one.  ``build``
is a pure function of (scenario name, variant, number of threads, seed).

Built.thunks[i]()  -> pvm.harness.Outcome of thread i's validate call
Built.schemas      -> {label: schema object}   fingerprinted before / after
Built.probe()      -> {field: value} shared-state fields sampled by the
                      scheduler at token hand-overs (witness for the
                      mechanism classifier; never the deciding step)
"""
from __future__ import annotations

import random
import re

import pandas as pd
import polars as pl

from . import harness as H, snap as S

_HEX = re.compile(r"0x[0-9a-fA-F]+")


def _clean(x):
    return _HEX.sub("0x", repr(x))[:300]


def sig(out):
    """Comparable signature of an Outcome: frames bit-for-bit, exceptions by
    type + reason codes + failure cases."""
    if out is None:
        return ("none",)
    if out.kind == "ok":
        try:
            return ("ok", S.kind(out.result), S.snap(out.result))
        except Exception as e:  # an uncollectable LazyFrame is an outcome too
            return ("ok-uncollectable", type(e).__name__)
    if out.kind == "exc":
        return ("exc", type(out.exc).__name__, _clean(str(out.exc)))
    errs = []
    for e in out.errors:
        errs.append((e.reason, _clean(e.column), e.check_index, _clean(e.check),
                     None if e.cells is None else [_clean(c) for c in e.cells],
                     _clean(e.scalar), e.context))
    return (out.kind, errs)


def brief(sg):
    """Short human readable form of a signature for witnesses."""
    if sg[0] == "ok":
        return f"ok:{sg[1]}"
    if sg[0] in ("exc", "ok-uncollectable", "none"):
        return ":".join(map(str, sg))[:200]
    return f"{sg[0]}:" + ",".join(f"{e[0]}@{e[1]}" for e in sg[1])[:300]


PANDAS_OPTIONS = ("future.no_silent_downcasting", "future.infer_string",
                  "mode.copy_on_write", "mode.chained_assignment",
                  "mode.use_inf_as_na", "mode.data_manager",
                  "mode.string_storage", "compute.use_numexpr",
                  "compute.use_bottleneck", "compute.use_numba")


def _flat(d, prefix=""):
    for k, v in d.items():
        if isinstance(v, dict):
            yield from _flat(v, prefix + k + ".")
        else:
            yield prefix + k, v


def _opt(k):
    try:
        from pandas._config import config as _pc
        d = _pc._global_config
        for part in k.split("."):
            d = d[part]
        if not isinstance(d, dict):
            return repr(d)
    except Exception:  # private layout changed / option unknown
        pass
    return repr(pd.get_option(k))


def proc_state(full=True):
    """Process-wide state outside pandera that a validation could touch and
    that changes the meaning of other threads' / later calls: every pandas
    option, numpy's floating point error state, the warnings filters, the
    polars Config.  ``full=False``: the cheap subset sampled by the probe."""
    import warnings

    import numpy as np
    d = {}
    if full:
        try:
            from pandas._config import config as _pc
            for k, v in _flat(_pc._global_config):
                d["pandas." + k] = repr(v)
        except Exception:  # private layout changed: the named options below
            pass
    for k in PANDAS_OPTIONS:
        if "pandas." + k in d:
            continue
        try:
            d["pandas." + k] = _opt(k)
        except Exception:  # option unknown to this pandas
            pass
    for k, v in np.geterr().items():
        d["numpy.err." + k] = v
    d["warnings.filters.len"] = len(warnings.filters)
    if full:
        d["warnings.filters"] = [
            (f[0], getattr(f[2], "__name__", repr(f[2])), repr(f[1])[:40],
             repr(f[3])[:40], f[4]) for f in warnings.filters]
        try:
            for k, v in pl.Config.state().items():
                d["polars." + k] = repr(v)
        except Exception:
            pass
    return d


def proc_restore(before):
    """Put back what a leak changed (pandas options, numpy error state) so
    that one reported leak does not contaminate the following schedules."""
    import numpy as np
    now = proc_state()
    for k, v in before.items():
        if now.get(k) == v:
            continue
        try:
            if k.startswith("pandas."):
                import ast
                pd.set_option(k[len("pandas."):], ast.literal_eval(v))
            elif k.startswith("numpy.err."):
                np.seterr(**{k[len("numpy.err."):]: v})
        except Exception:
            pass


_EXT = {"done": False}


def ensure_extensions():
    """Custom dataframe-level check registered once per process (what a user
    module does at import time), so that model Config attributes can name it."""
    if _EXT["done"]:
        return
    import pandera.extensions as ext
    from pandera.api.checks import Check
    if not hasattr(Check, "pvm_c07_row_total_below"):
        @ext.register_check_method(statistics=["limit"])
        def pvm_c07_row_total_below(df, *, limit):
            return (df["a"] + df["b"]) < limit
    _EXT["done"] = True


class Built:
    def __init__(self):
        self.thunks = []
        self.labels = []
        self.schemas = {}
        self.cleanup = None
        # post(): {label: schema} that exist only after the calls ran (the
        # schema a model class compiled and cached on first use)
        self.post = None
        # alt: {explanation: [thunk per thread]} reference outcomes of the
        # same calls on a twin schema (mechanism classifier only)
        self.alt = None
        self.note = None

    def add(self, label, thunk):
        self.labels.append(label)
        self.thunks.append(thunk)

    def probe(self):
        import pandera.config as cfg
        # public accessor (works whatever the storage of the context config
        # is); evaluated in the calling thread = that thread's view
        c = cfg.get_config_context(validation_depth_default=None)
        d = {"cfg.validation_depth": getattr(c.validation_depth, "name", None),
             "cfg.validation_enabled": c.validation_enabled,
             "cfg.cache_dataframe": c.cache_dataframe,
             "cfg.keep_cached_dataframe": c.keep_cached_dataframe}
        for k, v in proc_state(full=False).items():
            d["proc." + k] = v
        d["proc.numpy.random.state"] = rng_state()
        for lab, s in self.schemas.items():
            cols = getattr(s, "columns", None)
            if isinstance(cols, dict):
                for k, col in cols.items():
                    v = col.__dict__
                    d[f"col.{lab}.{k}.coerce"] = v.get("coerce")
                    d[f"col.{lab}.{k}.dtype"] = str(v.get("_dtype"))
                    d[f"col.{lab}.{k}.name"] = repr(v.get("name"))
            ix = getattr(s, "index", None)
            if ix is not None and hasattr(ix, "__dict__"):
                v = ix.__dict__
                d[f"col.{lab}.<index>.coerce"] = v.get("coerce")
                d[f"col.{lab}.<index>.dtype"] = str(v.get("_dtype"))
                d[f"col.{lab}.<index>.name"] = repr(v.get("name"))
        return d


def _v(schema, obj, **kw):
    return lambda: H.run_validate(schema, obj, **kw)


# ------------------------------------------------------------------ pandas
def pd_shared_coerce(rng, n):
    """One pandas schema with coerce=True columns; passing ∥ failing frame."""
    import pandera as pa
    with_index = rng.random() < 0.4
    cols = {"a": pa.Column(int, pa.Check.gt(0), coerce=True),
            "b": pa.Column(float, pa.Check.in_range(0, 10), coerce=True),
            "c": pa.Column(str, nullable=rng.random() < 0.5)}
    if rng.random() < 0.5:
        cols["d"] = pa.Column("datetime64[ns]", coerce=True, required=False)
    s = pa.DataFrameSchema(
        cols, index=pa.Index(int, coerce=True) if with_index else None,
        strict=rng.choice([False, False, True]))
    rows = rng.randint(2, 5)
    idx = [str(i) for i in range(rows)] if with_index else None
    good = pd.DataFrame({"a": [str(i + 1) for i in range(rows)],
                         "b": [f"{i}.5" for i in range(rows)],
                         "c": ["x"] * rows}, index=idx)
    bad = good.copy()
    how = rng.choice(["check", "coerce", "missing"])
    if how == "check":
        bad.loc[bad.index[rng.randrange(rows)], "a"] = "-4"
    elif how == "coerce":
        bad.loc[bad.index[rng.randrange(rows)], "b"] = "zz"
    else:
        bad = bad.drop(columns=["c"])
    b = Built()
    b.schemas["S"] = s
    b.add("S.validate(good)", _v(s, good, lazy=rng.random() < 0.3))
    b.add(f"S.validate(bad:{how})", _v(s, bad, lazy=rng.random() < 0.5))
    if n == 3:
        good2 = good.copy()
        good2["a"] = [i + 1 for i in range(rows)]       # already typed
        b.add("S.validate(good typed)", _v(s, good2))
    return b


def pd_shared_frame_dtype(rng, n):
    """Frame-level dtype override of the columns' own dtypes."""
    import pandera as pa
    coerce = rng.random() < 0.6
    s = pa.DataFrameSchema(
        {"a": pa.Column(int, pa.Check.ge(0)), "b": pa.Column(float),
         "c": pa.Column(int, required=False)},
        dtype="float64", coerce=coerce)
    rows = rng.randint(2, 4)
    if coerce:
        good = pd.DataFrame({"a": [str(i) for i in range(rows)],
                             "b": [i for i in range(rows)]})
    else:
        good = pd.DataFrame({"a": [float(i) for i in range(rows)],
                             "b": [i + 0.5 for i in range(rows)]})
    bad = good.copy()
    bad["a"] = [-1.0] + [1.0] * (rows - 1)
    if rng.random() < 0.4:
        bad["b"] = ["q"] * rows
    b = Built()
    b.schemas["S"] = s
    b.add("S.validate(good)", _v(s, good))
    b.add("S.validate(bad)", _v(s, bad, lazy=rng.random() < 0.5))
    if n == 3:
        g2 = good.copy()
        g2["c"] = [1.0] * rows
        b.add("S.validate(good+c)", _v(s, g2, lazy=True))
    return b


def pd_shared_regex(rng, n):
    """Regex column: validation renames the shared Column per matched label."""
    import pandera as pa
    s = pa.DataFrameSchema(
        {"r_.*": pa.Column(int, pa.Check.ge(0), regex=True),
         "k": pa.Column(str)})
    rows = rng.randint(2, 4)
    good = pd.DataFrame({"r_a": list(range(rows)), "k": ["x"] * rows,
                         "r_bb": list(range(rows))})
    # the failing thread is also given a passing frame half of the time: a
    # failing validate leaves the column renamed even when run alone (that is
    # C05/C06's finding); a passing one must leave no trace.
    second_fails = rng.random() < 0.5
    other = good.copy()
    if second_fails:
        other["r_bb"] = [-1] + [1] * (rows - 1)
    else:
        other["r_c"] = list(range(rows))
    b = Built()
    b.schemas["S"] = s
    b.add("S.validate(good)", _v(s, good))
    b.add("S.validate(%s)" % ("bad r_bb" if second_fails else "good r_c"),
          _v(s, other, lazy=rng.random() < 0.5))
    if n == 3:
        g3 = good.drop(columns=["r_bb"])
        b.add("S.validate(good r_a only)", _v(s, g3))
    return b


def pd_shared_plain(rng, n):
    """Control: ONE shared pandas schema without coerce / regex / frame dtype.
    The temporary overrides are no-ops here, so nothing observable is shared:
    any disagreement in this scenario is a race of another kind."""
    import pandera as pa
    s = pa.DataFrameSchema(
        {"a": pa.Column(int, [pa.Check.gt(0), pa.Check.lt(100)]),
         "b": pa.Column(float, pa.Check.in_range(0, 10), nullable=True),
         "c": pa.Column(str, pa.Check.isin(["x", "y"]), unique=rng.random() < 0.4)},
        index=pa.Index(int) if rng.random() < 0.5 else None,
        strict=rng.choice([False, True]), ordered=rng.random() < 0.3)
    rows = rng.randint(2, 5)
    good = pd.DataFrame({"a": list(range(1, rows + 1)),
                         "b": [0.5 * i for i in range(rows)],
                         "c": ["x", "y"] + ["x"] * (rows - 2)})
    bad = good.copy()
    bad.loc[0, "a"] = -5
    bad.loc[1, "a"] = 500
    bad.loc[0, "b"] = 99.0
    bad["c"] = ["q"] * rows
    b = Built()
    b.schemas["S"] = s
    b.add("S.validate(good)", _v(s, good))
    b.add("S.validate(bad) lazy", _v(s, bad, lazy=True))
    if n == 3:
        b.add("S.validate(bad) eager", _v(s, bad))
    return b


def pd_two_schemas(rng, n):
    """Control: different schema objects, nothing shared but the process."""
    import pandera as pa
    s1 = pa.DataFrameSchema({"a": pa.Column(int, pa.Check.gt(0), coerce=True),
                             "b": pa.Column(str, pa.Check.isin(["x", "y"]))})
    s2 = pa.DataFrameSchema({"a": pa.Column(float, [pa.Check.lt(10),
                                                    pa.Check.gt(1)]),
                             "z": pa.Column(int, unique=True)},
                            index=pa.Index(int), coerce=rng.random() < 0.5)
    s3 = pa.SeriesSchema(int, pa.Check.ge(0), name="q", coerce=True)
    rows = rng.randint(2, 5)
    d1 = pd.DataFrame({"a": [str(i + 1) for i in range(rows)],
                       "b": ["x"] * rows})
    # several failures inside one component: a lazy call reports all of them
    d2 = pd.DataFrame({"a": [11.5, 0.5] + [1.5] * (rows - 2), "z": [1] * rows})
    d3 = pd.Series([str(i) for i in range(rows)], name="q")
    if rng.random() < 0.5:
        d1.loc[0, "b"] = "nope"
    b = Built()
    b.schemas.update({"S1": s1, "S2": s2, "S3": s3})
    b.add("S1.validate", _v(s1, d1))
    b.add("S2.validate", _v(s2, d2, lazy=True))
    if n == 3:
        b.add("S3.validate", _v(s3, d3))
    return b


# ------------------------------------------------------------------ polars
def pl_df_vs_lazy(rng, n):
    """polars DataFrame (data checked) ∥ LazyFrame (schema only), one schema."""
    import pandera.polars as pap
    s = pap.DataFrameSchema({"a": pap.Column(pl.Int64, pap.Check.gt(0)),
                             "b": pap.Column(pl.String,
                                             nullable=rng.random() < 0.5)},
                            coerce=rng.random() < 0.3)
    rows = rng.randint(2, 5)
    bad = pl.DataFrame({"a": [-1] + list(range(1, rows)), "b": ["x"] * rows})
    good = pl.DataFrame({"a": list(range(1, rows + 1)), "b": ["y"] * rows})
    b = Built()
    b.schemas["P"] = s
    b.add("P.validate(DataFrame bad values)", _v(s, bad,
                                                  lazy=rng.random() < 0.4))
    b.add("P.validate(LazyFrame bad values)", _v(s, bad.lazy()))
    if n == 3:
        b.add("P.validate(DataFrame good)", _v(s, good))
    return b


def pl_vs_user_ctx(rng, n):
    """A validate call ∥ a user config_context(validation_depth=...) block."""
    import pandera as pa
    import pandera.polars as pap
    from pandera.config import ValidationDepth, config_context
    rows = rng.randint(2, 4)
    ps = pap.DataFrameSchema({"a": pap.Column(pl.Int64, pap.Check.gt(0))})
    pbad = pl.DataFrame({"a": [-1] + list(range(1, rows))})
    ds = pa.DataFrameSchema({"a": pa.Column(int, pa.Check.gt(0))})
    dbad = pd.DataFrame({"a": [-1] + list(range(1, rows))})
    dwrong = pd.DataFrame({"a": [float(i) + 0.5 for i in range(rows)]})
    depth = rng.choice([ValidationDepth.SCHEMA_ONLY, ValidationDepth.DATA_ONLY])
    first_polars = rng.random() < 0.6
    b = Built()
    b.schemas.update({"P": ps, "D": ds})
    if first_polars:
        b.add("P.validate(DataFrame bad values)", _v(ps, pbad))
    else:
        b.add("D.validate(bad values)", _v(ds, dbad))

    inner_obj = dbad if depth == ValidationDepth.SCHEMA_ONLY else dwrong

    def user_block():
        with config_context(validation_depth=depth):
            return H.run_validate(ds, inner_obj, lazy=True)
    b.add(f"with config_context({depth.name}): D.validate", user_block)
    if n == 3:
        b.add("P.validate(LazyFrame bad values)", _v(ps, pbad.lazy()))
    return b



# ------------------------------------------------------------------ added in session 3
def pl_shared_coerce(rng, n):
    """ONE polars schema whose columns carry coerce=True themselves (no
    frame-level coerce): a thread inside a column's component checks must not
    change what another thread's frame-level coercion sees."""
    import pandera.polars as pap
    regex = rng.random() < 0.3
    cols = {"a": pap.Column(pl.Int64, pap.Check.gt(0), coerce=True),
            "b": pap.Column(pl.Float64, pap.Check.in_range(0, 10), coerce=True),
            "c": pap.Column(pl.String, nullable=rng.random() < 0.5)}
    if regex:
        cols["^r_.*$"] = pap.Column(pl.Int64, pap.Check.ge(0), coerce=True,
                                    regex=True, required=False)
    s = pap.DataFrameSchema(cols, strict=rng.choice([False, False, True]))
    rows = rng.randint(2, 5)
    data = {"a": [str(i + 1) for i in range(rows)],
            "b": [f"{i}.5" for i in range(rows)], "c": ["x"] * rows}
    if regex:
        data["r_1"] = [str(i) for i in range(rows)]
    good = pl.DataFrame(data)
    how = rng.choice(["check", "coerce", "typed"])
    bd = {k: list(v) for k, v in data.items()}
    if how == "check":
        bd["a"][rng.randrange(rows)] = "-4"
    elif how == "coerce":
        bd["b"][rng.randrange(rows)] = "zz"
    else:
        bd["a"] = [-(i + 1) for i in range(rows)]       # typed, failing check
    bad = pl.DataFrame(bd)
    b = Built()
    b.schemas["P"] = s
    b.add("P.validate(DataFrame good, needs casts)", _v(s, good))
    b.add(f"P.validate(DataFrame bad:{how})", _v(s, bad, lazy=rng.random() < 0.5))
    if n == 3:
        b.add("P.validate(LazyFrame good, needs casts)", _v(s, good.lazy()))
    return b


def pd_shared_multiindex(rng, n):
    """ONE pandas schema with a MultiIndex whose levels carry coerce=True and
    checks: the MultiIndex backend validates a coercion-disabled copy of the
    index schema; the levels themselves are shared by all threads."""
    import pandera as pa
    mi = pa.MultiIndex([
        pa.Index(int, pa.Check.ge(0), name="i", coerce=True),
        pa.Index(str, pa.Check.isin(["x", "y", "z"]), name="k",
                 coerce=rng.random() < 0.5)],
        coerce=rng.random() < 0.3, strict=rng.random() < 0.3)
    s = pa.DataFrameSchema({"a": pa.Column(float, pa.Check.ge(0), coerce=True)},
                           index=mi)
    rows = rng.randint(2, 4)

    def frame(i_vals, k_vals, a_vals):
        return pd.DataFrame(
            {"a": a_vals},
            index=pd.MultiIndex.from_arrays([i_vals, k_vals], names=["i", "k"]))
    good = frame([str(i) for i in range(rows)], ["x", "y", "z", "x"][:rows],
                 [str(i) for i in range(rows)])
    how = rng.choice(["level-check", "level-coerce", "column"])
    if how == "level-check":
        bad = frame([str(i) for i in range(rows)], ["q"] * rows,
                    [str(i) for i in range(rows)])
    elif how == "level-coerce":
        bad = frame(["n"] + [str(i) for i in range(1, rows)],
                    ["x"] * rows, [str(i) for i in range(rows)])
    else:
        bad = frame([str(i) for i in range(rows)], ["x"] * rows,
                    ["-1"] + [str(i) for i in range(1, rows)])
    b = Built()
    b.schemas["S"] = s
    b.add("S.validate(good, index needs casts)", _v(s, good))
    b.add(f"S.validate(bad:{how})", _v(s, bad, lazy=rng.random() < 0.5))
    if n == 3:
        typed = frame(list(range(rows)), ["x"] * rows,
                      [float(i) for i in range(rows)])
        b.add("S.validate(good typed)", _v(s, typed))
    return b


def pd_shared_series_and_component(rng, n):
    """ONE SeriesSchema with an index schema (both coercing) shared by the
    threads, and ONE stand-alone regex Column validated directly."""
    import pandera as pa
    ss = pa.SeriesSchema(int, [pa.Check.ge(0), pa.Check.lt(50)], name="q",
                         coerce=True,
                         index=pa.Index(int, pa.Check.ge(0), coerce=True))
    col = pa.Column(int, pa.Check.ge(0), name="^r_.*$", regex=True,
                    coerce=rng.random() < 0.5)
    rows = rng.randint(2, 4)
    sg = pd.Series([str(i) for i in range(rows)], name="q",
                   index=[str(i) for i in range(rows)])
    sb = sg.copy()
    if rng.random() < 0.5:
        sb.iloc[0] = "-3"
    else:
        sb.index = ["-1"] + [str(i) for i in range(1, rows)]
    dg = pd.DataFrame({"r_a": list(range(rows)), "r_b": list(range(rows)),
                       "z": ["u"] * rows})
    db = dg.copy()
    db["r_b"] = [-1] + [1] * (rows - 1)
    b = Built()
    b.schemas.update({"SS": ss, "COL": col})
    if rng.random() < 0.5:
        b.add("SS.validate(good)", _v(ss, sg))
        b.add("SS.validate(bad)", _v(ss, sb, lazy=rng.random() < 0.5))
        if n == 3:
            b.add("COL.validate(bad r_b)", _v(col, db, lazy=rng.random() < 0.5))
    else:
        b.add("COL.validate(good)", _v(col, dg))
        b.add("COL.validate(bad r_b)", _v(col, db, lazy=rng.random() < 0.5))
        if n == 3:
            b.add("SS.validate(good)", _v(ss, sg))
    return b


def pd_shared_tz_agnostic(rng, n):
    """ONE DateTime(time_zone_agnostic=True) dtype object shared by two
    schemas / threads validating data of different time zones; plus a
    drop_invalid_rows schema used lazily by several threads."""
    import pandera as pa
    from pandera.engines import pandas_engine as pe
    dt = pe.DateTime(tz="UTC", time_zone_agnostic=True)
    s = pa.DataFrameSchema(
        {"t": pa.Column(dt), "v": pa.Column(int, pa.Check.ge(0))},
        drop_invalid_rows=rng.random() < 0.5)
    rows = rng.randint(2, 4)

    def frame(tz, vals):
        t = pd.date_range("2020-01-01", periods=rows, freq="h")
        t = t.tz_localize(tz) if tz else t
        return pd.DataFrame({"t": t, "v": vals})
    tokyo = frame("Asia/Tokyo", list(range(rows)))
    utc = frame("UTC", [-1] + list(range(1, rows)))
    naive = frame(None, list(range(rows)))
    b = Built()
    b.schemas["S"] = s
    b.add("S.validate(Tokyo good) lazy", _v(s, tokyo, lazy=True))
    b.add("S.validate(UTC bad v) lazy", _v(s, utc, lazy=True))
    if n == 3:
        b.add("S.validate(naive) lazy", _v(s, naive, lazy=True))
    return b


def mixed_builtin_dispatch(rng, n):
    """The same built-in checks used on pandas and on polars data at the same
    time (the built-in check dispatchers are process-wide objects)."""
    import pandera as pa
    import pandera.polars as pap
    rows = rng.randint(2, 4)
    ps = pa.DataFrameSchema({"a": pa.Column(int, [pa.Check.gt(0), pa.Check.isin(
        list(range(1, 50)))]), "s": pa.Column(str, pa.Check.str_startswith("x"))})
    ls = pap.DataFrameSchema({"a": pap.Column(pl.Int64, [pap.Check.gt(0), pap.Check.isin(
        list(range(1, 50)))]), "s": pap.Column(pl.String, pap.Check.str_startswith("x"))})
    a_good, a_bad = list(range(1, rows + 1)), [-1] + list(range(1, rows))
    sv = ["x%d" % i for i in range(rows)]
    b = Built()
    b.schemas.update({"D": ps, "P": ls})
    b.add("D.validate(pandas good)", _v(ps, pd.DataFrame({"a": a_good, "s": sv})))
    b.add("P.validate(polars bad)", _v(ls, pl.DataFrame({"a": a_bad, "s": sv}),
                                       lazy=rng.random() < 0.5))
    if n == 3:
        b.add("D.validate(pandas bad)", _v(ps, pd.DataFrame(
            {"a": a_bad, "s": ["y"] + sv[1:]}), lazy=True))
    return b

# ------------------------------------------------------------------ defaults
def pd_defaults_object(rng, n, variant=0):
    """Filling ``default=`` values into object columns that contain nulls:
    a DataFrameSchema with column defaults in one thread, a SeriesSchema / a
    stand-alone Column with a default / a user check that relies on pandas'
    own fill semantics (fillna on an object column infers the narrower dtype)
    in the other.  Nothing pandera-owned is shared, only the process."""
    import pandera as pa
    rows = rng.randint(3, 5)

    def holes(vals, k=None):
        vals = list(vals)
        for i in rng.sample(range(len(vals)), k or rng.randint(1, 2)):
            vals[i] = None
        return vals

    cols = {"a": pa.Column(int, pa.Check.ge(0), default=rng.choice([0, 1, 7])),
            "b": pa.Column(float, default=rng.choice([0.5, -1.0])),
            "c": pa.Column(str, default=rng.choice(["z", ""]),
                           required=rng.random() < 0.7)}
    if rng.random() < 0.5:
        cols["d"] = pa.Column(bool, default=rng.random() < 0.5)
    S = pa.DataFrameSchema(cols, coerce=rng.random() < 0.25)
    data = {"a": pd.Series(holes(range(1, rows + 1)), dtype=object),
            "b": pd.Series(holes([i + 0.25 for i in range(rows)]), dtype=object),
            "c": pd.Series(holes(["x"] * rows), dtype=object)}
    if "d" in cols:
        data["d"] = pd.Series(holes([True] * rows), dtype=object)
    frame = pd.DataFrame(data)
    frame2 = pd.DataFrame({k: pd.Series(holes(v.dropna().tolist() * 2)[:rows],
                                        dtype=object)
                           for k, v in data.items()})
    if rng.random() < 0.4:                     # the default itself fails a check
        frame2.loc[0, "a"] = -3

    SS = pa.SeriesSchema(int, pa.Check.lt(1000), default=rng.choice([0, 5]),
                         name="a")
    ser = pd.Series(holes(range(7, 7 + rows)), dtype=object, name="a")
    COL = pa.Column(int, default=rng.choice([0, 3]), name="a")
    cframe = pd.DataFrame({"a": pd.Series(holes(range(rows)), dtype=object),
                           "k": ["u"] * rows})
    # a user check that looks at what pandas' fillna makes of an object column
    U = pa.DataFrameSchema({"o": pa.Column(
        object, pa.Check(lambda s: s.fillna(0).dtype.kind in "iu",
                         name="filled_is_integer"), nullable=True)})
    uframe = pd.DataFrame({"o": pd.Series(holes(range(rows)), dtype=object)})
    uframe_bad = pd.DataFrame({"o": pd.Series(holes(["p"] * rows), dtype=object)})

    others = [("SS(int, default).validate(object series with nulls)",
               _v(SS, ser, lazy=rng.random() < 0.3)),
              ("S.validate(second frame with nulls)",
               _v(S, frame2, lazy=rng.random() < 0.5)),
              ("COL(int, default).validate(frame with nulls)", _v(COL, cframe)),
              ("U.validate(object column, check uses fillna)",
               _v(U, uframe, lazy=rng.random() < 0.5)),
              ("U.validate(strings: check fails)", _v(U, uframe_bad, lazy=True))]
    # variant decides which call meets the frame-level default fill first
    k = variant % len(others)
    order = others[k:] + others[:k]
    b = Built()
    b.schemas.update({"S": S, "SS": SS, "COL": COL, "U": U})
    b.add("S.validate(frame, object columns with nulls)", _v(S, frame))
    for lab, th in order[:n - 1]:
        b.add(lab, th)
    return b


# ------------------------------------------------------------------ parsers
# user parsers: pure functions of their argument (module level, so that the
# schema fingerprints are stable); nothing of theirs is shared between threads
def _p_normalise(df):
    """amounts are stored as magnitudes, codes in upper case"""
    return df.assign(amount=df["amount"].abs(), code=df["code"].str.upper())


def _p_total(df):
    return df.assign(total=df["amount"] * df["qty"])


def _p_clip_qty(df):
    return df.assign(qty=df["qty"].clip(lower=0))


def _p_sort(df):
    return df.sort_values("qty", kind="stable").reset_index(drop=True)


def _p_round(s):
    return s.round(1)


def _p_strip(s):
    return s.str.strip()


def _p_abs_element(x):
    return abs(x)


def pd_shared_df_parsers(rng, n, variant=0):
    """ONE pandas schema object with dataframe-level parsers (a list of
    ``Parser`` on a DataFrameSchema / ``@dataframe_parser`` methods of a
    DataFrameModel), optionally column-level and element-wise parsers too,
    used by all threads on different frames.  The parsers normalise values
    and derive a column; in the ``dependent`` shapes the checks / the required
    columns only pass on parsed data, in the ``plain`` shapes the outcome is
    the parsed frame that is returned.  ``alt``: the outcomes of the same
    calls with a twin schema WITHOUT the dataframe-level parsers (reference
    for the mechanism classifier only)."""
    import pandera as pa
    shapes = ("schema_dependent", "model_dependent", "schema_plain",
              "schema_column_parsers", "model_plain", "series_parsers")
    # variant 0: the core shape; every other variant draws its shape
    kind = shapes[0] if variant == 0 else rng.choice(shapes)
    dependent = kind.endswith("dependent") or kind == "schema_column_parsers"
    pool = [_p_normalise, _p_total]
    extra = [p for p in (_p_clip_qty, _p_sort) if rng.random() < 0.4]
    rng.shuffle(extra)
    # normalise and total keep their order (total uses the magnitudes)
    at = rng.randint(0, 2)
    fns = pool[:at] + extra + pool[at:]
    coerce = rng.random() < 0.3
    strict = rng.random() < 0.4
    col_parsers = kind == "schema_column_parsers"

    def mk(with_df_parsers):
        use = fns if with_df_parsers else []
        if kind.startswith("model"):
            ann = {"amount": float, "qty": int, "code": str}
            if dependent:
                ann["total"] = float
            ns = {"__annotations__": ann, "__module__": __name__,
                  "Config": type("Config", (), {"strict": strict,
                                                "coerce": coerce})}
            if dependent:
                ns["amount"] = pa.Field(ge=0)
                ns["code"] = pa.Field(isin=["A", "B"])
            for k, fn in enumerate(use):
                def meth(cls, df, _fn=fn):
                    return _fn(df)
                meth.__name__ = meth.__qualname__ = f"dfp{k}_{fn.__name__}"
                ns[meth.__name__] = pa.dataframe_parser(meth)
            if rng_model_col_parser:
                def round_amount(cls, s):
                    return _p_round(s)
                ns["round_amount"] = pa.parser("amount")(round_amount)
            # the twin carries the same name (error messages name the schema)
            M = type(f"P_{kind}", (pa.DataFrameModel,), ns)
            M.to_schema()          # compiled here: first use is another family
            return M
        if kind == "series_parsers":
            return None
        chk = dependent
        cols = {
            "amount": pa.Column(
                float, pa.Check.ge(0) if chk else None,
                parsers=([pa.Parser(_p_round)] if col_parsers else None)),
            "qty": pa.Column(
                int, parsers=([pa.Parser(_p_abs_element, element_wise=True)]
                              if col_parsers and elementwise else None)),
            "code": pa.Column(
                str, pa.Check.isin(["A", "B"]) if chk else None,
                parsers=([pa.Parser(_p_strip)] if col_parsers else None)),
        }
        if chk:
            cols["total"] = pa.Column(float)
        return pa.DataFrameSchema(cols, parsers=[pa.Parser(f) for f in use],
                                  coerce=coerce, strict=strict and chk)

    rng_model_col_parser = rng.random() < 0.4
    elementwise = rng.random() < 0.5
    frames = {
        "one": pd.DataFrame({"amount": [-1.54, 2.0], "qty": [2, 3],
                             "code": ["a", "B"]}),
        "two": pd.DataFrame({"amount": [4.0, -0.52, 1.0], "qty": [1, 1, 2],
                             "code": ["b", "b", "a"]}),
        "already_normal": pd.DataFrame({"amount": [0.5, 2.5], "qty": [3, 1],
                                        "code": ["A", "B"]}),
        "bad_code": pd.DataFrame({"amount": [1.0, -1.0], "qty": [1, 2],
                                  "code": ["a", "x"]}),
        "no_qty": pd.DataFrame({"amount": [1.0, -1.0], "code": ["a", "b"]}),
    }
    order = ["one", rng.choice(["two", "two", "bad_code", "already_normal"]),
             rng.choice(["bad_code", "no_qty", "already_normal", "two"])]
    lazies = [rng.random() < 0.3, rng.random() < 0.5, rng.random() < 0.5]
    b = Built()
    if kind == "series_parsers":
        # SeriesSchema: the parsers of the one shared schema object
        def mks(with_parsers):
            ps = [pa.Parser(_p_round)] if with_parsers else []
            if with_parsers and elementwise:
                ps.insert(0, pa.Parser(_p_abs_element, element_wise=True))
            return pa.SeriesSchema(float, pa.Check.ge(-0.05), parsers=ps,
                                   name="amount", coerce=coerce)
        s, twin = mks(True), mks(False)
        objs = [frames[k]["amount"] for k in order]
        b.schemas["S"] = s
        b.alt = {"series-level-parsers-not-applied": []}
        for i in range(n):
            b.add(f"SS.validate({order[i]}.amount) lazy={lazies[i]}",
                  _v(s, objs[i], lazy=lazies[i]))
            b.alt["series-level-parsers-not-applied"].append(
                _v(twin, objs[i], lazy=lazies[i]))
        b.note = "parsers:series_parsers"
        return b
    s, twin = mk(True), mk(False)
    b.schemas["S"] = s.to_schema() if kind.startswith("model") else s
    b.alt = {"dataframe-level-parsers-not-applied": []}
    for i in range(n):
        b.add(f"S.validate({order[i]}) lazy={lazies[i]}",
              _v(s, frames[order[i]], lazy=lazies[i]))
        b.alt["dataframe-level-parsers-not-applied"].append(
            _v(twin, frames[order[i]], lazy=lazies[i]))
    b.note = f"parsers:{kind}"
    return b


# ------------------------------------------------------------------ subsample
def rng_state():
    """Identity of the state of numpy's process-wide legacy generator (what
    ``obj.sample(n)`` without ``random_state`` draws from).  Witness for the
    classifier and a target for directed preemption; never judged: an
    un-seeded ``sample=`` legitimately advances it."""
    import zlib

    import numpy as np
    st = np.random.get_state(legacy=True)
    return f"{zlib.crc32(st[1].tobytes()):08x}/{st[2]}"


def pd_subsample(rng, n, variant=0):
    """validate(..., head= / tail= / sample=, random_state=): the rows looked
    at are fixed by the arguments, so every call has one reproducible outcome.
    Frames are built so that the outcome tells which rows were drawn: a single
    offending row inside / outside the rows ``random_state`` selects, or only
    offending rows with distinct values (the failure cases name the sample).
    The threads use one schema object or one each (the state a sampling
    validation could share is not in the schema)."""
    import pandera as pa
    N = rng.randint(12, 24)
    k = rng.randint(2, 5)

    def mk():
        return pa.DataFrameSchema({"v": pa.Column(int, pa.Check.ge(0)),
                                   "g": pa.Column(str)})
    shared = rng.random() < 0.5
    S1 = mk()
    S2 = S1 if shared else mk()
    SS = pa.SeriesSchema(int, pa.Check.ge(0), name="v")

    def picked(n_rows, k_, seed):
        return set(pd.Series(range(n_rows)).sample(
            k_, random_state=seed).tolist())

    def frame(vals):
        return pd.DataFrame({"v": vals, "g": ["x"] * len(vals)})

    def single_bad(seed, inside):
        sel = picked(N, k, seed)
        pos = [i for i in range(N) if (i in sel) == inside]
        vals = list(range(N))
        vals[rng.choice(pos)] = -7
        return frame(vals)
    fine = frame(list(range(N)))
    all_bad = frame([-(i + 1) for i in range(N)])
    sA, sB, sC = rng.sample(range(0, 50), 3)
    shape = "in_vs_fine" if variant == 0 else \
        rng.choice(["in_vs_fine", "out_vs_allbad", "in_vs_unseeded",
                    "allbad_vs_series", "headtail_vs_allbad"])
    b = Built()
    b.schemas.update({"S1": S1, "SS": SS} | ({} if shared else {"S2": S2}))
    k2 = rng.randint(2, 5)
    if shape == "in_vs_fine":
        b.add(f"S1.validate(one bad row inside the sample, sample={k}, "
              f"random_state={sA})", _v(S1, single_bad(sA, True), sample=k,
                                        random_state=sA))
        b.add(f"S2.validate(fine, sample={k2}, random_state={sB})",
              _v(S2, fine, sample=k2, random_state=sB))
    elif shape == "out_vs_allbad":
        b.add(f"S1.validate(one bad row outside the sample, sample={k}, "
              f"random_state={sA})", _v(S1, single_bad(sA, False), sample=k,
                                        random_state=sA))
        b.add(f"S2.validate(all bad, sample={k2}, random_state={sB}) lazy",
              _v(S2, all_bad, sample=k2, random_state=sB, lazy=True))
    elif shape == "in_vs_unseeded":
        # the un-seeded call validates a frame without offending rows: its
        # outcome does not depend on the rows drawn
        inside = rng.random() < 0.5
        b.add(f"S1.validate(one bad row {'in' if inside else 'out'}side the "
              f"sample, sample={k}, random_state={sA}) lazy",
              _v(S1, single_bad(sA, inside), sample=k, random_state=sA,
                 lazy=True))
        b.add(f"S2.validate(fine, sample={k2}) un-seeded",
              _v(S2, fine, sample=k2))
    elif shape == "allbad_vs_series":
        b.add(f"S1.validate(all bad, sample={k}, random_state={sA})",
              _v(S1, all_bad, sample=k, random_state=sA))
        b.add(f"SS.validate(all bad series, sample={k2}, random_state={sB}) "
              "lazy", _v(SS, all_bad["v"], sample=k2, random_state=sB,
                         lazy=True))
    else:
        b.add(f"S1.validate(all bad, head=1, tail=2, sample={k}, "
              f"random_state={sA}) lazy",
              _v(S1, all_bad, head=1, tail=2, sample=k, random_state=sA,
                 lazy=True))
        b.add(f"S2.validate(all bad, sample={k2}, random_state={sB})",
              _v(S2, all_bad, sample=k2, random_state=sB))
    if n == 3:
        b.add(f"SS.validate(all bad series, tail=1, sample={k}, "
              f"random_state={sC}) lazy",
              _v(SS, all_bad["v"], tail=1, sample=k, random_state=sC,
                 lazy=True))
    b.note = f"subsample:{shape}"
    return b


# ------------------------------------------------------------------ registries
def model_first_use(rng, n, variant=0):
    """First use of a DataFrameModel class by all threads at once (to_schema
    compiles the class lazily, parks intermediate results on the class and
    fills MODEL_CACHE).  The vocabulary of the model is widened by variant:
    Config attributes that name dataframe-level checks (registered custom
    check or built-in), @dataframe_check / @check / @parser methods, Config
    options, inheritance (a parent and its child used for the first time
    together).  ``post`` hands out the schema cached for the class."""
    ensure_extensions()
    shape = ("pd_extras", "pl_extras", "pd_inherit", "pd_plain", "pl_plain",
             "pd_extras_builtin")
    kind = shape[variant] if variant < 2 else rng.choice(shape)
    polars = kind.startswith("pl_")
    rows = rng.randint(3, 4)
    name = f"M_{kind}"
    b = Built()
    b.uses_polars = polars
    if polars:
        import pandera.polars as pap
        ns = {"__annotations__": {"a": int, "b": int},
              "a": pap.Field(gt=0), "__module__": __name__}
        if kind == "pl_extras":
            def a_le_b(cls, data):
                return data.lazyframe.select(pl.col("a") <= pl.col("b"))
            ns["a_le_b"] = pap.dataframe_check(a_le_b)
            ns["Config"] = type("Config", (), {
                "ge": 3, "strict": rng.random() < 0.5})
        M = type(name, (pap.DataFrameModel,), ns)
        models = [M]
        mk = pl.DataFrame
    else:
        import pandera as pa
        ns = {"__annotations__": {"a": int, "b": int},
              "a": pa.Field(gt=0), "b": pa.Field(lt=1000),
              "__module__": __name__}
        if kind in ("pd_extras", "pd_extras_builtin", "pd_inherit"):
            def a_le_b(cls, df):
                return df["a"] <= df["b"]
            ns["a_le_b"] = pa.dataframe_check(a_le_b)
            cfg = {"strict": rng.random() < 0.5}
            if kind == "pd_extras_builtin":
                cfg["in_range"] = {"min_value": 1, "max_value": 8}
            else:
                cfg["pvm_c07_row_total_below"] = 10
            if rng.random() < 0.5:
                cfg["le"] = 9
            ns["Config"] = type("Config", (), cfg)
            if rng.random() < 0.5:
                def small_a(cls, s):
                    return s < 100
                ns["small_a"] = pa.check("a")(small_a)
            if rng.random() < 0.4:
                def keep_a(cls, s):
                    return s + 0
                ns["keep_a"] = pa.parser("a")(keep_a)
        M = type(name, (pa.DataFrameModel,), ns)
        models = [M]
        if kind == "pd_inherit":
            C = type(name + "_child", (M,), {
                "__annotations__": {"c": int}, "c": pa.Field(ge=0),
                "__module__": __name__})
            models = [C, M]
        mk = pd.DataFrame
    # row 1 fails "a <= b" and the row total; the last row only the total
    bad1 = {"a": [1, 9, 3, 2][:rows], "b": [2, 8, 4, 5][:rows]}
    bad2 = {"a": ([1, 2, 2] + [7])[-rows:], "b": ([5, 6, 6] + [8])[-rows:]}
    good = {"a": [1, 2, 3, 1][:rows], "b": [2, 3, 4, 5][:rows]}

    def frame(d, model):
        d = dict(d)
        if kind == "pd_inherit" and model is models[0]:
            d["c"] = list(range(rows))
        return mk(d)
    lazy1 = True if variant < 2 else rng.random() < 0.7
    m0, m1 = models[0], models[-1]
    b.add(f"{m0.__name__}.validate(bad rows) lazy",
          _v(m0, frame(bad1, m0), lazy=True))
    if rng.random() < 0.6:
        b.add(f"{m1.__name__}.validate(other bad rows) lazy={lazy1}",
              _v(m1, frame(bad2, m1), lazy=lazy1))
    else:
        b.add(f"{m1.__name__}.validate(good)", _v(m1, frame(good, m1)))
    if n == 3:
        b.add(f"{m0.__name__}.validate(good) lazy",
              _v(m0, frame(good, m0), lazy=True))
    b.post = lambda: {f"MODEL_CACHE[{m.__name__}]": m.to_schema()
                      for m in models}
    return b


def _registries():
    from pandera.api.base.checks import BaseCheck
    from pandera.api.base.parsers import BaseParser
    from pandera.api.base.schema import BaseSchema
    return [BaseSchema.BACKEND_REGISTRY, BaseCheck.BACKEND_REGISTRY,
            BaseParser.BACKEND_REGISTRY]


def registry_first_use(rng, n):
    """First use of the lazily filled backend registry from several threads."""
    import pandera as pa
    import pandera.polars as pap
    from pandera.api.pandas import types as ptypes
    from pandera.backends.pandas.register import register_pandas_backends
    from pandera.backends.polars.register import register_polars_backends
    mode = rng.choice(["pandas", "pandas", "polars", "mixed"])
    rows = rng.randint(2, 4)
    saved = [dict(r) for r in _registries()]
    for r in _registries():
        r.clear()
    # the registration functions remember that they ran (lru_cache on the
    # unchanged tree); where an implementation keeps that memory elsewhere the
    # in-process reset is not a first use any more - the cold family
    # (pvm/c07_cold.py, fresh interpreter state per schedule) is the faithful
    # one, this scenario then only exercises a cleared registry
    faithful = True
    for fn in (register_pandas_backends, register_polars_backends,
               ptypes.get_backend_types):
        clear = getattr(fn, "cache_clear", None)
        if clear is None:
            faithful = False
        else:
            clear()

    def cleanup():
        for r, old in zip(_registries(), saved):
            for k, v in old.items():
                r.setdefault(k, v)

    ds = pa.DataFrameSchema({"a": pa.Column(int, pa.Check.gt(0))},
                            index=pa.Index(int))
    ss = pa.SeriesSchema(float, pa.Check.lt(5), name="s")
    ps = pap.DataFrameSchema({"a": pap.Column(pl.Int64, pap.Check.gt(0))})
    dgood = pd.DataFrame({"a": list(range(1, rows + 1))})
    sbad = pd.Series([9.0] * rows, name="s")
    pgood = pl.DataFrame({"a": list(range(1, rows + 1))})
    pbad = pl.DataFrame({"a": [0] * rows})
    b = Built()
    b.cleanup = cleanup
    b.note = None if faithful else \
        "undecided:in-process registry reset not a faithful first use"
    b.uses_polars = mode != "pandas"
    b.schemas.update({"D": ds, "Se": ss, "P": ps})
    if mode == "pandas":
        b.add("D.validate(good)", _v(ds, dgood))
        b.add("Se.validate(bad)", _v(ss, sbad))
        if n == 3:
            b.add("D.validate(good) lazy", _v(ds, dgood, lazy=True))
    elif mode == "polars":
        b.add("P.validate(good)", _v(ps, pgood))
        b.add("P.validate(bad)", _v(ps, pbad))
        if n == 3:
            b.add("P.validate(good) lazy", _v(ps, pgood, lazy=True))
    else:
        b.add("D.validate(good)", _v(ds, dgood))
        b.add("P.validate(bad)", _v(ps, pbad))
        if n == 3:
            b.add("Se.validate(bad)", _v(ss, sbad))
    return b


# name -> (builder, flags)
#   config: a polars validate or a user config_context block takes part
#   pandas_shared: several threads validate with ONE pandas schema object
SCENARIOS = {
    "pd_shared_coerce": (pd_shared_coerce, {"pandas_shared": True}),
    "pd_shared_frame_dtype": (pd_shared_frame_dtype, {"pandas_shared": True}),
    "pd_shared_regex": (pd_shared_regex, {"pandas_shared": True}),
    "pd_shared_plain": (pd_shared_plain, {"pandas_shared": True}),
    "pd_two_schemas": (pd_two_schemas, {}),
    "pl_df_vs_lazy": (pl_df_vs_lazy, {"config": True}),
    "pl_vs_user_ctx": (pl_vs_user_ctx, {"config": True}),
    "model_first_use": (model_first_use, {"pandas_shared": True,
                                          "config": "if_polars"}),
    "registry_first_use": (registry_first_use, {"config": "if_polars"}),
    "pl_shared_coerce": (pl_shared_coerce, {"config": True}),
    "pd_shared_multiindex": (pd_shared_multiindex, {"pandas_shared": True}),
    "pd_shared_series_and_component": (pd_shared_series_and_component,
                                       {"pandas_shared": True}),
    "pd_shared_tz_agnostic": (pd_shared_tz_agnostic, {"pandas_shared": True}),
    "mixed_builtin_dispatch": (mixed_builtin_dispatch, {"config": True}),
    "pd_defaults_object": (pd_defaults_object, {}),
    "pd_shared_df_parsers": (pd_shared_df_parsers, {"pandas_shared": True,
                                                    "parsers": True}),
    "pd_subsample": (pd_subsample, {"subsample": True}),
}
TAKES_VARIANT = {"model_first_use", "pd_defaults_object",
                 "pd_shared_df_parsers", "pd_subsample"}
ORDER = list(SCENARIOS)


def build(name, variant, n, seed):
    fn, flags = SCENARIOS[name]
    rng = random.Random(f"c07|{seed}|{name}|{variant}")
    b = fn(rng, n, variant) if name in TAKES_VARIANT else fn(rng, n)
    fl = dict(flags)
    if fl.get("config") == "if_polars":
        fl["config"] = bool(getattr(b, "uses_polars", False))
    if name == "model_first_use" and getattr(b, "uses_polars", False):
        fl["pandas_shared"] = False
    b.flags = fl
    b.name, b.variant, b.n = name, variant, n
    return b


# ------------------------------------------------------------------ warm-up
SKIP_IMPORT = ("pyspark", "dask", "modin", "geopandas", "fastapi", "mypy",
               "ibis", "strategies", "hypotheses")


def warm_up():
    """Import every pandera module the scenarios can reach and run one
    validate of each kind, so that no scheduled thread ever parks while
    holding an import lock or inside a first-use initialisation that is not
    the subject of a scenario."""
    import importlib
    import pkgutil

    import pandera
    import pandera.polars  # noqa: F401
    n = 0
    for m in pkgutil.walk_packages(pandera.__path__, "pandera."):
        if any(k in m.name for k in SKIP_IMPORT):
            continue
        try:
            importlib.import_module(m.name)
            n += 1
        except BaseException:  # optional integration not importable
            pass
    for name in ORDER:
        for v in range(3):
            for k in (2, 3):
                b = build(name, v, k, "warm")
                try:
                    for t in b.thunks:
                        t()
                finally:
                    if b.cleanup:
                        b.cleanup()
    return n
