"""C19 — check options do only what they document (metamorphic relations
between option variants of one generated predicate; pandas + polars).

One case = (predicate, data set with nulls / groups / index shape / physical
dtype, level, ignore_na, lazy).  Levels: pandas Column, SeriesSchema,
DataFrameSchema-level check, groupby (Column and DataFrameSchema level),
alias-vs-canonical built-ins (pandas + polars), polars Column.  The data is
materialised as plain numpy columns or as nullable EXTENSION dtypes really
holding pd.NA (Int64, Int32, UInt8, Float64, boolean, string[python],
int64/double/bool[pyarrow]); grouping columns are str, int, bool or
CATEGORICAL with categories that have no rows (empty groups); every level
also runs check functions whose output is ONE bool (aggregates, built-in
unique_values_eq, groupby functions, dataframe-level functions; Python bool
and numpy bool; bool Series that cannot be aligned with the data; bool
DataFrames) under raise_warning / n_failure_cases / ignore_na.  See
pvm/c19_rel.py for the relations and what is left undecided.
"""
from __future__ import annotations

from .. import c19_gen as G, c19_rel as R
from ..evidence import Run, canon_hash

PID = "C19"
SHARDS = {"quick": 4, "thorough": 16}
SHARD_TIMEOUT = {"quick": 600, "thorough": 1700}
N = {"quick": 2400, "thorough": 60000}
LEVELS = ["column", "column", "series", "frame", "groupby", "groupby",
          "alias", "alias", "polars", "polars"]


def new_run():
    return Run(
        PID, "exploration",
        "case = (predicate from a generated family: comparisons, modular "
        "arithmetic, string and bool predicates, predicates raising on null; "
        "data: 0-8 rows of int/float/str/bool with nulls, held as numpy "
        "columns or as nullable extension dtypes with pd.NA (Int64, Int32, "
        "UInt8, Float64, boolean, string[python], int64/double/bool[pyarrow]); "
        "1-3 groups keyed by a str, int, bool or CATEGORICAL column (with "
        "categories that have no rows, groups emptied by ignore_na, `groups` "
        "naming an empty category); range / shuffled / string / repeated "
        "index labels; level; ignore_na; lazy). Each case runs every option "
        "variant of the predicate through schema.validate - as element-wise "
        "function, vectorised map, native vectorised expression and as a "
        "function returning ONE bool (aggregate `s.min() > k`, `.all()`, "
        "Python / numpy bool, Check.unique_values_eq, groupby and "
        "dataframe-level functions, a bool Series on another index, a bool "
        "DataFrame), each plain, with n_failure_cases, with raise_warning "
        "and with both - and compares verdict, failure cases, SchemaWarnings "
        "and the arguments the instrumented function was shown (for groupby: "
        "the dict of groups against a pure-Python group-by over the "
        "categories / keys). non-trivial = the data has at least one row; "
        "distinct = canonical hash of the case description",
        ["scalar reading of each predicate (pvm/c19_gen.py:py_pred) is the "
         "meaning of 'the function'",
         "documented null handling: Series/columns drop null elements, "
         "dataframe-level checks drop rows with any null "
         "(docs/source/checks.md 'Handling Null Values')",
         "a function returning one bool is judged by applying the same "
         "function to the documented input (the column without its null "
         "elements when ignore_na=True, the whole column otherwise), built "
         "independently of pandera; what a null of an extension dtype looks "
         "like to a mapped function (NaN / pd.NA) is pandas' choice, so the "
         "element-wise verdict under ignore_na=False on such nulls is not "
         "judged (that they are shown is)",
         "a categorical grouping column has every category as a group "
         "(pandas groupby observed=False, the default pandera documents "
         "nothing else for); with two grouping columns only the groups that "
         "have rows are judged; `groups` naming a non-categorical group "
         "whose elements are all null under ignore_na=True is generated but "
         "not judged; the verdict of a bool Series of another length than "
         "the data is not judged",
         "polars: groupby, what ignore_na=False shows, n_failure_cases "
         "truncation and the verdict of a Python-bool output are not judged "
         "(docs/source/polars.md: not all pandas functionality is "
         "supported; documented outputs are LazyFrames)",
         "null group keys, MultiIndex and `groups` values that are no group "
         "key at all are not generated"])


def one_case(run, rng, i, shard=0):
    import pandera as pa
    import pandera.polars as pp
    level = rng.choice(LEVELS)    # not i % len: the shard stride would alias
    lazy = rng.random() < 0.7
    if level == "alias":
        kind = rng.choice(["int", "float"])
        pred, ignore_na = None, None
        spec = R.gen_alias(rng, kind)
        data = G.gen_data(rng, kind,
                          phys=G.gen_phys(rng, kind, {"arg": spec["args"]}, 0.4))
        desc = {"level": level, "alias": spec, "data": data, "lazy": lazy}
        sub = rng.choice(["column", "series"])
        J = R.alias_relations(run, rng, pa, pp, spec, data, sub, lazy)
    else:
        if level == "polars":
            kind = rng.choice(G.KINDS)
            pred = G.gen_pred(rng, kind)
            # polars integers hold nulls natively: "Int64" only unlocks them
            phys = "Int64" if kind == "int" and rng.random() < 0.4 else "numpy"
        else:
            kind = rng.choice(G.PD_KINDS)
            pred = G.gen_pred(rng, kind)
            phys = G.gen_phys(rng, kind, pred)
        data = G.gen_data(rng, kind, pred,
                          min_rows=1 if level == "frame" else 0, phys=phys,
                          groups=level == "groupby")
        ignore_na = rng.random() < 0.6
        desc = {"level": level, "pred": pred, "data": data,
                "ignore_na": ignore_na, "lazy": lazy}
        if level in ("column", "series"):
            J = R.column_relations(run, rng, pa, level, pred, data, ignore_na,
                                   lazy)
        elif level == "frame":
            J = R.frame_relations(run, rng, pa, pred, data, ignore_na, lazy)
        elif level == "groupby":
            sub = "column" if rng.random() < 0.7 else "frame"
            desc["sublevel"] = sub
            J = R.groupby_relations(run, rng, pa, sub, pred, data, lazy)
        else:
            J = R.polars_relations(run, rng, pp, pred, data, ignore_na, lazy)
    n = len(data["v"])
    smp = None
    if n >= 3 and shard == (LEVELS.index(level) % 4) and level not in _sampled:
        _sampled.add(level)
        smp = desc
    run.case(canon_hash(desc), n > 0, sample=smp)
    run.count(f"level:{level}")
    run.count(f"kind:{kind}")
    run.count(f"phys:{level if level in ('polars', 'alias') else 'pandas'}:"
              f"{G.phys_of(data)}")
    if G.phys_of(data) != "numpy" and level != "polars" and \
            any(G.is_null(x) for x in data["v"]):
        run.count(f"data:extension-dtype-holding-NA:{G.phys_of(data)}")
    if level != "alias":
        run.count(f"pred:{pred['op']}")
        run.count(f"ignore_na:{ignore_na}")
    run.count(f"index:{data['index']['kind']}")
    run.count("data:with-nulls" if any(G.is_null(x) for x in data["v"])
              else "data:no-nulls")
    run.count("data:empty" if n == 0 else "data:rows")
    for kind_, wit, mech in J.found:
        run.violation(kind_, wit, mech)
    if J.found:
        import pandera.config as c
        c.reset_config_context()


_sampled = set()


def warm_up():
    """Register the check backends and built-in check implementations once.
    (A built-in check given a custom ``name=`` that is the very first check a
    process runs fails with KeyError(Series): lazily filled registry, outside
    this property - reported to C06/C07, kept out of the relations here.)"""
    import pandas as pd
    import polars as pl
    import pandera as pa
    import pandera.polars as pp
    pa.DataFrameSchema({"v": pa.Column(int, pa.Check.gt(0))}).validate(
        pd.DataFrame({"v": [1]}))
    pa.SeriesSchema(int, pa.Check.gt(0)).validate(pd.Series([1]))
    pp.DataFrameSchema({"v": pp.Column(pl.Int64, pp.Check.gt(0))}).validate(
        pl.DataFrame({"v": [1]}))


def run(run, ctx):
    warm_up()
    for i in ctx.cases(N[ctx.tier]):
        try:
            one_case(run, ctx.rng(PID, i), i, ctx.shard % 4)
        except Exception as e:  # noqa: BLE001  (harness bug, not a verdict)
            import traceback
            run.note_inconclusive(
                f"case {i}: harness error {type(e).__name__}: {e} "
                + traceback.format_exc()[-400:])
            return


def finalize(run, ctx):
    # about 1/4 of the minimum a quick run (seeds 0,1,2,3,12345; N=2400)
    # evaluates on the unchanged tree; the thorough tier runs 25x as many cases
    m = 1 if ctx.tier == "quick" else 20
    for k, v in FLOORS_QUICK.items():
        run.floors[k] = v * m


FLOORS_QUICK = {
    "alias:between": 15,
    "alias:eq": 14,
    "alias:ge": 11,
    "alias:gt": 14,
    "alias:le": 15,
    "alias:lt": 16,
    "alias:ne": 13,
    "data:extension-dtype-holding-NA:Float64": 19,
    "data:extension-dtype-holding-NA:Int32": 5,
    "data:extension-dtype-holding-NA:Int64": 14,
    "data:extension-dtype-holding-NA:UInt8": 4,
    "data:extension-dtype-holding-NA:bool[pyarrow]": 5,
    "data:extension-dtype-holding-NA:boolean": 9,
    "data:extension-dtype-holding-NA:double[pyarrow]": 10,
    "data:extension-dtype-holding-NA:int64[pyarrow]": 5,
    "data:extension-dtype-holding-NA:string": 18,
    "frame:returns:dataframe": 18,
    "frame:returns:scalar-np": 18,
    "frame:returns:scalar-py": 18,
    "groupby:case-with-a-group-emptied-by-ignore_na": 12,
    "groupby:case-with-empty-groups": 23,
    "groupby:form:callable:1col:all": 11,
    "groupby:form:callable:1col:groups": 9,
    "groupby:form:callable:2col:all": 8,
    "groupby:form:callable_scalar:1col:all": 10,
    "groupby:form:callable_scalar:1col:groups": 10,
    "groupby:form:list:1col:all": 13,
    "groupby:form:list:1col:groups": 8,
    "groupby:form:list:2col:all": 8,
    "groupby:form:str:1col:all": 12,
    "groupby:form:str:1col:groups": 7,
    "groupby:groups-names-only-empty-groups": 5,
    "groupby:keys:bool": 6,
    "groupby:keys:categorical": 36,
    "groupby:keys:int": 16,
    "groupby:keys:str": 46,
    "groupby:returns:np:elements": 20,
    "groupby:returns:np:nonempty": 10,
    "groupby:returns:py:elements": 17,
    "groupby:returns:py:nonempty": 10,
    "groupby:returns:series:elements": 20,
    "groupby:returns:series:nonempty": 8,
    "options-on:element_wise": 58,
    "options-on:vectorised_map": 113,
    "polars:scalar:form:lazyframe-scalar": 76,
    "polars:scalar:form:python-bool": 32,
    "rel:alias:documented-semantics:evaluated": 59,
    "rel:alias:same-check-object:evaluated": 112,
    "rel:alias:same-outcome:pandas:evaluated": 112,
    "rel:alias:same-outcome:polars:evaluated": 53,
    "rel:element_wise:failure_cases==failing-elements:evaluated": 25,
    "rel:element_wise==all(f(x)):evaluated": 157,
    "rel:element_wise==map:evaluated": 175,
    "rel:frame:element_wise==row-map:evaluated": 55,
    "rel:frame:ignore_na=False:null-rows-shown:evaluated": 7,
    "rel:frame:ignore_na=True:null-rows-hidden:evaluated": 9,
    "rel:frame:ignore_na=True:nulls-never-fail:evaluated": 9,
    "rel:frame:n_failure_cases:verdict-unchanged:evaluated": 55,
    "rel:frame:returns-bool:n_failure_cases:verdict-unchanged:evaluated": 54,
    "rel:frame:returns-bool:raise_warning:never-raises:evaluated": 77,
    "rel:frame:returns-bool:raise_warning:warns-iff-fails:accept:evaluated": 45,
    "rel:frame:returns-bool:raise_warning:warns-iff-fails:reject:evaluated": 31,
    "rel:frame:verdict==returned-bool:evaluated": 55,
    "rel:groupby:empty-groups-handed-over:evaluated": 23,
    "rel:groupby:exact-groups:evaluated": 115,
    "rel:groupby:ignore_na=True:nulls-hidden:evaluated": 23,
    "rel:groupby:n_failure_cases:verdict-unchanged:evaluated": 103,
    "rel:groupby:options-do-not-change-the-groups:evaluated": 103,
    "rel:groupby:raise_warning:never-raises:evaluated": 144,
    "rel:groupby:raise_warning:warns-iff-fails:accept:evaluated": 108,
    "rel:groupby:raise_warning:warns-iff-fails:reject:evaluated": 30,
    "rel:groupby:verdict==returned-bool:evaluated": 103,
    "rel:ignore_na=False:nulls-shown:evaluated": 18,
    "rel:ignore_na=True:nulls-hidden:evaluated": 29,
    "rel:ignore_na=True:nulls-never-fail:evaluated": 29,
    "rel:n_failure_cases:first-k:evaluated": 35,
    "rel:n_failure_cases:subset:evaluated": 51,
    "rel:n_failure_cases:verdict-unchanged:evaluated": 175,
    "rel:native-vectorised==all(f(x)):evaluated": 87,
    "rel:polars:element_wise==all(f(x)):evaluated": 102,
    "rel:polars:element_wise==map:evaluated": 117,
    "rel:polars:ignore_na=True:nulls-hidden:evaluated": 16,
    "rel:polars:n_failure_cases:verdict-unchanged:evaluated": 117,
    "rel:polars:native-expression==all(f(x)):evaluated": 72,
    "rel:polars:raise_warning:never-raises:evaluated": 117,
    "rel:polars:raise_warning:warns-iff-fails:accept:evaluated": 83,
    "rel:polars:raise_warning:warns-iff-fails:reject:evaluated": 33,
    "rel:polars:scalar-output:raise_warning:never-raises:evaluated": 117,
    "rel:polars:scalar-output:raise_warning:warns-iff-fails:accept:evaluated": 83,
    "rel:polars:scalar-output:raise_warning:warns-iff-fails:reject:evaluated": 33,
    "rel:polars:scalar-output==all(f(x)):evaluated": 67,
    "rel:polars:vectorised_map==all(f(x)):evaluated": 102,
    "rel:raise_warning:never-raises:evaluated": 277,
    "rel:raise_warning:warns-iff-fails:accept:evaluated": 186,
    "rel:raise_warning:warns-iff-fails:reject:evaluated": 89,
    "rel:scalar-output:ignore_na=False:nulls-shown:evaluated": 14,
    "rel:scalar-output:ignore_na=True:nulls-hidden:evaluated": 20,
    "rel:scalar-output:n_failure_cases:verdict-unchanged:evaluated": 175,
    "rel:scalar-output:raise_warning:never-raises:evaluated": 253,
    "rel:scalar-output:raise_warning:warns-iff-fails:accept:evaluated": 162,
    "rel:scalar-output:raise_warning:warns-iff-fails:reject:evaluated": 87,
    "rel:scalar-output:verdict==returned-bool:evaluated": 77,
    "rel:scalar-output==F(documented-input):agg:evaluated": 13,
    "rel:scalar-output==F(documented-input):all-np:evaluated": 18,
    "rel:scalar-output==F(documented-input):all-py:evaluated": 21,
    "rel:scalar-output==F(documented-input):count-py:evaluated": 19,
    "rel:scalar-output==F(documented-input):evaluated": 140,
    "rel:scalar-output==F(documented-input):reindexed-series:evaluated": 19,
    "rel:scalar-output==F(documented-input):unique_values_eq:evaluated": 41,
    "rel:vectorised_map:failure_cases==failing-elements:evaluated": 25,
    "rel:vectorised_map==all(f(x)):evaluated": 157,
    "scalar:form:agg": 15,
    "scalar:form:all-np": 19,
    "scalar:form:all-py": 22,
    "scalar:form:count-py": 20,
    "scalar:form:reindexed-series": 21,
    "scalar:form:short-series": 21,
    "scalar:form:unique_values_eq": 46,
    "scalar:returned:numpy-bool": 31,
    "scalar:returned:python-bool": 45,
}


def replay(path):
    """Re-run the relations of a witness against the current tree.  Exit 1
    when a violation of the same kind reproduces, 0 otherwise."""
    import json
    import random
    import pandera as pa
    import pandera.polars as pp
    warm_up()
    with open(path) as f:
        d = json.load(f)
    w, kind = d["witness"], d["kind"]
    r = new_run()
    found = []
    for seed in range(8):           # the option values (k, ...) are drawn
        rng = random.Random(seed)
        if "alias" in w and isinstance(w["alias"], dict) and "canonical" in w["alias"]:
            J = R.alias_relations(r, rng, pa, pp, w["alias"], w["data"],
                                  w["level"], w["lazy"])
        elif "groupby" in w:
            J = R.groupby_relations(
                r, rng, pa, w["level"], w["pred"], w["data"], w["lazy"],
                force=w.get("plan") or {
                    "two": w.get("two_columns", False), "form": w["groupby"],
                    "by": ["g", "h"] if w.get("two_columns") else ["g"],
                    "groups": w["groups"], "ignore_na": w["ignore_na"],
                    "named_emptied": False})
        elif w.get("backend") == "polars":
            J = R.polars_relations(r, rng, pp, w["pred"], w["data"],
                                   w["ignore_na"], w["lazy"])
        elif w["level"] == "frame":
            J = R.frame_relations(r, rng, pa, w["pred"], w["data"],
                                  w["ignore_na"], w["lazy"])
        else:
            J = R.column_relations(r, rng, pa, w["level"], w["pred"],
                                   w["data"], w["ignore_na"], w["lazy"])
        found += [(k, m) for k, _, m in J.found]
    for k, m in sorted(set(found), key=repr):
        print(k, m)
    bad = any(k == kind for k, _ in found)
    print("REPRODUCED" if bad else "NOT REPRODUCED")
    return 1 if bad else 0
