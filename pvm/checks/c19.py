"""C19 — check options do only what they document (metamorphic relations
between option variants of one generated predicate; pandas + polars).

One case = (predicate, data set with nulls / groups / index shape, level,
ignore_na, lazy).  Levels: pandas Column, SeriesSchema, DataFrameSchema-level
check, groupby (Column and DataFrameSchema level), alias-vs-canonical
built-ins (pandas + polars), polars Column.  See pvm/c19_rel.py for the
relations and what is left undecided.
"""
from __future__ import annotations

from .. import c19_gen as G, c19_rel as R
from ..evidence import Run, canon_hash

PID = "C19"
SHARDS = {"quick": 4, "thorough": 16}
SHARD_TIMEOUT = {"quick": 600, "thorough": 1700}
N = {"quick": 2400, "thorough": 60000}
LEVELS = ["column", "column", "series", "frame", "groupby", "groupby",
          "alias", "alias", "polars", "polars"]


def new_run():
    return Run(
        PID, "exploration",
        "case = (predicate from a generated family: comparisons, modular "
        "arithmetic, string predicates, predicates raising on null; data: "
        "0-8 rows of int/float/str with nulls, 1-3 groups, range / shuffled / "
        "string / repeated index labels; level; ignore_na; lazy). Each case "
        "runs every option variant of the predicate through schema.validate "
        "and compares verdict, failure cases, SchemaWarnings and the arguments "
        "the instrumented function was shown. non-trivial = the data has at "
        "least one row; distinct = canonical hash of the case description",
        ["scalar reading of each predicate (pvm/c19_gen.py:py_pred) is the "
         "meaning of 'the function'",
         "documented null handling: Series/columns drop null elements, "
         "dataframe-level checks drop rows with any null "
         "(docs/source/checks.md 'Handling Null Values')",
         "polars: groupby, what ignore_na=False shows and n_failure_cases "
         "truncation are not judged (docs/source/polars.md: not all pandas "
         "functionality is supported)",
         "categorical / null group keys, MultiIndex and invalid `groups` "
         "values are not generated"])


def one_case(run, rng, i, shard=0):
    import pandera as pa
    import pandera.polars as pp
    level = rng.choice(LEVELS)    # not i % len: the shard stride would alias
    lazy = rng.random() < 0.7
    if level == "alias":
        kind = rng.choice(["int", "float"])
        pred, ignore_na = None, None
        spec = R.gen_alias(rng, kind)
        data = G.gen_data(rng, kind,
                          phys=G.gen_phys(rng, kind, {"arg": spec["args"]}, 0.4))
        desc = {"level": level, "alias": spec, "data": data, "lazy": lazy}
        sub = rng.choice(["column", "series"])
        J = R.alias_relations(run, rng, pa, pp, spec, data, sub, lazy)
    else:
        if level == "polars":
            kind = rng.choice(G.KINDS)
            pred = G.gen_pred(rng, kind)
            # polars integers hold nulls natively: "Int64" only unlocks them
            phys = "Int64" if kind == "int" and rng.random() < 0.4 else "numpy"
        else:
            kind = rng.choice(G.PD_KINDS)
            pred = G.gen_pred(rng, kind)
            phys = G.gen_phys(rng, kind, pred)
        data = G.gen_data(rng, kind, pred,
                          min_rows=1 if level == "frame" else 0, phys=phys,
                          groups=level == "groupby")
        ignore_na = rng.random() < 0.6
        desc = {"level": level, "pred": pred, "data": data,
                "ignore_na": ignore_na, "lazy": lazy}
        if level in ("column", "series"):
            J = R.column_relations(run, rng, pa, level, pred, data, ignore_na,
                                   lazy)
        elif level == "frame":
            J = R.frame_relations(run, rng, pa, pred, data, ignore_na, lazy)
        elif level == "groupby":
            sub = "column" if rng.random() < 0.7 else "frame"
            desc["sublevel"] = sub
            J = R.groupby_relations(run, rng, pa, sub, pred, data, lazy)
        else:
            J = R.polars_relations(run, rng, pp, pred, data, ignore_na, lazy)
    n = len(data["v"])
    smp = None
    if n >= 3 and shard == (LEVELS.index(level) % 4) and level not in _sampled:
        _sampled.add(level)
        smp = desc
    run.case(canon_hash(desc), n > 0, sample=smp)
    run.count(f"level:{level}")
    run.count(f"kind:{kind}")
    run.count(f"phys:{level if level in ('polars', 'alias') else 'pandas'}:"
              f"{G.phys_of(data)}")
    if G.phys_of(data) != "numpy" and level != "polars" and \
            any(G.is_null(x) for x in data["v"]):
        run.count(f"data:extension-dtype-holding-NA:{G.phys_of(data)}")
    if level != "alias":
        run.count(f"pred:{pred['op']}")
        run.count(f"ignore_na:{ignore_na}")
    run.count(f"index:{data['index']['kind']}")
    run.count("data:with-nulls" if any(G.is_null(x) for x in data["v"])
              else "data:no-nulls")
    run.count("data:empty" if n == 0 else "data:rows")
    for kind_, wit, mech in J.found:
        run.violation(kind_, wit, mech)
    if J.found:
        import pandera.config as c
        c.reset_config_context()


_sampled = set()


def warm_up():
    """Register the check backends and built-in check implementations once.
    (A built-in check given a custom ``name=`` that is the very first check a
    process runs fails with KeyError(Series): lazily filled registry, outside
    this property - reported to C06/C07, kept out of the relations here.)"""
    import pandas as pd
    import polars as pl
    import pandera as pa
    import pandera.polars as pp
    pa.DataFrameSchema({"v": pa.Column(int, pa.Check.gt(0))}).validate(
        pd.DataFrame({"v": [1]}))
    pa.SeriesSchema(int, pa.Check.gt(0)).validate(pd.Series([1]))
    pp.DataFrameSchema({"v": pp.Column(pl.Int64, pp.Check.gt(0))}).validate(
        pl.DataFrame({"v": [1]}))


def run(run, ctx):
    warm_up()
    for i in ctx.cases(N[ctx.tier]):
        try:
            one_case(run, ctx.rng(PID, i), i, ctx.shard % 4)
        except Exception as e:  # noqa: BLE001  (harness bug, not a verdict)
            import traceback
            run.note_inconclusive(
                f"case {i}: harness error {type(e).__name__}: {e} "
                + traceback.format_exc()[-400:])
            return


def finalize(run, ctx):
    # about 1/4 of what a quick run (seed 0, N=1600) evaluates on the unchanged
    # tree; the thorough tier runs 25x as many cases
    m = 1 if ctx.tier == "quick" else 20
    for k, v in FLOORS_QUICK.items():
        run.floors[k] = v * m


FLOORS_QUICK = {
    "alias:between": 12,
    "alias:eq": 10,
    "alias:ge": 10,
    "alias:gt": 11,
    "alias:le": 10,
    "alias:lt": 12,
    "alias:ne": 13,
    "groupby:form:callable:1col:all": 9,
    "groupby:form:callable:1col:groups": 9,
    "groupby:form:callable:2col:all": 8,
    "groupby:form:list:1col:all": 9,
    "groupby:form:list:1col:groups": 9,
    "groupby:form:list:2col:all": 10,
    "groupby:form:str:1col:all": 11,
    "groupby:form:str:1col:groups": 11,
    "rel:alias:documented-semantics:evaluated": 42,
    "rel:alias:same-check-object:evaluated": 80,
    "rel:alias:same-outcome:pandas:evaluated": 80,
    "rel:alias:same-outcome:polars:evaluated": 39,
    "rel:element_wise:failure_cases==failing-elements:evaluated": 19,
    "rel:element_wise==all(f(x)):evaluated": 112,
    "rel:element_wise==map:evaluated": 116,
    "rel:frame:element_wise==row-map:evaluated": 45,
    "rel:frame:ignore_na=False:null-rows-shown:evaluated": 4,
    "rel:frame:ignore_na=True:null-rows-hidden:evaluated": 5,
    "rel:frame:ignore_na=True:nulls-never-fail:evaluated": 5,
    "rel:frame:n_failure_cases:verdict-unchanged:evaluated": 45,
    "rel:groupby:exact-groups:evaluated": 80,
    "rel:groupby:ignore_na=True:nulls-hidden:evaluated": 15,
    "rel:ignore_na=False:nulls-shown:evaluated": 11,
    "rel:ignore_na=True:nulls-hidden:evaluated": 14,
    "rel:ignore_na=True:nulls-never-fail:evaluated": 14,
    "rel:n_failure_cases:first-k:evaluated": 23,
    "rel:n_failure_cases:subset:evaluated": 32,
    "rel:n_failure_cases:verdict-unchanged:evaluated": 116,
    "rel:native-vectorised==all(f(x)):evaluated": 62,
    "rel:polars:element_wise==all(f(x)):evaluated": 71,
    "rel:polars:element_wise==map:evaluated": 76,
    "rel:polars:ignore_na=True:nulls-hidden:evaluated": 9,
    "rel:polars:n_failure_cases:verdict-unchanged:evaluated": 76,
    "rel:polars:native-expression==all(f(x)):evaluated": 52,
    "rel:polars:raise_warning:never-raises:evaluated": 76,
    "rel:polars:raise_warning:warns-iff-fails:accept:evaluated": 55,
    "rel:polars:raise_warning:warns-iff-fails:reject:evaluated": 21,
    "rel:polars:vectorised_map==all(f(x)):evaluated": 71,
    "rel:raise_warning:never-raises:evaluated": 153,
    "rel:raise_warning:warns-iff-fails:accept:evaluated": 99,
    "rel:raise_warning:warns-iff-fails:reject:evaluated": 54,
    "rel:vectorised_map:failure_cases==failing-elements:evaluated": 19,
    "rel:vectorised_map==all(f(x)):evaluated": 112,
}


def replay(path):
    """Re-run the relations of a witness against the current tree.  Exit 1
    when a violation of the same kind reproduces, 0 otherwise."""
    import json
    import random
    import pandera as pa
    import pandera.polars as pp
    warm_up()
    with open(path) as f:
        d = json.load(f)
    w, kind = d["witness"], d["kind"]
    r = new_run()
    found = []
    for seed in range(8):           # the option values (k, ...) are drawn
        rng = random.Random(seed)
        if "alias" in w and isinstance(w["alias"], dict) and "canonical" in w["alias"]:
            J = R.alias_relations(r, rng, pa, pp, w["alias"], w["data"],
                                  w["level"], w["lazy"])
        elif "groupby" in w:
            J = R.groupby_relations(
                r, rng, pa, w["level"], w["pred"], w["data"], w["lazy"],
                force=w.get("plan") or {
                    "two": w.get("two_columns", False), "form": w["groupby"],
                    "by": ["g", "h"] if w.get("two_columns") else ["g"],
                    "groups": w["groups"], "ignore_na": w["ignore_na"],
                    "named_emptied": False})
        elif w.get("backend") == "polars":
            J = R.polars_relations(r, rng, pp, w["pred"], w["data"],
                                   w["ignore_na"], w["lazy"])
        elif w["level"] == "frame":
            J = R.frame_relations(r, rng, pa, w["pred"], w["data"],
                                  w["ignore_na"], w["lazy"])
        else:
            J = R.column_relations(r, rng, pa, w["level"], w["pred"],
                                   w["data"], w["ignore_na"], w["lazy"])
        found += [(k, m) for k, _, m in J.found]
    for k, m in sorted(set(found), key=repr):
        print(k, m)
    bad = any(k == kind for k, _ in found)
    print("REPRODUCED" if bad else "NOT REPRODUCED")
    return 1 if bad else 0
