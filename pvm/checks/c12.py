"""C12 — schema serialisation round trips (YAML, JSON, generated script)."""
from __future__ import annotations

import json
import random

from .. import c12_classify as K, c12_gen as G, c12_oracle as O, c12_probe as P
from ..evidence import Run, canon_hash

PID = "C12"
SHARDS = {"quick": 8, "thorough": 16}
SHARD_TIMEOUT = {"quick": 600, "thorough": 2400}
N_RANDOM = {"quick": 150, "thorough": 6000}
MAX_CAUSES = 4


def new_run():
    return Run(
        PID, "exploration",
        "cases = DataFrameSchema specs from pvm/c12_gen.py: a deterministic "
        "catalogue (benign base + exactly one serialisable attribute set to "
        "each adversarial value class: every frame/column/index attribute, "
        "every builtin check x value family x option subset, every dtype "
        "alias, duplicated check kinds) followed by seeded random "
        "combinations of 1-4 such features; every case runs the real "
        "to_yaml/from_yaml, to_json/from_json, to_script+exec and the second "
        "generation writer; non-trivial = the spec has at least one "
        "non-default serialisable attribute and at least one route reached "
        "the comparison stage; distinct = canonical hash of the spec",
        ["comparison is against a pristine twin built from the same spec, so "
         "a writer that modifies its argument cannot hide a loss",
         "probe frames: 6 per case, 4 rows, values on the boundaries of the "
         "spec's own check arguments",
         "only attributes pandera serialises are generated (no Check "
         "title/description/error/element_wise/groupby, no Column default/"
         "metadata/parsers/drop_invalid_rows, no MultiIndex-level options, "
         "no custom checks)",
         "not judged (counted under undecided:*): the JSON route for "
         "non-string column labels (JSON object keys are strings), "
         "numerically equal statistics that differ only in int/float type "
         "or in the sign of zero, schemas whose >=/<= pair the writer "
         "refuses as contradictory",
         "failing cases are minimised by re-executing the real writers on "
         "specs with one feature removed at a time; the mechanism key is a "
         "function of the minimal witness"])


_warm = False


def _warmup():
    """Register the pandas backends (Check.__call__ needs them)."""
    global _warm
    if _warm:
        return
    import pandas as pd
    import pandera as pa
    import pandera.io  # noqa: F401  (not imported by ``import pandera``)
    pa.DataFrameSchema({"x": pa.Column(int)}).validate(
        pd.DataFrame({"x": [1]}))
    _warm = True


def _probes_for(seed_key):
    def f(spec):
        rng = random.Random(seed_key)
        return [d for _, d in P.probe_frames(spec, rng)]
    return f


def one_case(run, label, spec, seed_key, collect=None):
    _warmup()
    key = canon_hash(spec)
    toks = G.tokens(spec)
    probes_for = _probes_for(seed_key)
    try:
        S0 = G.build(spec)
    except Exception as e:
        run.count("build_error:" + type(e).__name__)
        return
    probes = probes_for(spec)
    twin_v = O.verdict_vector(S0, probes)
    for v in twin_v:
        run.count("probe:" + ("accept" if v[0] == "ok" else
                              "reject" if v[0].startswith("Schema") else
                              "exc"))
    reached = False
    route_kinds = {}
    for route in O.ROUTES:
        if route == "json" and any(not isinstance(c["name"], str)
                                   for c in spec["columns"]):
            # JSON object keys are strings: an int column label is not a
            # JSON-serialisable part, the statement does not cover it
            run.count("undecided:json-route-skipped-non-string-column-label")
            continue
        r = O.evaluate(spec, route, probes=probes, twin_verdicts=twin_v)
        route_kinds[route] = list(r.kinds)
        for u in r.undecided:
            run.count("undecided:" + u)
        for st in r.stages:
            run.count(f"stage:{route}:{st}")
        for m in r.monitors:
            run.count(f"monitor:{m}")
            run.count(f"monitor:{route}:{m}")
        if "read" in r.stages:
            reached = True
        if not r.kinds:
            run.count(f"roundtrip_ok:{route}" if "read" in r.stages
                      else f"roundtrip_not_judged:{route}")
            continue
        run.count(f"roundtrip_failed:{route}")
        _attribute(run, label, spec, route, r, probes_for, collect)
    for t in toks:
        run.count("feature:" + t.split("=")[0].split(":")[0])
        if ".check:" in t or ".dtype:" in t or ".check-opt:" in t \
                or ".check-arg:" in t:
            run.count("class:" + t)
    nontrivial = reached and any(not t.startswith("ncols=") for t in toks)
    run.case(key, nontrivial, sample={
        "label": label, "spec": spec, "tokens": toks,
        "failure_kinds_per_route": route_kinds,
        "probe_verdicts_original": [v[0] for v in twin_v]})
    run.count("part:" + ("catalogue" if label != "random" else "random"))


def _attribute(run, label, spec, route, r, probes_for, collect):
    """Split the failures of one route into independent minimal causes."""
    cur, res = spec, r
    for _ in range(MAX_CAUSES):
        if not res.kinds:
            return
        kind = K.primary(res.kinds)
        mini, needed, n = O.minimise(cur, route, kind, probes_for)
        run.count("minimiser_evaluations", n)
        probes = probes_for(mini)
        rm = O.evaluate(mini, route, probes=probes)
        if kind not in rm.kinds:        # flaky reproduction: report as is
            rm, mini = res, cur
        mtoks = G.tokens(mini)
        for group in K.split(rm.kinds):
            mech = K.classify(route, group, mtoks,
                              dict(rm.detail, __text__=rm.text or ""))
            gkind = K.primary(group)
            witness = {
                "label": label, "route": route, "kinds": group,
                "all_kinds_of_minimal_case": rm.kinds,
                "minimal_spec": mini, "minimal_tokens": mtoks,
                "detail": {k: rm.detail.get(k) for k in group[:4]},
                "text": (rm.text or "")[:1500],
                "original_tokens": G.tokens(spec)}
            run.violation(gkind, witness, mech)
            run.count(f"cause:{route}:{mech or 'UNCLASSIFIED'}")
            if collect is not None:
                collect.append((route, tuple(group), tuple(mtoks), mech,
                                rm.detail.get(gkind)))
        leaves = [p for p in needed
                  if not any(q != p and q[:len(p)] == p for q in needed)]
        # a dtype that other remaining checks depend on is context, not cause
        leaves = [p for p in leaves
                  if not (len(p) == 3 and p[2] == "dtype" and
                          len(cur[p[0]][p[1]]["checks"]) >
                          sum(1 for q in leaves if q[:3] == (p[0], p[1],
                                                             "checks")
                              and len(q) == 4))]
        nxt = O.strip(cur, leaves)
        if nxt == cur:
            return
        cur = nxt
        res = O.evaluate(cur, route, probes=probes_for(cur))
    run.count("attribution_truncated")


def run(run, ctx):
    cat = G.catalogue(full=ctx.tier == "thorough")
    n = len(cat) + N_RANDOM[ctx.tier]
    for i in ctx.cases(n):
        rng = ctx.rng(PID, i)
        if i < len(cat):
            label, spec = cat[i]
        else:
            label, spec = "random", G.random_spec(rng)
        one_case(run, label, spec, f"{ctx.seed}|{PID}|probe|{i}")
    run.extra["catalogue_cases"] = len(cat) if ctx.shard == 0 else 0


def finalize(run, ctx):
    for name, m in K.FLOORS[ctx.tier].items():
        run.floors[name] = m


def replay(path):
    from .. import env
    env.pin_repo()
    with open(path) as f:
        w = json.load(f)
    wit = w["witness"]
    spec, route = wit["minimal_spec"], wit["route"]
    _warmup()
    r = O.evaluate(spec, route,
                   probes=_probes_for("replay")(spec))
    print(json.dumps({"route": route, "kinds": r.kinds, "detail": r.detail,
                      "tokens": G.tokens(spec)}, indent=1, default=repr))
    print(r.text)
    return 1 if r.kinds else 0
