"""C12 — schema serialisation round trips (YAML, JSON, generated script)."""
from __future__ import annotations

import json
import random

from .. import c12_classify as K, c12_gen as G, c12_oracle as O, c12_probe as P
from ..evidence import Run, canon_hash

PID = "C12"
SHARDS = {"quick": 8, "thorough": 16}
SHARD_TIMEOUT = {"quick": 1500, "thorough": 3600}
N_RANDOM = {"quick": 150, "thorough": 6000}
MAX_CAUSES = 4


def new_run():
    return Run(
        PID, "exploration",
        "cases = DataFrameSchema specs from pvm/c12_gen.py: a deterministic "
        "catalogue (benign base + exactly one serialisable attribute set to "
        "each adversarial value class: every frame/column/index attribute, "
        "every builtin check x value family x option subset, every string "
        "class (quotes, yaml-ish, keywords, words that are bare names in a "
        "generated script such as nan/inf/Timestamp, ...) in every text slot "
        "and every string-valued check argument (string classes include "
        "unicode line breaks NEL/LS/PS, control characters, invisible "
        "characters, astral code points, white space at the edges and text "
        "longer than a line), every dtype alias, duplicated check kinds, "
        "statistics of another python type than the data: float bounds "
        "(fractional, whole, infinite) on every integer dtype, integers / "
        "bigints on every float dtype, numbers on untyped components), "
        "a history catalogue (the same check = kind "
        "+ dtype + fresh statistics held with different options by two "
        "components of one schema, in both orders, and by consecutive "
        "schemas read by the same process: sequences of 2-3 specs), "
        "followed by seeded random combinations of 1-4 such features "
        "(statistics from the pool or from a wide random range) and random "
        "sequences (a spec, then close variants of it); every spec runs the "
        "real to_yaml/from_yaml, to_json/from_json, to_script+exec, the "
        "second generation writer and a repeated write, and - for specs "
        "with non-ascii / control / long text and every third other spec - "
        "the file form of each route (write to a path, read the path, write "
        "again); a sequence is one "
        "case, its later elements are judged like any spec (what a read "
        "returns may not depend on earlier reads); non-trivial = the spec "
        "has at least one non-default serialisable attribute and at least "
        "one route reached the comparison stage; distinct = canonical hash "
        "of the spec (of the list of specs for a sequence)",
        ["comparison is against a pristine twin built from the same spec, so "
         "a writer that modifies its argument cannot hide a loss",
         "probe frames: 6 per spec, 4 rows, values on the boundaries of the "
         "spec's own check arguments; a verdict is accept / the set of "
         "(reason, column) / the number of reported failure cases (the only "
         "effect of the serialised option n_failure_cases)",
         "only attributes pandera serialises are generated (no Check "
         "title/description/error/element_wise/groupby, no Column default/"
         "metadata/parsers/drop_invalid_rows, no MultiIndex-level options, "
         "no custom checks, no NaN statistic: nan != nan makes even two "
         "builds of one spec unequal)",
         "not judged (counted under undecided:*): the JSON route for "
         "non-string column labels (JSON object keys are strings), "
         "numerically equal statistics that differ only in int/float type "
         "or in the sign of zero, schemas whose >=/<= pair the writer "
         "refuses as contradictory; that a written file holds the same "
         "text as the returned string is not promised and not compared",
         "failing cases are minimised by re-executing the real writers on "
         "specs with one feature removed at a time; the mechanism key is a "
         "function of the minimal witness"])


_warm = False


def _warmup():
    """Register the pandas backends (Check.__call__ needs them)."""
    global _warm
    if _warm:
        return
    import pandas as pd
    import pandera as pa
    import pandera.io  # noqa: F401  (not imported by ``import pandera``)
    pa.DataFrameSchema({"x": pa.Column(int)}).validate(
        pd.DataFrame({"x": [1]}))
    _warm = True


def _probes_for(seed_key):
    def f(spec):
        rng = random.Random(seed_key)
        return [d for _, d in P.probe_frames(spec, rng)]
    return f


def one_case(run, label, payload, seed_key, collect=None):
    """One case = one spec, or a list of specs executed in order by this
    process (the later elements are judged like any other spec: what a read
    returns must not depend on what was read before)."""
    _warmup()
    if not isinstance(payload, list):
        out = _one_spec(run, label, payload, seed_key, collect, [])
        if out is None:
            return
        nontrivial, sample = out
        run.case(canon_hash(payload), nontrivial, sample=sample)
        run.count("part:" + ("random" if label == "random" else "catalogue"))
        return
    history, samples, nontrivial = [], [], False
    run.count(f"sequence:len={len(payload)}")
    for j, spec in enumerate(payload):
        out = _one_spec(run, label, spec, f"{seed_key}|{j}", collect,
                        list(history))
        history.append(spec)
        if out is None:
            continue
        nontrivial = nontrivial or out[0]
        samples.append(out[1])
        if j:
            run.count("sequence:later-element-judged")
            rel = "same-spec" if spec in payload[:j] else (
                "options-differ" if _only_options_differ(spec, payload[j - 1])
                else "attributes-differ")
            run.count("sequence:later-element:" + rel)
    if not samples:
        return
    run.case(canon_hash(payload), nontrivial, sample={
        "label": label, "sequence": [
            {k: s[k] for k in ("tokens", "failure_kinds_per_route",
                               "probe_verdicts_original")} for s in samples],
        "specs": payload})
    run.count("part:" + ("random-seq" if label == "random-seq"
                         else "catalogue-seq"))


def _only_options_differ(a, b):
    strip = lambda s: json.dumps(_without_opts(s), sort_keys=True)
    return a != b and strip(a) == strip(b)


def _without_opts(s):
    s = json.loads(json.dumps(s))
    for h in [s["checks"]] + [c["checks"] for c in s["columns"]] + \
            [c["checks"] for c in (s["index"] or [])]:
        for c in h:
            c["opts"] = {}
    return s


def _one_spec(run, label, spec, seed_key, collect, history):
    toks = G.tokens(spec)
    probes_for = _probes_for(seed_key)
    try:
        S0 = G.build(spec)
    except Exception as e:
        run.count("build_error:" + type(e).__name__)
        return None
    probes = probes_for(spec)
    twin_v = O.verdict_vector(S0, probes)
    for v in twin_v:
        run.count("probe:" + ("accept" if v[0] == "ok" else
                              "reject" if v[0].startswith("Schema") else
                              "exc"))
    reached = False
    route_kinds = {}
    with_files = _file_form_too(spec, toks)
    for route in O.ROUTES:
        if route == "json" and any(not isinstance(c["name"], str)
                                   for c in spec["columns"]):
            # JSON object keys are strings: an int column label is not a
            # JSON-serialisable part, the statement does not cover it
            run.count("undecided:json-route-skipped-non-string-column-label")
            continue
        r = O.evaluate(spec, route, probes=probes, twin_verdicts=twin_v,
                       file_route=with_files)
        route_kinds[route] = list(r.kinds)
        for u in r.undecided:
            run.count("undecided:" + u)
        for st in r.stages:
            run.count(f"stage:{route}:{st}")
        for m in r.monitors:
            run.count(f"monitor:{m}")
            run.count(f"monitor:{route}:{m}")
        if "read" in r.stages:
            reached = True
        if not r.kinds:
            run.count(f"roundtrip_ok:{route}" if "read" in r.stages
                      else f"roundtrip_not_judged:{route}")
            continue
        run.count(f"roundtrip_failed:{route}")
        _attribute(run, label, spec, route, r, probes_for, collect, history)
    count_tokens(run, label, toks)
    nontrivial = reached and any(not t.startswith("ncols=") for t in toks)
    return nontrivial, {
        "label": label, "spec": spec, "tokens": toks,
        "failure_kinds_per_route": route_kinds,
        "probe_verdicts_original": [v[0] for v in twin_v]}


ENCODING_SENSITIVE = ("unicode", "ulinebreak", "control", "invisible",
                      "astral", "newline", "edgews", "long")


def _file_form_too(spec, toks):
    """The file form of every route (write to a path, read the path) is run
    for every spec holding text that an encoding / newline / line-width
    treatment could change, and for every third other spec."""
    for t in toks:
        head, _, val = t.partition(":")
        if head.endswith((".name", ".title", ".description", ".check-arg")) \
                and any(c in val for c in ENCODING_SENSITIVE):
            return True
    return int(canon_hash(spec)[:8], 16) % 3 == 0


def count_tokens(run, label, toks):
    """Evidence counters that are a function of the generated spec alone."""
    if label.startswith(("sibling.", "seq:")):
        run.count("history-case:" + label)
    for t in toks:
        run.count("feature:" + t.split("=")[0].split(":")[0])
        head, _, val = t.partition(":")
        if head.endswith((".name", ".title", ".description")):
            for cls in val.split("+"):      # string class in a text slot
                run.count("strclass:" + cls)
        elif head.endswith(".check-arg"):
            for v in (val[5:-1].split(",") if val.startswith("list[")
                      else [val]):
                if v.startswith("str-"):    # string class in a check argument
                    for cls in v[4:].split("+"):
                        run.count("strarg:" + cls)
        elif head == "xcomp.checks":
            run.count("sibling:" + val)
        elif head.endswith(".xtype"):       # statistic type vs data type
            run.count("xtype:" + val)
        if ".check:" in t or ".dtype:" in t or ".check-opt:" in t \
                or ".check-arg:" in t:
            run.count("class:" + t)


def _attribute(run, label, spec, route, r, probes_for, collect, history=()):
    """Split the failures of one route into independent minimal causes."""
    cur, res = spec, r
    for _ in range(MAX_CAUSES):
        if not res.kinds:
            return
        kind = K.primary(res.kinds)
        mini, needed, n = O.minimise(cur, route, kind, probes_for)
        run.count("minimiser_evaluations", n)
        probes = probes_for(mini)
        rm = O.evaluate(mini, route, probes=probes, file_route=True)
        if kind not in rm.kinds:        # flaky reproduction: report as is
            rm, mini = res, cur
        mtoks = G.tokens(mini)
        for group in K.split(rm.kinds):
            mech = K.classify(route, group, mtoks,
                              dict(rm.detail, __text__=rm.text or ""))
            gkind = K.primary(group)
            witness = {
                "label": label, "route": route, "kinds": group,
                "all_kinds_of_minimal_case": rm.kinds,
                "minimal_spec": mini, "minimal_tokens": mtoks,
                "detail": {k: rm.detail.get(k) for k in group[:4]},
                "text": (rm.text or "")[:1500],
                "original_tokens": G.tokens(spec),
                # the minimiser re-executes in this process; when the cause
                # is state left by an earlier read the minimal spec alone
                # does not reproduce: replay first re-executes the history
                # of the case and the original spec in the run's order
                "original_spec": spec,
                "history_in_this_case": list(history)}
            run.violation(gkind, witness, mech)
            run.count(f"cause:{route}:{mech or 'UNCLASSIFIED'}")
            if collect is not None:
                collect.append((route, tuple(group), tuple(mtoks), mech,
                                rm.detail.get(gkind)))
        leaves = [p for p in needed
                  if not any(q != p and q[:len(p)] == p for q in needed)]
        # a dtype that other remaining checks depend on is context, not cause
        leaves = [p for p in leaves
                  if not (len(p) == 3 and p[2] == "dtype" and
                          len(cur[p[0]][p[1]]["checks"]) >
                          sum(1 for q in leaves if q[:3] == (p[0], p[1],
                                                             "checks")
                              and len(q) == 4))]
        nxt = O.strip(cur, leaves)
        if nxt == cur:
            return
        cur = nxt
        res = O.evaluate(cur, route, probes=probes_for(cur),
                         file_route=True)
    run.count("attribution_truncated")


def run(run, ctx):
    cat = G.catalogue(full=ctx.tier == "thorough")
    n = len(cat) + N_RANDOM[ctx.tier]
    for i in ctx.cases(n):
        rng = ctx.rng(PID, i)
        if i < len(cat):
            label, spec = cat[i]
        else:
            label, spec = G.random_case(rng)
        one_case(run, label, spec, f"{ctx.seed}|{PID}|probe|{i}")
    run.extra["catalogue_cases"] = len(cat) if ctx.shard == 0 else 0


def finalize(run, ctx):
    for name, m in K.FLOORS[ctx.tier].items():
        run.floors[name] = m


def replay(path):
    from .. import env
    env.pin_repo()
    with open(path) as f:
        w = json.load(f)
    wit = w["witness"]
    spec, route = wit["minimal_spec"], wit["route"]
    _warmup()
    pf = _probes_for("replay")
    found = None
    if wit.get("original_spec"):
        # first what the run did, in the order the run did it (earlier
        # elements of the sequence, every route, then the original spec up
        # to the failing route): a cause that is state left behind by an
        # earlier read only shows in that order, and reading the minimal
        # spec first could hide it
        for h in wit.get("history_in_this_case") or []:
            for rt in O.ROUTES:
                O.evaluate(h, rt, probes=pf(h))
        for rt in O.ROUTES:
            ro = O.evaluate(wit["original_spec"], rt,
                            probes=pf(wit["original_spec"]), file_route=True)
            if rt == route:
                if set(wit["kinds"]) & set(ro.kinds):
                    found = ro
                print(json.dumps({"original_case": True, "route": rt,
                                  "kinds": ro.kinds,
                                  "tokens": wit.get("original_tokens")},
                                 default=repr))
                break
    r = O.evaluate(spec, route, probes=pf(spec), file_route=True)
    print(json.dumps({"route": route, "kinds": r.kinds, "detail": r.detail,
                      "tokens": G.tokens(spec)}, indent=1, default=repr))
    print(r.text)
    if not r.kinds and found is not None:
        print("the minimal spec alone does not fail, the original case "
              "(with its history) does:")
        print(json.dumps({"kinds": found.kinds, "detail": found.detail},
                         indent=1, default=repr))
        print(found.text)
    return 1 if (r.kinds or found is not None) else 0
