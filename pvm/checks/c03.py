"""C03 — whatever validate returns conforms to the schema (parse postcondition
and fixpoint)."""
from __future__ import annotations

from .. import harness as H, snap as S
from ..evidence import Run, canon_hash
from ..gen import build as B, parse as P
from . import common as C
from ..model import match_regex as M_match

PID = "C03"
SHARDS = {"quick": 4, "thorough": 16}
N = {"quick": 3000, "thorough": 100000}


def new_run():
    return Run(PID, "exploration",
               "cases = (schema spec with a random combination of coerce / default / "
               "add_missing_columns / strict='filter' / drop_invalid_rows / idempotent "
               "custom parser, table) for pandas DataFrameSchema / SeriesSchema (with and "
               "without index schema) and polars DataFrameSchema (DataFrame and LazyFrame); "
               "non-trivial = validate returned an object while at least one parsing option "
               "was active; distinct = canonical hash of (backend, spec, table)",
               ["custom parsers are idempotent by construction (abs, clip, lower, strip)",
                "strip(S) turns strict='filter' into strict=True"])


def null_duplicates_only(out2):
    """Rejected only because >= 2 nulls sit in a unique field: the docs do not
    say whether nulls are duplicates of each other -> not judged."""
    def only_nulls(cells):
        # pandas drops null failure cases from the report ([]), polars lists them
        return cells is not None and all(all(v is None for v in c) for c in cells)
    return bool(out2.errors) and all(
        e.reason in ("SERIES_CONTAINS_DUPLICATES", "DUPLICATES") and only_nulls(e.cells)
        for e in out2.errors)


def labels_identify_rows(data):
    """drop_invalid_rows identifies rows by index label (documented): labels
    must be unique and non-null for the outcome to be specified."""
    idx = data.index
    if not idx.is_unique:
        return False
    import pandas as pd
    if isinstance(idx, pd.MultiIndex):
        return not any(idx.get_level_values(i).hasnans for i in range(idx.nlevels))
    return not idx.hasnans


def str_parser_on_non_str_cells(spec, table):
    """A str parser (``Series.str.*``) of the harness meets a column whose cells
    are not all strings / nulls."""
    fields = spec["columns"] if spec["kind"] == "frame" else [spec["field"]]
    for fs in fields:
        if fs.get("parser") in ("lower", "strip"):
            for c in table["columns"]:
                if (c["name"] == fs["name"] or (fs.get("regex") and M_match(fs["name"], c["name"]))) \
                        and (c["phys"] != "str" or any(
                            v is not None and not isinstance(v, str) for v in c["values"])):
                    return True
    return False


def classify(spec, table, backend, kind, out2, diff=None, res=None):
    reasons = out2.reasons() if out2 is not None else []
    if backend == "pandas" and spec.get("add_missing_columns") and C.has_dup_labels(table) \
            and res is not None and any(
                list(res.columns).count(c["name"]) > [t["name"] for t in table["columns"]].count(c["name"])
                for c in table["columns"]):
        return "add_missing_columns-multiplies-repeated-column-labels"
    import re as _re
    m = _re.match(r"^\$(\[3\]\[(\d+)\]\[0\]|\[2\]): 'Int64' != 'int64'", diff or "")
    na_coerced = False
    if backend == "pandas" and spec["kind"] == "frame":
        for fs in spec["columns"]:
            for c in table["columns"]:
                if (c["name"] == fs["name"] or (fs["regex"] and M_match(fs["name"], c["name"]))) \
                        and c["phys"] == "Int64" and None in c["values"] \
                        and (fs.get("coerce") or spec.get("coerce")):
                    na_coerced = True
    if backend == "pandas" and kind == "revalidation-changes-result" and spec.get("drop_invalid_rows") \
            and (m or na_coerced):
        # a column whose coercion failed keeps its input dtype although the
        # offending rows were dropped
        return "drop_invalid_rows-after-failed-coercion-leaves-column-uncoerced"
    if backend == "pandas" and kind == "result-rejected-by-stripped-schema" and reasons == ["DUPLICATES"] \
            and spec.get("unique") and any(c.get("parser") and c["name"] in spec["unique"]
                                           for c in spec["columns"]):
        return "joint-unique-checked-before-column-parsers-run"
    if backend.startswith("polars") and kind == "result-rejected-by-stripped-schema" \
            and spec.get("drop_invalid_rows") and reasons == ["SERIES_CONTAINS_NULLS"] \
            and any(c.get("regex") and not c["nullable"] for c in spec["columns"]):
        return "polars-drop_invalid_rows-skips-null-failures-of-regex-columns"
    if backend == "pandas" and kind == "revalidation-changes-result" and spec.get("drop_invalid_rows") \
            and spec["kind"] == "frame" and diff and diff.startswith("$[3]["):
        try:
            ci = int(diff.split("[")[2].split("]")[0])
            name = res.columns[ci]
            if any(c.get("parser") and c["name"] == name for c in spec["columns"]):
                return "column-parser-output-lost-when-column-fails-lazily"
        except Exception:
            pass
    if backend == "pandas" and kind == "result-rejected-by-stripped-schema" \
            and reasons == ["COLUMN_NOT_ORDERED"] and spec.get("add_missing_columns") \
            and spec.get("ordered") and any(c.get("regex") for c in spec["columns"]):
        return "add_missing_columns-ignores-regex-columns-when-placing-columns"
    if backend.startswith("polars") and spec.get("drop_invalid_rows") and kind == "result-rejected-by-stripped-schema":
        if set(reasons) & {"WRONG_DATATYPE", "COLUMN_NOT_IN_DATAFRAME", "COLUMN_NOT_IN_SCHEMA",
                           "COLUMN_NOT_ORDERED", "DATATYPE_COERCION", "CHECK_ERROR"}:
            return "polars-drop_invalid_rows-swallows-non-row-errors"
    return None


def completeness(run, spec, table, opts, muts, out, backend):
    """(c) a table that conforms by construction and needs only the exact
    parsing steps the schema requests must be accepted.  Returns True when a
    violation was recorded."""
    if muts or any(o.startswith("inexact:") for o in opts) or spec.get("unique") \
            or out.kind == "exc":
        return False
    for c in table["columns"]:
        if c["phys"] == "Int64" and None in c["values"]:
            return False      # <NA> cannot be coerced to numpy int64: legitimate rejection
    for l in (table.get("index") or {}).get("levels", []):
        if l["phys"] == "Int64" and None in l["values"]:
            return False
    fields = spec["columns"] if spec["kind"] == "frame" else [spec["field"]]
    if any(fs["unique"] and fs.get("default") is not None for fs in fields):
        return False      # a default may collide with an existing value
    run.count("c:parseable_input_must_be_accepted_checked")
    if out.accepted:
        return False
    mech = None
    run.violation("parseable-conforming-input-rejected",
                  C.brief(spec, table, {"backend": backend, "options": opts, "outcome": out.kind,
                                        "reasons": out.reasons(),
                                        "errors": [(e.reason, e.column, e.check_index) for e in out.errors][:6]}),
                  mech)
    return True


def pandas_case(run, spec, table, opts, muts):
    try:
        data = B.pandas_table(spec, table)
        schema = B.pandas_schema(spec)
    except Exception as e:
        run.count("build_error:" + type(e).__name__)
        return
    lazy = bool(spec.get("drop_invalid_rows"))
    out = H.run_validate(schema, data, lazy=lazy)
    key = canon_hash(["pandas", spec, table])
    run.case(key, out.accepted and bool(opts),
             sample={"backend": "pandas", "spec": spec, "table": table, "options": opts,
                     "outcome": out.kind})
    for o in opts:
        run.count(f"option:{o}")
    run.count(f"pandas:{spec['kind']}:{out.kind}")
    if completeness(run, spec, table, opts, muts, out, "pandas"):
        return
    if not out.accepted:
        return
    if lazy and not labels_identify_rows(data):
        run.count("undecided:drop_invalid_rows_with_non_unique_or_null_labels")
        return
    res = out.result
    # (a) result satisfies the schema with parsing switched off
    stripped = P.strip(spec)
    out2 = H.run_validate(B.pandas_schema(stripped), res, lazy=True)
    run.count("a:stripped_revalidation_checked")
    if out2.kind == "exc":
        run.count("undecided:revalidation_raised_internal_exception(C06):" + H.exc_sig(out2.exc))
        return
    if not out2.accepted and null_duplicates_only(out2):
        run.count("undecided:null_duplicates_in_unique_field")
        return
    if not out2.accepted:
        run.violation("result-rejected-by-stripped-schema",
                      C.brief(spec, table, {"backend": "pandas", "options": opts,
                                            "stripped_outcome": out2.kind,
                                            "reasons": out2.reasons(),
                                            "exc": repr(out2.exc)[:300] if out2.kind == "exc" else None}),
                      classify(spec, table, "pandas", "result-rejected-by-stripped-schema", out2, res=res))
        return
    # (b) validating again returns it unchanged
    if str_parser_on_non_str_cells(spec, table):
        # Series.str.lower()/strip() turn non-string cells into nulls: the
        # harness' parser is then not idempotent together with a default (the
        # next validation fills the nulls the parser made) -> not judged
        run.count("undecided:str-parser-on-non-str-cells-makes-nulls")
        return
    before = S.snap(res)
    out3 = H.run_validate(B.pandas_schema(spec), res, lazy=lazy)
    run.count("b:fixpoint_checked")
    if out3.kind == "exc":
        run.count("undecided:revalidation_raised_internal_exception(C06):" + H.exc_sig(out3.exc))
        return
    if not out3.accepted:
        run.violation("result-rejected-on-revalidation",
                      C.brief(spec, table, {"backend": "pandas", "options": opts,
                                            "outcome": out3.kind, "reasons": out3.reasons(),
                                            "exc": repr(out3.exc)[:300] if out3.kind == "exc" else None}),
                      None)
        return
    d = S.diff(before, S.snap(out3.result))
    if d:
        run.violation("revalidation-changes-result",
                      C.brief(spec, table, {"backend": "pandas", "options": opts, "diff": d}),
                      classify(spec, table, "pandas", "revalidation-changes-result", None, d, res))


def polars_case(run, spec, table, opts, muts, lazyframe):
    if C.has_dup_labels(table):
        return
    backend = "polars-lazy" if lazyframe else "polars"
    try:
        data = B.polars_table(table, lazy=lazyframe)
        schema = B.polars_schema(spec)
    except Exception as e:
        run.count("build_error_polars:" + type(e).__name__)
        return
    lazy = bool(spec.get("drop_invalid_rows"))
    out = H.run_validate(schema, data, lazy=lazy)
    key = canon_hash([backend, spec, table])
    run.case(key, out.accepted and bool(opts), sample=None)
    run.count(f"{backend}:{out.kind}")
    if not lazyframe and completeness(run, spec, table, opts, muts, out, backend):
        return
    if not out.accepted:
        return
    res = out.result
    if lazyframe:
        # a LazyFrame is validated at schema level only; data-dependent
        # coercion failures surface when the caller collects -> not judged
        try:
            res.collect()
        except Exception as e:
            run.count("polars-lazy:result_fails_on_collect(not judged):" + type(e).__name__)
            return
    out2 = H.run_validate(B.polars_schema(P.strip(spec)), res, lazy=True)
    run.count("a:stripped_revalidation_checked")
    if out2.kind == "exc":
        run.count("undecided:revalidation_raised_internal_exception(C06):" + H.exc_sig(out2.exc))
        return
    if not out2.accepted and null_duplicates_only(out2):
        run.count("undecided:null_duplicates_in_unique_field")
        return
    if not out2.accepted:
        run.violation("result-rejected-by-stripped-schema",
                      C.brief(spec, table, {"backend": backend, "options": opts,
                                            "stripped_outcome": out2.kind, "reasons": out2.reasons(),
                                            "exc": repr(out2.exc)[:300] if out2.kind == "exc" else None}),
                      classify(spec, table, backend, "result-rejected-by-stripped-schema", out2))
        return
    before = S.snap(res)
    out3 = H.run_validate(B.polars_schema(spec), res, lazy=lazy)
    run.count("b:fixpoint_checked")
    if out3.kind == "exc":
        run.count("undecided:revalidation_raised_internal_exception(C06):" + H.exc_sig(out3.exc))
        return
    if not out3.accepted:
        run.violation("result-rejected-on-revalidation",
                      C.brief(spec, table, {"backend": backend, "options": opts,
                                            "outcome": out3.kind, "reasons": out3.reasons()}), None)
        return
    d = S.diff(before, S.snap(out3.result))
    if d:
        run.violation("revalidation-changes-result",
                      C.brief(spec, table, {"backend": backend, "options": opts, "diff": d}), None)


def run(run, ctx):
    for i in ctx.cases(N[ctx.tier]):
        rng = ctx.rng(PID, i)
        if i % 3 == 2:
            spec, table, opts, muts = P.gen_parse_case(rng, neutral=True, neutral_regex=True)
            polars_case(run, spec, table, opts, muts, lazyframe=(i % 2 == 0))
        else:
            spec, table, opts, muts = P.gen_parse_case(rng)
            pandas_case(run, spec, table, opts, muts)


def finalize(run, ctx):
    for name, m in [("a:stripped_revalidation_checked", 300), ("b:fixpoint_checked", 300),
                    ("pandas:series:ok", 30), ("pandas:frame:ok", 150), ("polars:ok", 50),
                    ("polars-lazy:ok", 50), ("option:drop_invalid_rows", 50),
                    ("c:parseable_input_must_be_accepted_checked", 200),
                    ("option:add_missing_columns", 50), ("option:strict_filter", 50),
                    ("option:default", 50)]:
        run.floors[name] = m
