"""C03 — whatever validate returns conforms to the schema (parse postcondition
and fixpoint)."""
from __future__ import annotations

from .. import harness as H, snap as S
from ..evidence import Run, canon_hash
from .. import model as M
from ..gen import build as B, parse as P, spec as G
from . import common as C
from ..model import match_regex as M_match
from ..gen.spec import _flat_unique as G_flat_unique

PID = "C03"
SHARDS = {"quick": 4, "thorough": 16}
N = {"quick": 3000, "thorough": 100000}


def new_run():
    return Run(PID, "exploration",
               "cases = (schema spec with a random combination of coerce / default / "
               "add_missing_columns / strict='filter' / drop_invalid_rows / idempotent "
               "custom parser, table) for pandas DataFrameSchema / SeriesSchema (with and "
               "without index schema) and polars DataFrameSchema (DataFrame and LazyFrame), the "
               "backend drawn per case so that failing LazyFrame validations are followed by "
               "pandas / polars DataFrame cases in the same thread; the two re-validations of the "
               "oracle run in a fresh thread (pristine thread-local config context) and the "
               "config context is read before and after every validate; targeted workloads: "
               "Index check failing below a row with a column error under drop_invalid_rows, "
               "nulls created by coercion ('nan'/'NaT'/'None'/'' texts) in columns with a "
               "default, falsy labels, a Column with a custom parser that still fails a check on one "
               "row under drop_invalid_rows while another row survives with a raw value its parser "
               "changes, two row-level errors of one schema component on different rows (two checks "
               "of a column / null + value check / nulls in two columns of one regex column; pandas "
               "and polars), MultiIndex(ordered=False) with coercing levels on data whose level "
               "order differs from the schema's and whose levels accept each other's labels; "
               "non-trivial = validate returned an object while at least one parsing option "
               "was active; distinct = canonical hash of (backend, spec, table)",
               ["custom parsers are idempotent by construction (abs, clip, lower, strip)",
                "strip(S) turns strict='filter' into strict=True"])


def null_duplicate_error(e):
    """>= 2 nulls in a unique field: the docs do not say whether nulls are
    duplicates of each other."""
    # pandas drops null failure cases from the report ([]), polars lists them
    return e.reason in ("SERIES_CONTAINS_DUPLICATES", "DUPLICATES") and e.cells is not None \
        and all(all(v is None for v in c) for c in e.cells)


def null_duplicates_only(out2):
    """Rejected only because >= 2 nulls sit in a unique field -> not judged."""
    return bool(out2.errors) and all(null_duplicate_error(e) for e in out2.errors)


def labels_identify_rows(data):
    """drop_invalid_rows identifies rows by index label (documented): labels
    must be unique and non-null for the outcome to be specified."""
    idx = data.index
    if not idx.is_unique:
        return False
    import pandas as pd
    if isinstance(idx, pd.MultiIndex):
        return not any(idx.get_level_values(i).hasnans for i in range(idx.nlevels))
    return not idx.hasnans


def str_parser_on_non_str_cells(spec, table):
    """A str parser (``Series.str.*``) of the harness meets a column whose cells
    are not all strings / nulls."""
    fields = spec["columns"] if spec["kind"] == "frame" else [spec["field"]]
    for fs in fields:
        if fs.get("parser") in ("lower", "strip"):
            for c in table["columns"]:
                if (c["name"] == fs["name"] or (fs.get("regex") and M_match(fs["name"], c["name"]))) \
                        and (c["phys"] != "object" or any(
                            v is not None and not isinstance(v, str) for v in c["values"])):
                    return True
    return False


MECH_COLUMN_LEVEL = "column-level-drop_invalid_rows-inside-DataFrameSchema-violations-vanish"


def force_column_level_drop(rng, spec, table, opts, p=0.15):
    """``Column(..., drop_invalid_rows=True)`` inside a DataFrameSchema: one plain
    column with checks gets the option and one cell violating its checks.  Whatever
    the container does with the request, an object it returns must satisfy the
    schema with every parsing option (this one included) switched off."""
    if spec["kind"] != "frame" or not table["columns"] or rng.random() >= p:
        return
    names = [c["name"] for c in table["columns"]]
    n = len(table["columns"][0]["values"])
    if len(set(names)) != len(names) or n < 2:
        return
    cands = [(fs, c) for fs in spec["columns"]
             if not fs["regex"] and fs["dtype"] != "bool" and not fs.get("parser") and fs["checks"]
             for c in table["columns"]
             if c["name"] == fs["name"] and c["phys"] == G.PHYS_OF[fs["dtype"]] and len(c["values"]) == n]
    if not cands:
        return
    fs, c = rng.choice(cands)
    bad = [x for x in G.POOL[fs["dtype"]]
           if x is not None and x == x and not all(M.check_cell(k, x) for k in fs["checks"])]
    if not bad:
        return
    fs["col_drop"] = True
    c["values"][rng.randrange(n)] = rng.choice(bad)
    # the table no longer conforms: the completeness clause does not apply
    opts.extend(["combo:column_level_drop", "inexact:planted_violation_under_column_level_drop"])


def classify(spec, table, backend, kind, out2, diff=None, res=None):
    reasons = out2.reasons() if out2 is not None else []
    if backend == "pandas" and kind == "result-rejected-by-stripped-schema" and spec["kind"] == "frame" \
            and out2 is not None and out2.errors:
        asked = {fs["name"] for fs in spec["columns"] if fs.get("col_drop")}
        judged = [e for e in out2.errors if not null_duplicate_error(e)]    # the rest is an undecided region
        if asked and judged and all(e.column in asked and e.reason in ("DATAFRAME_CHECK", "SERIES_CONTAINS_NULLS",
                                                                      "SERIES_CONTAINS_DUPLICATES")
                                    for e in judged):
            # every cell the stripped schema rejects (check, nullability, uniqueness)
            # lies in a column that asked for drop_invalid_rows itself
            return MECH_COLUMN_LEVEL
    if backend == "pandas" and kind == "revalidation-changes-result" and spec["kind"] == "series":
        fs, col = spec["field"], table["columns"][0]
        null_texts = {t for ts in P.NULL_TEXT.values() for t in ts}
        try:
            has_null = res is not None and bool(res.isna().any())
        except Exception:
            has_null = False
        if fs.get("default") is not None and fs.get("coerce") and col["phys"] == "object" and has_null \
                and any(isinstance(x, str) and x in null_texts for x in col["values"]):
            # ArraySchemaBackend.validate fills the default BEFORE it coerces: a
            # null that coercion itself produces ("nan" / "NaT" text) survives
            # the first validation and is filled by the second one
            return "array-schema-default-filled-before-coercion"
    if backend == "pandas" and spec.get("add_missing_columns") and C.has_dup_labels(table) \
            and res is not None and any(
                list(res.columns).count(c["name"]) > [t["name"] for t in table["columns"]].count(c["name"])
                for c in table["columns"]):
        return "add_missing_columns-multiplies-repeated-column-labels"
    import re as _re
    null_texts = {t for ts in P.NULL_TEXT.values() for t in ts}
    if backend == "pandas" and kind == "result-rejected-by-stripped-schema" and reasons == ["DUPLICATES"] \
            and spec["kind"] == "frame" and spec.get("unique"):
        listed = set(G_flat_unique(spec))
        for fs in spec["columns"]:
            for c in table["columns"]:
                if fs["name"] in listed and c["name"] == fs["name"] and fs.get("default") is not None \
                        and not any(f2.get("parser") for f2 in spec["columns"] if f2["name"] in listed) \
                        and (fs.get("coerce") or spec.get("coerce")) and c["phys"] == "object" \
                        and any(isinstance(x, str) and x in null_texts for x in c["values"]):
                    # the frame-level defaults are filled BEFORE coercion, joint
                    # uniqueness is checked on the coerced frame (the null that
                    # coercion made is still there), the column component then
                    # fills the default: the returned frame repeats a row
                    return "coercion-made-null-filled-after-joint-unique-check"
    if backend.startswith("polars") and kind == "result-rejected-by-stripped-schema" \
            and spec.get("add_missing_columns"):
        labels = [c["name"] for c in table["columns"]]
        try:
            got = list(res.collect_schema().names()) if res is not None else []
        except Exception:
            got = []
        # the symptom of that defect: the result HAS a column named like the
        # pattern that matched nothing
        if any(fs.get("regex") and fs.get("required", True) and fs["name"] in got
               and not any(M_match(fs["name"], l) for l in labels) for fs in spec["columns"]):
            return "polars-add_missing_columns-adds-column-named-after-unmatched-regex-pattern"
    if backend.startswith("polars") and kind == "revalidation-changes-result" and spec.get("drop_invalid_rows") \
            and _re.match(r"^\$\[1\]\[\d+\]\[1\]: ", diff or "") \
            and (spec.get("coerce") or any(fs.get("coerce") for fs in spec["columns"])):
        # a failed coercion is one of the errors polars' drop_invalid_rows
        # swallows: the column comes back uncoerced and the next validation
        # (fewer rows) coerces it
        return "polars-drop_invalid_rows-swallows-non-row-errors"
    m = _re.match(r"^\$(\[3\]\[(\d+)\]\[0\]|\[2\]): 'Int64' != 'int64'", diff or "")
    na_coerced = False
    if backend == "pandas" and spec["kind"] == "frame":
        for fs in spec["columns"]:
            for c in table["columns"]:
                if (c["name"] == fs["name"] or (fs["regex"] and M_match(fs["name"], c["name"]))) \
                        and c["phys"] == "Int64" and None in c["values"] \
                        and (fs.get("coerce") or spec.get("coerce")):
                    na_coerced = True
    if backend == "pandas" and kind == "revalidation-changes-result" and spec.get("drop_invalid_rows") \
            and (m or na_coerced):
        # a column whose coercion failed keeps its input dtype although the
        # offending rows were dropped
        return "drop_invalid_rows-after-failed-coercion-leaves-column-uncoerced"
    if backend == "pandas" and kind == "result-rejected-by-stripped-schema" and reasons == ["DUPLICATES"] \
            and spec.get("unique") and any(c.get("parser") and c["name"] in spec["unique"]
                                           for c in spec["columns"]):
        return "joint-unique-checked-before-column-parsers-run"
    if backend.startswith("polars") and kind == "result-rejected-by-stripped-schema" \
            and spec.get("drop_invalid_rows") and reasons == ["SERIES_CONTAINS_NULLS"] \
            and any(c.get("regex") and not c["nullable"] for c in spec["columns"]):
        return "polars-drop_invalid_rows-skips-null-failures-of-regex-columns"
    if backend == "pandas" and kind == "revalidation-changes-result" and spec.get("drop_invalid_rows") \
            and spec["kind"] == "frame" and diff and diff.startswith("$[3]["):
        try:
            ci = int(diff.split("[")[2].split("]")[0])
            name = res.columns[ci]
            if any(c.get("parser") and c["name"] == name for c in spec["columns"]):
                return "column-parser-output-lost-when-column-fails-lazily"
        except Exception:
            pass
    if backend == "pandas" and kind == "result-rejected-by-stripped-schema" and spec.get("drop_invalid_rows") \
            and spec["kind"] == "frame" and reasons == ["DATAFRAME_CHECK"] and out2 is not None \
            and all(any(c.get("parser") and c["name"] == e.column for c in spec["columns"])
                    for e in out2.errors):
        # the surviving rows carry the RAW values of a column with a parser
        return "column-parser-output-lost-when-column-fails-lazily"
    if backend == "pandas" and kind == "result-rejected-by-stripped-schema" \
            and reasons == ["COLUMN_NOT_ORDERED"] and spec.get("add_missing_columns") \
            and spec.get("ordered") and any(c.get("regex") for c in spec["columns"]):
        return "add_missing_columns-ignores-regex-columns-when-placing-columns"
    if backend.startswith("polars") and spec.get("drop_invalid_rows") and kind == "result-rejected-by-stripped-schema":
        if set(reasons) & {"WRONG_DATATYPE", "COLUMN_NOT_IN_DATAFRAME", "COLUMN_NOT_IN_SCHEMA",
                           "COLUMN_NOT_ORDERED", "DATATYPE_COERCION", "CHECK_ERROR"}:
            return "polars-drop_invalid_rows-swallows-non-row-errors"
    return None


def completeness(run, spec, table, opts, muts, out, backend):
    """(c) a table that conforms by construction and needs only the exact
    parsing steps the schema requests must be accepted.  Returns True when a
    violation was recorded."""
    if muts or any(o.startswith("inexact:") for o in opts) or spec.get("unique") \
            or out.kind == "exc":
        return False
    for c in table["columns"]:
        if c["phys"] == "Int64" and None in c["values"]:
            return False      # <NA> cannot be coerced to numpy int64: legitimate rejection
    for l in (table.get("index") or {}).get("levels", []):
        if l["phys"] == "Int64" and None in l["values"]:
            return False
    fields = spec["columns"] if spec["kind"] == "frame" else [spec["field"]]
    if any(fs["unique"] and fs.get("default") is not None for fs in fields):
        return False      # a default may collide with an existing value
    run.count("c:parseable_input_must_be_accepted_checked")
    if out.accepted:
        return False
    mech = None
    run.violation("parseable-conforming-input-rejected",
                  C.brief(spec, table, {"backend": backend, "options": opts, "outcome": out.kind,
                                        "reasons": out.reasons(),
                                        "errors": [(e.reason, e.column, e.check_index) for e in out.errors][:6]}),
                  mech)
    return True


def revalidate(stripped_schema, schema, res, lazy):
    """The two re-validations of the oracle, run in a fresh thread (pandera's
    context configuration is thread-local): (a) the result against the schema
    with parsing switched off, (b) the result against the schema itself.
    Returns (outcome a, snapshot of the result before b, outcome b)."""
    def both():
        o2 = H.run_validate(stripped_schema, res, lazy=True)
        if not o2.accepted:
            return o2, None, None
        before = S.snap(res)
        return o2, before, H.run_validate(schema, res, lazy=lazy)
    return H.pristine(both)


def pandas_case(run, spec, table, opts, muts):
    try:
        data = B.pandas_table(spec, table)
        schema = B.pandas_schema(spec)
    except Exception as e:
        run.count("build_error:" + type(e).__name__)
        return
    lazy = bool(spec.get("drop_invalid_rows")) or (
        spec["kind"] == "frame" and any(fs.get("col_drop") for fs in spec["columns"]))
    out = H.run_validate(schema, data, lazy=lazy)
    key = canon_hash(["pandas", spec, table])
    run.case(key, out.accepted and bool(opts),
             sample={"backend": "pandas", "spec": spec, "table": table, "options": opts,
                     "outcome": out.kind})
    for o in opts:
        run.count(f"option:{o}")
    run.count(f"pandas:{spec['kind']}:{out.kind}")
    if completeness(run, spec, table, opts, muts, out, "pandas"):
        return
    if not out.accepted:
        return
    if lazy and not labels_identify_rows(data):
        run.count("undecided:drop_invalid_rows_with_non_unique_or_null_labels")
        return
    res = out.result
    # (a) result satisfies the schema with parsing switched off
    stripped = P.strip(spec)
    out2, before, out3 = revalidate(B.pandas_schema(stripped), B.pandas_schema(spec), res, lazy)
    run.count("a:stripped_revalidation_checked")
    if "combo:column_level_drop" in opts:
        run.count("a:stripped_revalidation_checked:combo:column_level_drop")
    if out2.kind == "exc":
        run.count("undecided:revalidation_raised_internal_exception(C06):" + H.exc_sig(out2.exc))
        return
    if not out2.accepted and null_duplicates_only(out2):
        run.count("undecided:null_duplicates_in_unique_field")
        return
    if not out2.accepted:
        run.violation("result-rejected-by-stripped-schema",
                      C.brief(spec, table, {"backend": "pandas", "options": opts,
                                            "stripped_outcome": out2.kind,
                                            "reasons": out2.reasons(),
                                            "exc": repr(out2.exc)[:300] if out2.kind == "exc" else None}),
                      classify(spec, table, "pandas", "result-rejected-by-stripped-schema", out2, res=res))
        return
    # (b) validating again returns it unchanged
    if str_parser_on_non_str_cells(spec, table):
        # Series.str.lower()/strip() turn non-string cells into nulls: the
        # harness' parser is then not idempotent together with a default (the
        # next validation fills the nulls the parser made) -> not judged
        run.count("undecided:str-parser-on-non-str-cells-makes-nulls")
        return
    run.count("b:fixpoint_checked")
    for o in opts:
        if o in ("coercion_made_nulls", "falsy_labels") or o.startswith("combo:"):
            run.count(f"b:fixpoint_checked:{o}")
    if out3.kind == "exc":
        run.count("undecided:revalidation_raised_internal_exception(C06):" + H.exc_sig(out3.exc))
        return
    if not out3.accepted:
        run.violation("result-rejected-on-revalidation",
                      C.brief(spec, table, {"backend": "pandas", "options": opts,
                                            "outcome": out3.kind, "reasons": out3.reasons(),
                                            "exc": repr(out3.exc)[:300] if out3.kind == "exc" else None}),
                      None)
        return
    d = S.diff(before, S.snap(out3.result))
    if d:
        run.violation("revalidation-changes-result",
                      C.brief(spec, table, {"backend": "pandas", "options": opts, "diff": d}),
                      classify(spec, table, "pandas", "revalidation-changes-result", None, d, res))


def polars_case(run, spec, table, opts, muts, lazyframe):
    if C.has_dup_labels(table):
        return
    backend = "polars-lazy" if lazyframe else "polars"
    try:
        data = B.polars_table(table, lazy=lazyframe)
        schema = B.polars_schema(spec)
    except Exception as e:
        run.count("build_error_polars:" + type(e).__name__)
        return
    lazy = bool(spec.get("drop_invalid_rows"))
    out = H.run_validate(schema, data, lazy=lazy)
    key = canon_hash([backend, spec, table])
    run.case(key, out.accepted and bool(opts), sample=None)
    run.count(f"{backend}:{out.kind}")
    if not lazyframe and completeness(run, spec, table, opts, muts, out, backend):
        return
    if not out.accepted:
        return
    res = out.result
    if lazyframe:
        # a LazyFrame is validated at schema level only; data-dependent
        # coercion failures surface when the caller collects -> not judged
        try:
            res.collect()
        except Exception as e:
            run.count("polars-lazy:result_fails_on_collect(not judged):" + type(e).__name__)
            return
    out2, before, out3 = revalidate(B.polars_schema(P.strip(spec)), B.polars_schema(spec), res, lazy)
    run.count("a:stripped_revalidation_checked")
    if out2.kind == "exc":
        run.count("undecided:revalidation_raised_internal_exception(C06):" + H.exc_sig(out2.exc))
        return
    if not out2.accepted and null_duplicates_only(out2):
        run.count("undecided:null_duplicates_in_unique_field")
        return
    if not out2.accepted:
        run.violation("result-rejected-by-stripped-schema",
                      C.brief(spec, table, {"backend": backend, "options": opts,
                                            "stripped_outcome": out2.kind, "reasons": out2.reasons(),
                                            "exc": repr(out2.exc)[:300] if out2.kind == "exc" else None}),
                      classify(spec, table, backend, "result-rejected-by-stripped-schema", out2, res=res))
        return
    run.count("b:fixpoint_checked")
    for o in opts:
        if o.startswith("combo:"):
            run.count(f"b:fixpoint_checked:{backend}:{o}")
    if out3.kind == "exc":
        run.count("undecided:revalidation_raised_internal_exception(C06):" + H.exc_sig(out3.exc))
        return
    if not out3.accepted:
        run.violation("result-rejected-on-revalidation",
                      C.brief(spec, table, {"backend": backend, "options": opts,
                                            "outcome": out3.kind, "reasons": out3.reasons()}), None)
        return
    d = S.diff(before, S.snap(out3.result))
    if d:
        run.violation("revalidation-changes-result",
                      C.brief(spec, table, {"backend": backend, "options": opts, "diff": d}),
                      classify(spec, table, backend, "revalidation-changes-result", None, d))


def run(run, ctx):
    for i in ctx.cases(N[ctx.tier]):
        rng = ctx.rng(PID, i)
        # the backend is drawn from the case's own generator (not from the case
        # index), so that in every shard failing polars LazyFrame validations
        # are followed by pandas / polars DataFrame cases in the same thread:
        # whatever an earlier validation leaves behind in the thread shows up
        # in the validation under test, while the re-validations of the oracle
        # run in a fresh thread (harness.pristine)
        r = rng.random()
        if r < 0.34:
            spec, table, opts, muts = P.gen_parse_case(rng, neutral=True, neutral_regex=True,
                                                       same_component_p=0.25)
            polars_case(run, spec, table, opts, muts, lazyframe=rng.random() < 0.5)
        else:
            spec, table, opts, muts = P.gen_parse_case(rng, index_combo_p=0.12, parser_combo_p=0.15,
                                                       same_component_p=0.05, unordered_mi_p=0.05)
            # drawn from its own generator: the streams of the cases above are unchanged
            force_column_level_drop(ctx.rng(PID + ":column_level_drop", i), spec, table, opts)
            pandas_case(run, spec, table, opts, muts)
        C.report_context_leaks(run, {"case": i})
    C.finish_context_monitor(run)


def finalize(run, ctx):
    for name, m in [("a:stripped_revalidation_checked", 300), ("b:fixpoint_checked", 300),
                    ("a:stripped_revalidation_checked:combo:column_level_drop", 10),
                    ("pandas:series:ok", 30), ("pandas:frame:ok", 150), ("polars:ok", 50),
                    ("polars-lazy:ok", 50), ("option:drop_invalid_rows", 50),
                    ("c:parseable_input_must_be_accepted_checked", 200),
                    ("option:add_missing_columns", 50), ("option:strict_filter", 50),
                    ("option:default", 50),
                    ("b:fixpoint_checked:coercion_made_nulls", 15),
                    ("b:fixpoint_checked:combo:index_error_below_column_error", 9),
                    ("b:fixpoint_checked:falsy_labels", 70),
                    ("b:fixpoint_checked:combo:parser_column_fails_lazily", 8),
                    ("b:fixpoint_checked:combo:same_component_errors", 7),
                    ("b:fixpoint_checked:polars:combo:same_component_errors", 9),
                    ("b:fixpoint_checked:combo:unordered_multiindex_coerced", 10),
                    ("config_monitor:validate_calls_bracketed", 1800)]:
        run.floors[name] = m
