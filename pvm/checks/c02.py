"""C02 — lazy and eager validation agree; the lazy error report is exact."""
from __future__ import annotations

from collections import Counter

from .. import harness as H, model as M
from ..evidence import Run, canon_hash
from ..gen import build as B, spec as G
from . import common as C

PID = "C02"
SHARDS = {"quick": 4, "thorough": 16}
N = {"quick": 3000, "thorough": 120000}
ROW_REASONS = {"SERIES_CONTAINS_NULLS", "SERIES_CONTAINS_DUPLICATES",
               "DATAFRAME_CHECK", "DUPLICATES"}


def new_run():
    return Run(PID, "exploration",
               "cases = (schema spec, table) from pvm.gen.spec biased to several "
               "simultaneous violations; each is validated eagerly and lazily by "
               "the real code (pandas always, polars for backend-neutral specs); "
               "non-trivial = the data is rejected (there is a report to check); "
               "distinct = canonical hash of (backend, spec, table)",
               ["cell-exact comparison only where pvm/model.py is exact "
                "(well-typed columns, unique row labels, no repeated column labels)",
                "two nulls in a unique field / joint uniqueness over nulls: not judged"])


def model_cells(v, spec, table):
    """{(reason, column, check) -> set of (pos, value)}, scalars -> Counter of reasons."""
    rows, scalars = {}, Counter()
    for e in v.errors:
        if e.cells is None:
            scalars[(e.reason, e.scalar if e.reason == "COLUMN_NOT_IN_DATAFRAME" else None)] += 1
            continue
        if e.reason == "DUPLICATES":
            uq = spec["unique"]
            groups = [uq] if all(isinstance(x, str) for x in uq) else uq
            names = {c["name"] for c in table["columns"]}
            for g in groups:
                subset = [x for x in g if x in names]
                cols = {c["name"]: c["values"] for c in table["columns"]}
                cells = {(n, i, cols[n][i]) for i, _ in e.cells for n in subset}
                if cells:
                    rows[("DUPLICATES", None, None)] = cells
                    break
            continue
        k = (e.reason, e.column, e.check, e.where)
        rows.setdefault(k, set()).update((e.column, i, val) for i, val in e.cells)
    return rows, scalars


def mi_key(t):
    """Canonical key of a MultiIndex label: pandera renders labels as the str()
    of a tuple whose numeric members may have been upcast (0 -> 0.0)."""
    import pandas as pd
    if isinstance(t, str):
        try:
            t = eval(t, {"Timestamp": pd.Timestamp, "nan": float("nan"),
                         "NaT": pd.NaT, "inf": float("inf"), "np": __import__("numpy")})
        except Exception:
            return ("unparsed", t)
    out = []
    for x in t:
        x = H.norm(x)
        if isinstance(x, (int, float)) and not isinstance(x, bool):
            x = float(x)
        out.append(x)
    return tuple(out)


def impl_cells(out, table, multi_index, l2p):
    rows, scalars = {}, Counter()
    for e in out.errors:
        if e.cells is None:
            scalars[(e.reason, e.scalar if e.reason == "COLUMN_NOT_IN_DATAFRAME" else None)] += 1
            continue
        where = "index" if e.context in ("Index", "MultiIndex") else "column"
        if e.reason == "DUPLICATES":
            k = ("DUPLICATES", None, None)
        else:
            k = (e.reason, e.column, e.check_index, where)
        s = rows.setdefault(k, set())
        for label, val, col in e.cells:
            if where == "index" and e.context == "Index":
                pos = label              # positions after reset_index(drop=True)
                col = e.column
            elif e.context == "MultiIndex":
                pos = l2p.get(mi_key(label), ("?", label))
                k2 = (e.reason, col, e.check_index, "index")
                rows.setdefault(k2, set()).add((col, pos, val))
                continue
            else:
                pos = l2p.get(mi_key(label) if multi_index else label, ("?", label))
                if e.reason != "DUPLICATES":
                    col = e.column
            s.add((col, pos, val))
    return {k: v for k, v in rows.items() if v}, scalars


def classify_cells(spec, v, only_m, only_i):
    """Mechanism of a cell-level difference (keys are str((reason, column, check, where)))."""
    keys_m = [eval(k) for k in only_m]
    keys_i = [eval(k) for k in only_i]
    if spec["kind"] == "series" and spec.get("index") and not keys_i and keys_m \
            and all(k[-1] == "index" for k in keys_m) \
            and any(e.where == "column" for e in v.errors):
        return "series-schema-lazy-skips-index-validation-when-series-fails"
    ix = spec.get("index") or []
    if len(ix) > 1 and keys_i and all(k[0] == "SERIES_CONTAINS_DUPLICATES" and k[-1] == "index"
                                      for k in keys_m + keys_i) and not keys_m:
        lv = {f["name"]: f for f in ix}
        if all(lv.get(k[1], {}).get("report_duplicates", "all") != "all" for k in keys_i):
            return "multiindex-level-ignores-report_duplicates"
    return None


def classify(spec, kind, detail):
    if kind == "lazy-report-misses-frame-constraint":
        if spec["kind"] == "series" and spec.get("index") and detail.get("series_errors") \
                and set(detail.get("missing_where", [])) == {"index"}:
            return "series-schema-lazy-skips-index-validation-when-series-fails"
        if spec.get("strict") is True and spec.get("ordered") and \
                set(detail.get("missing", [])) <= {"COLUMN_NOT_IN_SCHEMA", "COLUMN_NOT_ORDERED"}:
            return "strict-and-ordered-loop-stops-at-first-offender"
    return None


def judge_pandas(run, spec, table, muts):
    v = M.evaluate(spec, table)
    try:
        data = B.pandas_table(spec, table)
        oe = H.run_validate(B.pandas_schema(spec), data)
        ol = H.run_validate(B.pandas_schema(spec), data, lazy=True)
    except Exception as e:
        run.count("build_error:" + type(e).__name__)
        return
    key = canon_hash(["pandas", spec, table])
    run.case(key, not oe.accepted and oe.kind != "exc",
             sample={"backend": "pandas", "spec": spec, "table": table,
                     "eager": oe.kind, "lazy": ol.kind,
                     "lazy_errors": [(e.reason, e.column, e.check_index) for e in ol.errors]})
    if "exc" in (oe.kind, ol.kind):
        run.count("internal_exception(C06)")
        return
    # (i)
    run.count("i:raise_equivalence_checked")
    if oe.accepted != ol.accepted:
        run.violation("lazy-eager-raise-mismatch",
                      C.brief(spec, table, {"eager": oe.kind, "lazy": ol.kind}), None)
        return
    if oe.accepted:
        run.count("both_accept")
        return
    run.count("both_reject")
    run.count(f"n_lazy_errors:{min(len(ol.errors), 6)}")
    # (ii) eager error is one of the lazy errors
    e0 = oe.errors[0]
    run.count("ii:eager_in_lazy_checked")
    def same(e):
        # lazy MultiIndex errors are re-wrapped with the MultiIndex as schema
        # context (column None); reason, check and check index identify them
        return (e.reason, e.check_index, e.check) == (e0.reason, e0.check_index, e0.check) \
            and (e.column == e0.column or e.context == "MultiIndex")
    if not any(same(e) for e in ol.errors):
        run.violation("eager-error-not-in-lazy-errors",
                      C.brief(spec, table, {"eager": (e0.reason, e0.column, e0.check_index),
                                            "lazy": [(e.reason, e.column, e.check_index) for e in ol.errors]}),
                      None)
    # (iv) counts
    run.count("iv:error_counts_checked")
    cnt = Counter(e.reason for e in ol.errors)
    if dict(cnt) != {k: v_ for k, v_ in (ol.error_counts or {}).items() if v_}:
        run.violation("error-counts-differ-from-collected-errors",
                      C.brief(spec, table, {"counts": ol.error_counts, "collected": dict(cnt)}), None)
    # (iii) exact cells
    if v.accept is None or not v.exact or C.has_dup_labels(table) or v.accept:
        run.count("iii:skipped_not_exact")
        if v.accept:
            run.count("model_accept_but_rejected(C01)")
        return
    mi = bool(table.get("index")) and len(table["index"]["levels"]) > 1
    labels = [mi_key(t) if mi else H.norm(t) for t in data.index]
    if len(set(labels)) != len(labels) or any(l is None for l in labels) or \
            (mi and any(x is None for l in table["index"]["levels"] for x in l["values"])):
        # a cell is identified by (column, row label): with repeated / null labels
        # only the multiset of reported values per error can be compared
        run.count("iii:values_only_compared(labels_not_unique_or_null)")
        mrows, _ = model_cells(v, spec, table)
        def canon(x):
            return repr(float(x)) if isinstance(x, (int, float)) and not isinstance(x, bool) else repr(x)
        want = {k: sorted(canon(c[2]) for c in cs) for k, cs in mrows.items()}
        got = {}
        for e in ol.errors:
            if e.cells is None:
                continue
            where = "index" if e.context in ("Index", "MultiIndex") else "column"
            if e.reason == "DUPLICATES":
                k = ("DUPLICATES", None, None)
            elif e.context == "MultiIndex":
                for _, val, col in e.cells:
                    got.setdefault((e.reason, col, e.check_index, "index"), []).append(canon(val))
                continue
            else:
                k = (e.reason, e.column, e.check_index, where)
            got.setdefault(k, []).extend(canon(c[1]) for c in e.cells)
        got = {k: sorted(x) for k, x in got.items() if x}
        # null failure cases are dropped from pandas' report when the label is null
        if any(l is None for l in labels):
            return
        if {k: x for k, x in want.items() if x} != got:
            run.violation("lazy-failure-case-values-differ-from-violating-cells",
                          C.brief(spec, table, {"model": {str(k): x for k, x in want.items()},
                                                "report": {str(k): x for k, x in got.items()}}), None)
        return
    mrows, mscal = model_cells(v, spec, table)
    irows, iscal = impl_cells(ol, table, mi, {l: i for i, l in enumerate(labels)})
    run.count("iii:cells_compared")
    for e in v.errors:
        run.count(f"iii:reason:{e.reason}")
    if mrows != irows:
        only_m = {str(k): sorted(map(repr, s - irows.get(k, set()))) for k, s in mrows.items() if s - irows.get(k, set())}
        only_i = {str(k): sorted(map(repr, s - mrows.get(k, set()))) for k, s in irows.items() if s - mrows.get(k, set())}
        run.violation("lazy-failure-cases-differ-from-violating-cells",
                      C.brief(spec, table, {"missing_from_report": only_m,
                                            "reported_but_conforming": only_i}),
                      classify_cells(spec, v, only_m, only_i))
    ms, is_ = set(mscal), set(iscal)
    if ms != is_:
        missing = sorted({r for r, _ in ms - is_})
        extra = sorted({r for r, _ in is_ - ms})
        detail = {"missing": missing, "extra": extra,
                  "missing_where": sorted({e.where for e in v.errors if e.cells is None
                                           and e.reason in missing}),
                  "series_errors": any(e.where == "column" for e in v.errors)}
        kind = "lazy-report-misses-frame-constraint" if missing and not extra \
            else "lazy-report-frame-level-entries-differ"
        run.violation(kind, C.brief(spec, table, detail), classify(spec, kind, detail))


def judge_polars(run, spec, table, muts):
    import polars as pl
    if C.has_dup_labels(table):      # polars frames cannot repeat a label
        return
    v = M.evaluate(spec, table)
    try:
        data = B.polars_table(table)
        oe = H.run_validate(B.polars_schema(spec), data)
        ol = H.run_validate(B.polars_schema(spec), data, lazy=True)
    except Exception as e:
        run.count("build_error_polars:" + type(e).__name__)
        return
    key = canon_hash(["polars", spec, table])
    run.case(key, not oe.accepted and oe.kind != "exc",
             sample=None)
    if "exc" in (oe.kind, ol.kind):
        run.count("polars:internal_exception(C06)")
        return
    run.count("polars:i:raise_equivalence_checked")
    if oe.accepted != ol.accepted:
        run.violation("lazy-eager-raise-mismatch",
                      C.brief(spec, table, {"backend": "polars", "eager": oe.kind, "lazy": ol.kind}), None)
        return
    if oe.accepted:
        return
    e0 = oe.errors[0]
    run.count("polars:ii:eager_in_lazy_checked")
    if not any((e.reason, e.column, e.check_index) == (e0.reason, e0.column, e0.check_index)
               for e in ol.errors):
        run.violation("eager-error-not-in-lazy-errors",
                      C.brief(spec, table, {"backend": "polars",
                                            "eager": (e0.reason, e0.column, e0.check_index),
                                            "lazy": [(e.reason, e.column, e.check_index) for e in ol.errors]}), None)
    cnt = Counter(e.reason for e in ol.errors)
    run.count("polars:iv:error_counts_checked")
    if dict(cnt) != {k: v_ for k, v_ in (ol.error_counts or {}).items() if v_}:
        run.violation("error-counts-differ-from-collected-errors",
                      C.brief(spec, table, {"backend": "polars", "counts": ol.error_counts,
                                            "collected": dict(cnt)}), None)
    # (iii) by row position: {(column, pos)} of row-level failures
    if v.accept is None or not v.exact or v.accept:
        return
    fc = ol.failure_cases
    if not isinstance(fc, pl.DataFrame):
        return
    got = {(r["column"], r["index"]) for r in fc.rows(named=True) if r["index"] is not None
           and r["check"] != "multiple_fields_uniqueness"}
    exp = {(e.column, i) for e in v.errors if e.cells is not None
           and e.reason not in ("DUPLICATES", "WRONG_DATATYPE")   # dtype is a scalar entry in polars
           for i, _ in e.cells}
    run.count("polars:iii:row_positions_compared")
    if got != exp:
        run.violation("lazy-failure-cases-differ-from-violating-cells",
                      C.brief(spec, table, {"backend": "polars",
                                            "missing_from_report": sorted(map(repr, exp - got)),
                                            "reported_but_conforming": sorted(map(repr, got - exp))}), None)


def run(run, ctx):
    n = N[ctx.tier]
    for i in ctx.cases(n):
        rng = ctx.rng(PID, i)
        if i % 4 == 3:
            spec = G.gen_spec(rng, neutral=True)
            table = G.gen_table(rng, spec)
            muts = G.mutate(rng, spec, table, k=rng.choice([1, 2, 3]))
            judge_polars(run, spec, table, muts)
        else:
            spec = G.gen_spec(rng)
            if spec["kind"] == "frame" and i % 8 == 0:
                # several frame-level constraints violated at once
                spec["strict"], spec["ordered"] = True, True
            table = G.gen_table(rng, spec)
            muts = G.mutate(rng, spec, table, k=rng.choice([1, 2, 3, 3]))
            if spec["kind"] == "frame" and i % 8 == 0 and len(table["columns"]) >= 2 \
                    and not C.has_dup_labels(table):
                table["columns"].reverse()
                n = len(table["columns"][0]["values"])
                table["columns"].insert(rng.randint(0, len(table["columns"])),
                                        {"name": "extra", "phys": "float64", "values": [0.5] * n})
                muts.append(("reverse+extra_col",))
            if spec["kind"] == "frame" and not spec.get("index") and i % 5 == 1 and table["columns"]:
                # repeated row labels: offending and conforming rows share a label
                n = len(table["columns"][0]["values"])
                table["index"] = {"levels": [{"name": None, "phys": "object",
                                              "values": [rng.choice(["x", "y"]) for _ in range(n)]}]}
            judge_pandas(run, spec, table, muts)


def finalize(run, ctx):
    for name, m in [("i:raise_equivalence_checked", 400), ("ii:eager_in_lazy_checked", 200),
                    ("iv:error_counts_checked", 200), ("iii:cells_compared", 100),
                    ("polars:i:raise_equivalence_checked", 100),
                    ("polars:iii:row_positions_compared", 30)]:
        run.floors[name] = m
