"""C02 — lazy and eager validation agree; the lazy error report is exact."""
from __future__ import annotations

import copy
import re
from collections import Counter

from .. import harness as H, model as M
from ..evidence import Run, canon_hash
from ..gen import build as B, parse as P, spec as G
from . import common as C

PID = "C02"
SHARDS = {"quick": 8, "thorough": 16}
N = {"quick": 3600, "thorough": 140000}
# additional case indices (after the N cases above): subsampled validation,
# coercing index levels with a re-used schema object
N_SUB = {"quick": 900, "thorough": 36000}
N_COERCE = {"quick": 600, "thorough": 24000}
# reasons pandera files under the DATA category (the rest is SCHEMA)
DATA_REASONS = {"INVALID_TYPE", "DATATYPE_COERCION", "DATAFRAME_CHECK", "CHECK_ERROR", "DUPLICATES",
                "SERIES_CONTAINS_DUPLICATES", "ADD_MISSING_COLUMN_NO_DEFAULT", "MISMATCH_INDEX",
                "PARSER_ERROR"}
_ADDR = re.compile(r"0x[0-9a-fA-F]+")
ROW_REASONS = {"SERIES_CONTAINS_NULLS", "SERIES_CONTAINS_DUPLICATES",
               "DATAFRAME_CHECK", "DUPLICATES"}


def new_run():
    return Run(PID, "exploration",
               "cases = (schema spec, table) from pvm.gen.spec biased to several "
               "simultaneous violations; each is validated eagerly and lazily by "
               "the real code (pandas always, polars for backend-neutral specs); pandas: two schema "
               "objects per case, A validates eagerly then lazily, B lazily then eagerly - relations "
               "(i) (ii) (iv) are judged between the two first runs AND between the two runs of one "
               "object, and the second run of an object must equal (kind, normalised errors, counts) "
               "the first run of the same mode on the other object; a forced workload re-uses the "
               "schema object on frames / series whose Index / MultiIndex levels are stored as text / "
               "float / int and need exact coercion (coerce on the level, the MultiIndex or the "
               "DataFrameSchema; violations planted before retyping); a subsample workload validates "
               "frames (joint unique=[...] in 85 %, duplicated rows planted outside and inside the "
               "selection) with head= / tail= / sample=+random_state (n below, at and above len): "
               "(i) (ii) (iv) with the same options on both sides, accept/reject and the lazily "
               "reported cells against pvm.model of the selected rows (first h, last t, the rows "
               "data.sample(k, random_state) draws, de-duplicated); one case in "
               "seven runs relations (i) (ii) (iv) under config_context(validation_depth="
               "SCHEMA_ONLY / DATA_ONLY) on a workload with parsing options and injected "
               "parser-stage failures (uncoercible value, unfillable default, missing column "
               "without default, Index schema on a MultiIndex); an internal exception on one "
               "side only is a raise mismatch; falsy labels and dtype-only schemas as in C01; "
               "non-trivial = the data is rejected (there is a report to check; subsample cases: and "
               "the selection is a strict subset of the rows); "
               "distinct = canonical hash of (backend / workload, spec, table, options)",
               ["cell-exact comparison only where pvm/model.py is exact "
                "(well-typed columns, unique row labels, no repeated column labels)",
                "two nulls in a unique field / joint uniqueness over nulls: not judged",
                "subsample: sampled rows are identified by their (unique) labels via "
                "data.sample(k, random_state=r); which duplicate is 'the first' among sampled rows, "
                "index failure-case positions among sampled rows, mixed object columns: not judged"])


def model_cells(v, spec, table):
    """{(reason, column, check) -> set of (pos, value)}, scalars -> Counter of reasons."""
    rows, scalars = {}, Counter()
    for e in v.errors:
        if e.cells is None:
            scalars[(e.reason, e.scalar if e.reason == "COLUMN_NOT_IN_DATAFRAME" else None)] += 1
            continue
        if e.reason == "DUPLICATES":
            uq = spec["unique"]
            groups = [uq] if not any(isinstance(x, (list, tuple)) for x in uq) else uq
            names = {c["name"] for c in table["columns"]}
            for g in groups:
                subset = [x for x in g if x in names]
                cols = {c["name"]: c["values"] for c in table["columns"]}
                cells = {(n, i, cols[n][i]) for i, _ in e.cells for n in subset}
                if cells:
                    rows[("DUPLICATES", None, None)] = cells
                    break
            continue
        k = (e.reason, e.column, e.check, e.where)
        rows.setdefault(k, set()).update((e.column, i, val) for i, val in e.cells)
    return rows, scalars


def mi_key(t):
    """Canonical key of a MultiIndex label: pandera renders labels as the str()
    of a tuple whose numeric members may have been upcast (0 -> 0.0)."""
    import pandas as pd
    if isinstance(t, str):
        try:
            t = eval(t, {"Timestamp": pd.Timestamp, "nan": float("nan"),
                         "NaT": pd.NaT, "inf": float("inf"), "np": __import__("numpy")})
        except Exception:
            return ("unparsed", t)
    out = []
    for x in t:
        x = H.norm(x)
        if isinstance(x, (int, float)) and not isinstance(x, bool):
            x = float(x)
        out.append(x)
    return tuple(out)


def hv(x):
    """Hashable stand-in of a reported value (a broken report may carry dicts)."""
    try:
        hash(x)
        return x
    except TypeError:
        return ("unhashable", repr(x)[:200])


def impl_cells(out, table, multi_index, l2p):
    rows, scalars = {}, Counter()
    for e in out.errors:
        if e.cells is None:
            scalars[(e.reason, e.scalar if e.reason == "COLUMN_NOT_IN_DATAFRAME" else None)] += 1
            continue
        where = "index" if e.context in ("Index", "MultiIndex") else "column"
        if e.reason == "DUPLICATES":
            k = ("DUPLICATES", None, None)
        else:
            k = (e.reason, e.column, e.check_index, where)
        s = rows.setdefault(k, set())
        for label, val, col in e.cells:
            label, val, col = hv(label), hv(val), hv(col)
            if where == "index" and e.context == "Index":
                pos = label              # positions after reset_index(drop=True)
                col = e.column
            elif e.context == "MultiIndex":
                pos = l2p.get(mi_key(label), ("?", label))
                k2 = (e.reason, col, e.check_index, "index")
                rows.setdefault(k2, set()).add((col, pos, val))
                continue
            else:
                pos = l2p.get(mi_key(label) if multi_index else label, ("?", label))
                if e.reason != "DUPLICATES":
                    col = e.column
            s.add((col, pos, val))
    return {k: v for k, v in rows.items() if v}, scalars


def classify_cells(spec, v, only_m, only_i):
    """Mechanism of a cell-level difference (keys are str((reason, column, check, where)))."""
    keys_m = [eval(k) for k in only_m]
    keys_i = [eval(k) for k in only_i]
    if spec["kind"] == "series" and spec.get("index") and not keys_i and keys_m \
            and all(k[-1] == "index" for k in keys_m) \
            and any(e.where == "column" for e in v.errors):
        return "series-schema-lazy-skips-index-validation-when-series-fails"
    ix = spec.get("index") or []
    if len(ix) > 1 and keys_i and all(k[0] == "SERIES_CONTAINS_DUPLICATES" and k[-1] == "index"
                                      for k in keys_m + keys_i) and not keys_m:
        lv = {f["name"]: f for f in ix}
        if all(lv.get(k[1], {}).get("report_duplicates", "all") != "all" for k in keys_i):
            return "multiindex-level-ignores-report_duplicates"
    return None


def classify(spec, kind, detail):
    if kind == "lazy-report-misses-frame-constraint":
        if spec["kind"] == "series" and spec.get("index") and detail.get("series_errors") \
                and set(detail.get("missing_where", [])) == {"index"}:
            return "series-schema-lazy-skips-index-validation-when-series-fails"
        if spec.get("strict") is True and spec.get("ordered") and \
                set(detail.get("missing", [])) <= {"COLUMN_NOT_IN_SCHEMA", "COLUMN_NOT_ORDERED"}:
            return "strict-and-ordered-loop-stops-at-first-offender"
    return None



def classify_exc(spec, table, backend, oe, ol):
    """Mechanism of 'one of the two runs leaked an internal exception while the
    other one raised its documented error / returned'."""
    exc = oe.exc if oe.kind == "exc" else ol.exc
    sig = H.exc_sig(exc)
    lev = (table.get("index") or {}).get("levels") or []
    if sig == "ValueError@backends/pandas/error_formatters.py:reshape_failure_cases" \
            and "cannot insert" in str(exc) and len(lev) == 1 and lev[0]["name"] is not None \
            and not isinstance(lev[0]["name"], str) and lev[0]["name"] == 0:
        # wide failure cases (joint uniqueness / dataframe-level check) are
        # unstacked into an unnamed Series; reset_index() collides with an index
        # level NAMED 0.  Eagerly an earlier error is raised first.
        return "reshape_failure_cases-index-named-0-collides-on-reset_index"
    if sig == "KeyError@backends/pandas/components.py:validate" and spec["kind"] == "frame" \
            and C.has_dup_labels(table):
        names = [c["name"] for c in table["columns"]]
        if any(fs.get("parser") and names.count(fs["name"]) > 1 for fs in spec["columns"]):
            # the output of a column parser is written back with
            # check_obj[label] = <one-column frame> although the label is repeated
            return "column-parser-output-assigned-back-by-repeated-label"
    return None


def one_sided_exception(run, spec, table, oe, ol, backend, tag="", depth=None):
    """raises(lazy) <=> raises(eager) is about the *documented* channel: when one
    run ends in SchemaError / SchemaErrors (or returns) and the other one leaks
    an internal exception, there is no collected report for the eager error (or
    no eager error for the report).  Both runs leaking is C06's business."""
    if oe.kind == "exc" and ol.kind == "exc":
        run.count(tag + "internal_exception_on_both_sides(C06)")
        return
    sig = H.exc_sig(oe.exc if oe.kind == "exc" else ol.exc)
    if sig.endswith(("parsers.py:apply_field", "parsers.py:apply_table")):
        # the exception was raised by the harness' own parser function (abs /
        # clip on a column whose coercion had failed and was collected lazily):
        # what pandera owes a *user* parser that raises is not documented
        run.count(tag + "undecided:user_parser_function_raised")
        return
    run.count(tag + "i:raise_equivalence_checked")
    run.count(tag + "i:one_sided_internal_exception")
    run.violation("lazy-eager-raise-mismatch",
                  C.brief(spec, table, {"backend": backend, "depth": depth,
                                        "eager": oe.kind, "lazy": ol.kind,
                                        "eager_exc": repr(oe.exc)[:300], "lazy_exc": repr(ol.exc)[:300],
                                        "sig": H.exc_sig(oe.exc if oe.kind == "exc" else ol.exc)}),
                  classify_exc(spec, table, backend, oe, ol))


def relations(run, spec, table, oe, ol, backend, tag="", depth=None, extra=None):
    """(i) raise equivalence, (ii) eager error among the lazy errors, (iv) error
    counts == collected errors per reason.  Returns True when both runs reject
    through the documented channel (there is a report to look at)."""
    if "exc" in (oe.kind, ol.kind):
        one_sided_exception(run, spec, table, oe, ol, backend, tag, depth)
        return False
    extra = dict(extra or {}, backend=backend)
    if depth:
        extra["depth"] = depth
    run.count(tag + "i:raise_equivalence_checked")
    if oe.accepted != ol.accepted:
        run.violation("lazy-eager-raise-mismatch",
                      C.brief(spec, table, dict(extra, eager=oe.kind, lazy=ol.kind,
                                                eager_reasons=oe.reasons(), lazy_reasons=ol.reasons())),
                      None)
        return False
    if oe.accepted:
        run.count(tag + "both_accept")
        return False
    run.count(tag + "both_reject")
    e0 = oe.errors[0]
    run.count(tag + "ii:eager_in_lazy_checked")

    def same(e):
        # lazy MultiIndex errors are re-wrapped with the MultiIndex as schema
        # context (column None); reason, check and check index identify them
        return (e.reason, e.check_index, e.check) == (e0.reason, e0.check_index, e0.check) \
            and (e.column == e0.column or e.context == "MultiIndex")
    if not any(same(e) for e in ol.errors):
        run.violation("eager-error-not-in-lazy-errors",
                      C.brief(spec, table, dict(extra, eager=(e0.reason, e0.column, e0.check_index),
                                                lazy=[(e.reason, e.column, e.check_index) for e in ol.errors])),
                      None)
    run.count(tag + "iv:error_counts_checked")
    cnt = Counter(e.reason for e in ol.errors)
    counts = {k: v_ for k, v_ in (ol.error_counts or {}).items() if v_}
    if dict(cnt) != counts or sum(counts.values()) != len(ol.errors):
        run.violation("error-counts-differ-from-collected-errors",
                      C.brief(spec, table, dict(extra, counts=ol.error_counts, collected=dict(cnt),
                                                eager_reason=e0.reason)), None)
    if depth:
        for r in cnt:
            run.count(f"{tag}collected_reason:{r}")
        other = [r for r in cnt if (r in DATA_REASONS) == (depth == "SCHEMA_ONLY")]
        if other:
            # an error of the category the depth leaves out was collected
            # anyway (the parsing stage is not depth-scoped)
            run.count(f"{tag}other_category_error_collected")
    return True

def osig(out):
    """Order-free, comparable signature of an outcome (kind + normalised errors)."""
    if out.kind == "exc":
        return ("exc", H.exc_sig(out.exc))
    if out.accepted:
        return ("ok",)
    errs = []
    for e in out.errors:
        cells = None if e.cells is None else tuple(sorted(repr(tuple(hv(x) for x in c)) for c in e.cells))
        scalar = None if e.cells is not None else _ADDR.sub("0x", repr(e.scalar))[:300]
        errs.append((e.reason, repr(e.column), repr(e.check_index), _ADDR.sub("0x", str(e.check)),
                     cells, scalar, e.context))
    counts = tuple(sorted((str(k), v_) for k, v_ in (out.error_counts or {}).items()))
    return (out.kind, tuple(sorted(errs, key=repr)), counts)


def four_runs(mk, data, **kw):
    """Two schema objects, two validations each.  A: eager then lazy, B: lazy
    then eager.  Returns (eager fresh, lazy fresh, eager reused, lazy reused):
    the first validation of an object is the 'fresh' one."""
    sa, sb = mk(), mk()
    oe = H.run_validate(sa, data, **kw)
    ol2 = H.run_validate(sa, data, lazy=True, **kw)
    ol = H.run_validate(sb, data, lazy=True, **kw)
    oe2 = H.run_validate(sb, data, **kw)
    return oe, ol, oe2, ol2


def same_object(run, spec, table, oe, ol, oe2, ol2, tag="", extra=None):
    """One schema OBJECT validated twice.  (b) the outcome of the second
    validation (lazy after eager on A / eager after lazy on B) equals the outcome
    of the same mode on a schema object that had not validated anything;
    (a) relations (i) (ii) (iv) between the two runs of the same object."""
    extra = dict(extra or {}, backend="pandas")
    for order, fresh, reused in (("lazy_after_eager", ol, ol2), ("eager_after_lazy", oe, oe2)):
        run.count(f"{tag}reuse:{order}:equals_fresh_checked")
        a, b = osig(fresh), osig(reused)
        if a != b:
            run.count(f"{tag}reuse:{order}:differs")
            run.violation("outcome-depends-on-earlier-validation-with-the-same-schema-object",
                          C.brief(spec, table, dict(extra, order=order, fresh=repr(a)[:1500],
                                                    reused=repr(b)[:1500])),
                          classify_reuse(spec, table, order, fresh, reused))
    relations(run, spec, table, oe, ol2, "pandas", tag=tag + "reuse:eager_then_lazy:", extra=extra)
    relations(run, spec, table, oe2, ol, "pandas", tag=tag + "reuse:lazy_then_eager:", extra=extra)


def classify_reuse(spec, table, order, fresh, reused):
    return None


def judge_pandas(run, spec, table, muts):
    v = M.evaluate(spec, table)
    try:
        data = B.pandas_table(spec, table)
        B.pandas_schema(spec)
    except Exception as e:
        run.count("build_error:" + type(e).__name__)
        return
    oe, ol, oe2, ol2 = four_runs(lambda: B.pandas_schema(spec), data)
    key = canon_hash(["pandas", spec, table])
    run.case(key, not oe.accepted and oe.kind != "exc",
             sample={"backend": "pandas", "spec": spec, "table": table,
                     "eager": oe.kind, "lazy": ol.kind,
                     "lazy_errors": [(e.reason, e.column, e.check_index) for e in ol.errors]})
    same_object(run, spec, table, oe, ol, oe2, ol2)
    # (i) (ii) (iv)
    if not relations(run, spec, table, oe, ol, "pandas"):
        return
    run.count(f"n_lazy_errors:{min(len(ol.errors), 6)}")
    compare_report(run, spec, table, list(data.index), v, ol)


def compare_report(run, spec, table, index_labels, v, ol, tag="", xtra=None):
    """(iii) the lazily reported failure cells == the violating cells of the
    model, for the rows of ``table`` whose labels are ``index_labels``."""
    xtra = xtra or {}
    # (iii) exact cells
    if v.accept is None or not v.exact or C.has_dup_labels(table) or v.accept:
        run.count(tag + "iii:skipped_not_exact")
        if v.accept:
            run.count(tag + "model_accept_but_rejected(C01)")
        return
    mi = bool(table.get("index")) and len(table["index"]["levels"]) > 1
    labels = [mi_key(t) if mi else H.norm(t) for t in index_labels]
    if len(set(labels)) != len(labels) or any(l is None for l in labels) or \
            (mi and any(x is None for l in table["index"]["levels"] for x in l["values"])):
        # a cell is identified by (column, row label): with repeated / null labels
        # only the multiset of reported values per error can be compared
        run.count(tag + "iii:values_only_compared(labels_not_unique_or_null)")
        mrows, _ = model_cells(v, spec, table)
        def canon(x):
            return repr(float(x)) if isinstance(x, (int, float)) and not isinstance(x, bool) else repr(x)
        want = {k: sorted(canon(c[2]) for c in cs) for k, cs in mrows.items()}
        got = {}
        for e in ol.errors:
            if e.cells is None:
                continue
            where = "index" if e.context in ("Index", "MultiIndex") else "column"
            if e.reason == "DUPLICATES":
                k = ("DUPLICATES", None, None)
            elif e.context == "MultiIndex":
                for _, val, col in e.cells:
                    got.setdefault((e.reason, col, e.check_index, "index"), []).append(canon(val))
                continue
            else:
                k = (e.reason, e.column, e.check_index, where)
            got.setdefault(k, []).extend(canon(c[1]) for c in e.cells)
        got = {k: sorted(x) for k, x in got.items() if x}
        # null failure cases are dropped from pandas' report when the label is null
        if any(l is None for l in labels):
            return
        if {k: x for k, x in want.items() if x} != got:
            run.violation("lazy-failure-case-values-differ-from-violating-cells",
                          C.brief(spec, table, dict(xtra, model={str(k): x for k, x in want.items()},
                                                    report={str(k): x for k, x in got.items()})), None)
        return
    mrows, mscal = model_cells(v, spec, table)
    irows, iscal = impl_cells(ol, table, mi, {l: i for i, l in enumerate(labels)})
    run.count(tag + "iii:cells_compared")
    for e in v.errors:
        run.count(f"{tag}iii:reason:{e.reason}")
    if mrows != irows:
        only_m = {str(k): sorted(map(repr, s - irows.get(k, set()))) for k, s in mrows.items() if s - irows.get(k, set())}
        only_i = {str(k): sorted(map(repr, s - mrows.get(k, set()))) for k, s in irows.items() if s - mrows.get(k, set())}
        run.violation("lazy-failure-cases-differ-from-violating-cells",
                      C.brief(spec, table, dict(xtra, missing_from_report=only_m,
                                                reported_but_conforming=only_i)),
                      classify_cells(spec, v, only_m, only_i))
    ms, is_ = set(mscal), set(iscal)
    if ms != is_:
        missing = sorted({r for r, _ in ms - is_})
        extra = sorted({r for r, _ in is_ - ms})
        detail = {"missing": missing, "extra": extra,
                  "missing_where": sorted({e.where for e in v.errors if e.cells is None
                                           and e.reason in missing}),
                  "series_errors": any(e.where == "column" for e in v.errors)}
        kind = "lazy-report-misses-frame-constraint" if missing and not extra \
            else "lazy-report-frame-level-entries-differ"
        run.violation(kind, C.brief(spec, table, dict(xtra, **detail)), classify(spec, kind, detail))


def judge_polars(run, spec, table, muts):
    import polars as pl
    if C.has_dup_labels(table):      # polars frames cannot repeat a label
        return
    v = M.evaluate(spec, table)
    try:
        data = B.polars_table(table)
        oe = H.run_validate(B.polars_schema(spec), data)
        ol = H.run_validate(B.polars_schema(spec), data, lazy=True)
    except Exception as e:
        run.count("build_error_polars:" + type(e).__name__)
        return
    key = canon_hash(["polars", spec, table])
    run.case(key, not oe.accepted and oe.kind != "exc",
             sample=None)
    if not relations(run, spec, table, oe, ol, "polars", tag="polars:"):
        return
    # (iii) by row position: {(column, pos)} of row-level failures
    if v.accept is None or not v.exact or v.accept:
        return
    fc = ol.failure_cases
    if not isinstance(fc, pl.DataFrame):
        return
    got = {(r["column"], r["index"]) for r in fc.rows(named=True) if r["index"] is not None
           and r["check"] != "multiple_fields_uniqueness"}
    exp = {(e.column, i) for e in v.errors if e.cells is not None
           and e.reason not in ("DUPLICATES", "WRONG_DATATYPE")   # dtype is a scalar entry in polars
           for i, _ in e.cells}
    run.count("polars:iii:row_positions_compared")
    if got != exp:
        run.violation("lazy-failure-cases-differ-from-violating-cells",
                      C.brief(spec, table, {"backend": "polars",
                                            "missing_from_report": sorted(map(repr, exp - got)),
                                            "reported_but_conforming": sorted(map(repr, got - exp))}), None)


def judge_depth(run, rng, depth, polars):
    """Relations (i) (ii) (iv) under a non-default validation depth.  The
    workload carries parsing options and, in most cases, a failure of the
    parsing stage (which is not depth-scoped), so that errors of the category
    the depth leaves out are still collected."""
    from pandera.config import ValidationDepth, config_context
    spec, table, opts, muts = P.gen_parse_case(rng, neutral=polars, allow_drop=False, mutate_p=0.6,
                                               kind="frame" if polars else None, labels_p=0.2)
    inj = P.inject_parser_failures(rng, spec, table, neutral=polars) if rng.random() < 0.7 else []
    if polars and C.has_dup_labels(table):
        return
    backend = "polars" if polars else "pandas"
    try:
        if polars:
            data = B.polars_table(table)
            s1, s2 = B.polars_schema(spec), B.polars_schema(spec)
        else:
            data = B.pandas_table(spec, table)
            s1, s2 = B.pandas_schema(spec), B.pandas_schema(spec)
    except Exception as e:
        run.count("build_error_depth:" + type(e).__name__)
        return
    with config_context(validation_depth=getattr(ValidationDepth, depth)):
        oe = H.run_validate(s1, data)
        ol = H.run_validate(s2, data, lazy=True)
    run.case(canon_hash([backend, depth, spec, table]), not oe.accepted and oe.kind != "exc",
             sample={"backend": backend, "depth": depth, "spec": spec, "table": table, "options": opts,
                     "injected": inj, "eager": oe.kind, "lazy": ol.kind,
                     "lazy_errors": [(e.reason, e.column, e.check_index) for e in ol.errors]}
             if not polars and inj else None)
    for t in inj:
        run.count(f"depth:injected:{t}")
    if "falsy_labels" in opts:
        run.count("labels:falsy_label_case")
    tag = f"depth:{depth}:" + ("polars:" if polars else "")
    relations(run, spec, table, oe, ol, backend, tag=tag, depth=depth)


# ---------------------------------------------------------------- subsampled validation
def sub_table(table, pos):
    t = copy.deepcopy(table)
    for c in t["columns"]:
        c["values"] = [c["values"][i] for i in pos]
    if t.get("index"):
        for l in t["index"]["levels"]:
            l["values"] = [l["values"][i] for i in pos]
    return t


def selected_positions(data, h, t, k, r):
    """Row positions validate(head=h, tail=t, sample=k, random_state=r) is
    documented to look at: the first h rows, the last t rows, the k rows
    ``data.sample(k, random_state=r)`` draws; rows selected more than once are
    de-duplicated.  Needs unique, hashable, non-null labels when k is given
    (the sampled rows are identified by their labels); None otherwise."""
    n = len(data)
    pos = []
    if h is not None:
        pos += list(range(n))[:h]
    if t is not None:
        pos += list(range(n))[max(0, n - t):] if t else []
    if k is not None:
        labels = list(data.index)
        try:
            l2p = {l: i for i, l in enumerate(labels)}
        except TypeError:
            return None
        if len(l2p) != n or any(l != l for l in labels):
            return None
        pos += [l2p[l] for l in data.sample(k, random_state=r).index]
    out = []
    for p in pos:
        if p not in out:
            out.append(p)
    return out


def gen_subsample_case(rng):
    """frame schema, most of the time with joint uniqueness; rows duplicated
    (over the jointly unique columns) outside and inside the selection."""
    spec = G.gen_spec(rng, kind="frame", allow_regex=rng.random() < 0.25)
    n = rng.choice([3, 4, 5, 6, 7, 8])
    plain = [c for c in spec["columns"] if not c["regex"]]
    uq = None
    if rng.random() < 0.85:
        uq = [c["name"] for c in rng.sample(plain, rng.randint(1, min(2, len(plain))))]
        for c in plain:
            if c["name"] in uq:
                c["nullable"] = False
                c["required"] = True
                if rng.random() < 0.7:
                    c["unique"] = False
        spec["report_duplicates"] = rng.choice(["all", "all", "exclude_first", "exclude_last"])
    spec["unique"] = uq
    table = G.gen_table(rng, spec, nrows=n)
    spec["unique"] = uq                    # gen_table drops it when rows repeat
    cols = {c["name"]: c for c in table["columns"]} if not C.has_dup_labels(table) else {}
    # selection
    mode = rng.choice(["head", "head", "tail", "tail", "head+tail", "sample", "sample",
                       "head+sample", "tail+sample", "head+tail+sample"])
    h = t = k = r = None
    if "head" in mode:
        h = rng.choice([0, 1, 2, 2, 3, n // 2, n, n + 2])
    if "tail" in mode:
        t = rng.choice([0, 1, 2, 2, 3, n // 2, n, n + 2])
    if "sample" in mode:
        k = min(n, rng.choice([0, 1, 2, 2, 3, n // 2, n]))
        r = rng.choice([0, 1, 7, 42])
    if k is not None and rng.random() < 0.75:
        # which duplicate is 'the first' among sampled rows is not judged:
        # keep most sampled cases in the order-free region
        spec["report_duplicates"] = "all"
        for fs in spec["columns"] + list(spec.get("index") or []):
            fs["report_duplicates"] = "all"
    planted = []
    if uq and n >= 2:
        ucols = [cols[x] for x in uq if x in cols]
        by = {x["name"]: x for x in plain}
        # rows made distinct first (when the pool allows): the only duplicates
        # are then the planted ones
        if ucols and rng.random() < 0.6:
            fs = by[ucols[0]["name"]]
            ok = G.satisfying(fs)
            if len(ok) >= n and ucols[0]["phys"] in (G.PHYS_OF[fs["dtype"]], "Int64"):
                ucols[0]["values"] = rng.sample(ok, n)
        # approximate selection (head / tail part; sampled rows are wherever they are)
        inside = set(list(range(n))[:h or 0]) | set(list(range(n))[max(0, n - t):] if t else [])
        outside = [i for i in range(n) if i not in inside]
        inside = sorted(inside)
        for _ in range(rng.choice([0, 1, 1, 1, 2])):
            how = rng.choice(["out-out", "out-out", "out-in", "in-out", "in-in", "any"])
            src = outside if how.startswith("out") else inside if how.startswith("in") else list(range(n))
            dst = outside if how.endswith("out") else inside if how.endswith("in") else list(range(n))
            if not src or not dst:
                continue
            i = rng.choice(src)
            js = [j for j in dst if j != i]
            if not js:
                continue
            j = rng.choice(js)
            for c in ucols:
                c["values"][j] = c["values"][i]
            planted.append((how, i, j))
    muts = G.mutate(rng, spec, table, k=rng.choice([0, 0, 1, 1, 2]))
    kw = {}
    if h is not None:
        kw["head"] = h
    if t is not None:
        kw["tail"] = t
    if k is not None:
        kw["sample"], kw["random_state"] = k, r
    return spec, table, kw, planted, muts


def classify_sub(spec, table, kw, pos, detail):
    return None


def judge_subsample(run, rng):
    spec, table, kw, planted, muts = gen_subsample_case(rng)
    if not table["columns"]:
        run.count("sub:skipped_no_columns")
        return
    C.count_labels(run, G.relabel(rng, spec, table, p=0.15))
    try:
        data = B.pandas_table(spec, table)
        B.pandas_schema(spec)
    except Exception as e:
        run.count("build_error_sub:" + type(e).__name__)
        return
    n = len(data)
    if kw.get("sample") is not None and kw["sample"] > n:
        # the mutations removed rows: sample= larger than the frame passed is the
        # caller's argument error (pandas raises ValueError), not a validation
        run.count("undecided:sub:sample_larger_than_frame(argument_error)")
        return
    mk = lambda: B.pandas_schema(spec)
    oe = H.run_validate(mk(), data, **kw)
    ol = H.run_validate(mk(), data, lazy=True, **kw)
    h, t, k, r = kw.get("head"), kw.get("tail"), kw.get("sample"), kw.get("random_state")
    try:
        pos = selected_positions(data, h, t, k, r)
    except Exception as e:
        run.count("sub:selection_error:" + type(e).__name__)
        pos = None
    strict_subset = pos is not None and len(pos) < n
    run.case(canon_hash(["pandas-sub", spec, table, kw]),
             not oe.accepted and oe.kind != "exc" and strict_subset,
             sample={"backend": "pandas", "spec": spec, "table": table, "options": kw,
                     "positions": pos, "planted_duplicates": planted,
                     "eager": oe.kind, "lazy": ol.kind,
                     "lazy_errors": [(e.reason, e.column, e.check_index) for e in ol.errors]})
    for name in kw:
        run.count(f"sub:option:{name}")
    if spec.get("unique"):
        run.count("sub:joint_unique_declared")
    xtra = {"options": kw, "positions": pos}
    both_reject = relations(run, spec, table, oe, ol, "pandas", tag="sub:", extra=xtra)
    if "exc" in (oe.kind, ol.kind):
        return
    # ---- model of the selected rows
    if pos is None:
        run.count("undecided:sub:sampled_rows_not_identifiable(labels_repeated_or_null)")
        return
    for c in table["columns"]:
        if c["phys"] == "object" and any(x is not None and not isinstance(x, str) for x in c["values"]):
            # `str` is checked element by element: whether elements outside the
            # selection count is not documented
            run.count("undecided:sub:mixed_object_column")
            return
    order_free = spec.get("report_duplicates", "all") == "all" and all(
        fs.get("report_duplicates", "all") == "all" or not fs.get("unique")
        for fs in list(spec["columns"]) + list(spec.get("index") or []))
    if k is not None and not order_free:
        # which of two duplicates is 'the first' among sampled rows depends on
        # the order the sampled rows are put in: not documented
        run.count("undecided:sub:report_duplicates_order_among_sampled_rows")
        return
    sub = sub_table(table, pos)
    v = M.evaluate(spec, sub)
    vfull = M.evaluate(spec, table)
    if v.accept is None:
        run.count("undecided:sub:model_undecided")
        return
    dup_out = False
    if spec.get("unique") and strict_subset and vfull.accept is not None:
        dup_out = any(e.reason == "DUPLICATES" for e in vfull.errors) and \
            not any(e.reason == "DUPLICATES" for e in v.errors)
        if dup_out:
            run.count("sub:duplicated_rows_only_outside_selection")
        if any(e.reason == "DUPLICATES" for e in v.errors):
            run.count("sub:duplicated_rows_inside_selection")
    run.count("sub:model:verdict_checked")
    if strict_subset and vfull.accept is not None and vfull.accept != v.accept:
        run.count("sub:model:verdict_of_selection_differs_from_whole_frame")
    if v.accept != ol.accepted:
        detail = dict(xtra, model_accepts_selected_rows=v.accept, lazy=ol.kind,
                      model_reasons=v.reasons(), lazy_reasons=ol.reasons(),
                      planted_duplicates=planted)
        run.violation("subsampled-verdict-differs-from-model-of-selected-rows",
                      C.brief(spec, table, detail), classify_sub(spec, table, kw, pos, detail))
        return
    if not both_reject:
        return
    if k is not None and spec.get("index"):
        # failure cases of an index component are positions among the validated
        # rows; the order of sampled rows is not documented
        run.count("undecided:sub:index_positions_among_sampled_rows")
        return
    labels = list(data.index)
    compare_report(run, spec, sub, [labels[p] for p in pos], v, ol, tag="sub:",
                   xtra=dict(xtra, whole_table=table, planted_duplicates=planted))


# ---------------------------------------------------------------- coercing index levels, schema object re-used
def retype_level(rng, fs, lev):
    """Store a level as another physical type from which coercion to the
    declared dtype is exact (text / float for int, int / text for float, text
    for datetime)."""
    d, vals = fs["dtype"], lev["values"]
    if any(v is None for v in vals) or lev["phys"] != G.PHYS_OF[d]:
        return None
    if d == "int64":
        if rng.random() < 0.65 or not all(abs(v) < 2 ** 50 for v in vals):
            lev["phys"], lev["values"] = "object", [str(v) for v in vals]
            return "int_as_text"
        lev["phys"], lev["values"] = "float64", [float(v) for v in vals]
        return "int_as_float"
    if d == "float64":
        if all(float(v).is_integer() and abs(v) < 2 ** 50 for v in vals) and rng.random() < 0.5:
            lev["phys"], lev["values"] = "int64", [int(v) for v in vals]
            return "float_as_int"
        lev["phys"], lev["values"] = "object", [repr(float(v)) for v in vals]
        return "float_as_text"
    if d == "datetime":
        lev["phys"], lev["values"] = "object", list(vals)
        return "datetime_as_text"
    return None


def gen_coerce_index_case(rng):
    kind = rng.choice(["frame", "frame", "frame", "series"])
    spec = G.gen_spec(rng, kind=kind, max_cols=2, allow_index=False, allow_regex=False,
                      allow_frame_opts=rng.random() < 0.3)
    nlev = rng.choice([1, 2, 2, 2, 3])
    levels = []
    for i in range(nlev):
        dtype = rng.choice(["int64", "int64", "int64", "float64", "str", "datetime"])
        fs = G.gen_field(rng, "i%d" % i if nlev > 1 else rng.choice(["i0", "i0", None]), dtype)
        if nlev > 1 and rng.random() < 0.3:
            fs["unique"] = True
        levels.append(fs)
    spec["index"] = levels
    table = G.gen_table(rng, spec, nrows=rng.choice([1, 2, 3, 4, 5]))
    # violations that stay violations after the coercion (planted before the
    # levels are retyped)
    muts = G.mutate(rng, spec, table, k=rng.choice([0, 1, 1, 2]))
    where = rng.choice(["level", "level", "level", "level", "multiindex" if nlev > 1 else "level",
                        "schema" if kind == "frame" else "level"])
    opts = ["coerce_on:" + where]
    if where == "level":
        some = False
        for fs in levels:
            if rng.random() < 0.7:
                fs["coerce"] = some = True
        if not some:
            levels[0]["coerce"] = True
    elif where == "schema":
        spec["coerce"] = True
    tl = (table.get("index") or {}).get("levels") or []
    if len(tl) == nlev:
        for fs, lev in zip(levels, tl):
            if rng.random() < 0.8:
                how = retype_level(rng, fs, lev)
                if how:
                    opts.append(how + (":coerced" if fs.get("coerce") or where != "level" else ":not_coerced"))
    return spec, table, where, opts, muts


def judge_coerce_reuse(run, rng):
    spec, table, where, opts, muts = gen_coerce_index_case(rng)
    if not table["columns"]:
        return

    def mk():
        s = B.pandas_schema(spec)
        if where == "multiindex":
            s.index.coerce = True
        return s
    try:
        data = B.pandas_table(spec, table)
        mk()
    except Exception as e:
        run.count("build_error_coerce:" + type(e).__name__)
        return
    oe, ol, oe2, ol2 = four_runs(mk, data)
    nlev = len(spec["index"])
    shape = ("MultiIndex" if nlev > 1 else "Index") + ":" + spec["kind"]
    run.case(canon_hash(["pandas-coerce-index", spec, table, where]),
             not oe.accepted and oe.kind != "exc",
             sample={"backend": "pandas", "spec": spec, "table": table, "options": opts,
                     "eager": oe.kind, "lazy": ol.kind,
                     "lazy_errors": [(e.reason, e.column, e.check_index) for e in ol.errors]})
    run.count("coerce_index:" + shape)
    for o in opts:
        run.count("coerce_index:" + o)
    if nlev > 1 and where == "level" and any(o.endswith(":coerced") for o in opts):
        run.count("coerce_index:multiindex_level_coercion_needed")
    run.count("coerce_index:first_run:" + ("accept" if oe.accepted else oe.kind))
    xtra = {"options": opts}
    same_object(run, spec, table, oe, ol, oe2, ol2, tag="coerce_index:", extra=xtra)
    relations(run, spec, table, oe, ol, "pandas", tag="coerce_index:", extra=xtra)


def run(run, ctx):
    n0 = N[ctx.tier]
    n1 = n0 + N_SUB[ctx.tier]
    for i in ctx.cases(n1 + N_COERCE[ctx.tier]):
        rng = ctx.rng(PID, i)
        if i >= n1:
            # coercing index levels, one schema object validated twice
            judge_coerce_reuse(run, rng)
        elif i >= n0:
            # head= / tail= / sample= with joint uniqueness
            judge_subsample(run, rng)
        elif i % 7 == 5:
            judge_depth(run, rng, "SCHEMA_ONLY" if (i // 7) % 2 == 0 else "DATA_ONLY",
                        polars=(i // 14) % 4 == 3)
        elif i % 4 == 3:
            spec = G.gen_spec(rng, neutral=True)
            table = G.gen_table(rng, spec)
            muts = G.mutate(rng, spec, table, k=rng.choice([1, 2, 3]))
            C.count_labels(run, G.relabel(rng, spec, table, p=0.15, polars=True))
            judge_polars(run, spec, table, muts)
        elif i % 20 == 2:
            # only a dataframe-level dtype, labels of any type
            spec, table, muts = G.gen_dtype_only_case(rng)
            if table["columns"] and table["columns"][0]["values"] and rng.random() < 0.5:
                muts += G.mutate(rng, spec, table, k=1)
            C.count_labels(run, G.relabel(rng, spec, table, p=0.7))
            run.count("dtype_only_schema")
            judge_pandas(run, spec, table, muts)
        else:
            spec = G.gen_spec(rng)
            if spec["kind"] == "frame" and i % 8 == 0:
                # several frame-level constraints violated at once
                spec["strict"], spec["ordered"] = True, True
            table = G.gen_table(rng, spec)
            muts = G.mutate(rng, spec, table, k=rng.choice([1, 2, 3, 3]))
            if spec["kind"] == "frame" and i % 8 == 0 and len(table["columns"]) >= 2 \
                    and not C.has_dup_labels(table):
                table["columns"].reverse()
                n = len(table["columns"][0]["values"])
                table["columns"].insert(rng.randint(0, len(table["columns"])),
                                        {"name": "extra", "phys": "float64", "values": [0.5] * n})
                muts.append(("reverse+extra_col",))
            if spec["kind"] == "frame" and not spec.get("index") and i % 5 == 1 and table["columns"]:
                # repeated row labels: offending and conforming rows share a label
                n = len(table["columns"][0]["values"])
                table["index"] = {"levels": [{"name": None, "phys": "object",
                                              "values": [rng.choice(["x", "y"]) for _ in range(n)]}]}
            C.count_labels(run, G.relabel(rng, spec, table, p=0.3))
            judge_pandas(run, spec, table, muts)
        C.report_context_leaks(run, {"case": i})
    C.finish_context_monitor(run)


def finalize(run, ctx):
    for name, m in [("i:raise_equivalence_checked", 400), ("ii:eager_in_lazy_checked", 200),
                    ("iv:error_counts_checked", 200), ("iii:cells_compared", 100),
                    ("polars:i:raise_equivalence_checked", 100),
                    ("polars:iii:row_positions_compared", 30),
                    # relations under a non-default validation depth
                    ("depth:SCHEMA_ONLY:i:raise_equivalence_checked", 45),
                    ("depth:DATA_ONLY:i:raise_equivalence_checked", 45),
                    ("depth:SCHEMA_ONLY:iv:error_counts_checked", 20),
                    ("depth:DATA_ONLY:iv:error_counts_checked", 20),
                    ("depth:SCHEMA_ONLY:other_category_error_collected", 15),
                    ("depth:SCHEMA_ONLY:collected_reason:DATATYPE_COERCION", 9),
                    ("depth:SCHEMA_ONLY:collected_reason:ADD_MISSING_COLUMN_NO_DEFAULT", 6),
                    ("depth:SCHEMA_ONLY:polars:i:raise_equivalence_checked", 10),
                    ("depth:DATA_ONLY:polars:i:raise_equivalence_checked", 10),
                    ("labels:falsy_label_case", 190), ("dtype_only_schema", 35),
                    ("config_monitor:validate_calls_bracketed", 1500),
                    # one schema object validated twice (general workload)
                    ("reuse:lazy_after_eager:equals_fresh_checked", 550),
                    ("reuse:eager_after_lazy:equals_fresh_checked", 550),
                    ("reuse:eager_then_lazy:i:raise_equivalence_checked", 550),
                    ("reuse:lazy_then_eager:i:raise_equivalence_checked", 550),
                    ("reuse:eager_then_lazy:ii:eager_in_lazy_checked", 380),
                    ("reuse:lazy_then_eager:ii:eager_in_lazy_checked", 380),
                    ("reuse:eager_then_lazy:iv:error_counts_checked", 380),
                    ("reuse:lazy_then_eager:iv:error_counts_checked", 380),
                    # coercing index levels, schema object validated twice
                    ("coerce_index:i:raise_equivalence_checked", 140),
                    ("coerce_index:ii:eager_in_lazy_checked", 85),
                    ("coerce_index:iv:error_counts_checked", 85),
                    ("coerce_index:reuse:lazy_after_eager:equals_fresh_checked", 140),
                    ("coerce_index:reuse:eager_after_lazy:equals_fresh_checked", 140),
                    ("coerce_index:reuse:eager_then_lazy:i:raise_equivalence_checked", 140),
                    ("coerce_index:reuse:lazy_then_eager:i:raise_equivalence_checked", 140),
                    ("coerce_index:reuse:eager_then_lazy:ii:eager_in_lazy_checked", 85),
                    ("coerce_index:reuse:lazy_then_eager:ii:eager_in_lazy_checked", 85),
                    ("coerce_index:reuse:eager_then_lazy:iv:error_counts_checked", 85),
                    ("coerce_index:reuse:lazy_then_eager:iv:error_counts_checked", 85),
                    ("coerce_index:multiindex_level_coercion_needed", 55),
                    ("coerce_index:first_run:accept", 50),
                    ("coerce_index:MultiIndex:frame", 80), ("coerce_index:MultiIndex:series", 25),
                    ("coerce_index:Index:frame", 20),
                    ("coerce_index:coerce_on:schema", 20), ("coerce_index:coerce_on:multiindex", 15),
                    ("coerce_index:int_as_text:coerced", 60),
                    # head= / tail= / sample= (joint uniqueness, duplicated rows)
                    ("sub:i:raise_equivalence_checked", 220), ("sub:ii:eager_in_lazy_checked", 155),
                    ("sub:iv:error_counts_checked", 155), ("sub:model:verdict_checked", 170),
                    ("sub:iii:cells_compared", 65), ("sub:iii:reason:DUPLICATES", 40),
                    ("sub:duplicated_rows_only_outside_selection", 45),
                    ("sub:duplicated_rows_inside_selection", 30),
                    ("sub:model:verdict_of_selection_differs_from_whole_frame", 35),
                    ("sub:option:head", 110), ("sub:option:tail", 110), ("sub:option:sample", 110)]:
        run.floors[name] = m
