"""C01 — validation verdict equals the declared schema semantics (pandas)."""
from __future__ import annotations

from .. import harness as H, model as M, snap as S
from ..evidence import Run, canon_hash
from ..gen import build as B, spec as G
from . import common as C

PID = "C01"
SHARDS = {"quick": 4, "thorough": 16}
N = {"quick": 4000, "thorough": 160000}


def new_run():
    return Run(PID, "exploration",
               "cases = (schema spec, table) from pvm.gen.spec (conforming by "
               "construction, then 0-3 targeted mutations incl. a renamed / unnamed index); "
               "30 % of the cases carry falsy-but-legal labels (0, 0.0, False, '') for columns, "
               "index / level names and the Series name; 5 % are schemas that declare only a "
               "dataframe-level dtype; str_matches / str_contains also take compiled patterns "
               "with flags; the config context is read before and after every validate; "
               "non-trivial = the "
               "reference model decides the case (not 'undecided') and the "
               "schema has at least one constraint; distinct = canonical hash of "
               "(spec, table)",
               ["reference model pvm/model.py encodes the documented semantics",
                "dtype vocabulary int64/float64/str/bool/datetime64[ns]",
                "frames <= 6 rows x <= 6 columns"])


def classify(spec, table, v, out):
    if out.kind == "exc":
        sig = H.exc_sig(out.exc)
        if C.joint_unique_all_absent(spec, table) and "check_column_values_are_unique" in sig:
            return "joint-unique-all-listed-columns-absent"
        return None
    return None


def one_case(run, spec, table, muts, tag="", relabelled=None):
    v = M.evaluate(spec, table)
    key = canon_hash([spec, table])
    try:
        schema = B.pandas_schema(spec)
        data = B.pandas_table(spec, table)
    except Exception as e:
        run.count("build_error:" + type(e).__name__)
        return
    before = S.snap(data)
    out = H.run_validate(schema, data)
    nontrivial = v.accept is not None
    run.case(key, nontrivial,
             sample={"spec": spec, "table": table, "mutations": muts,
                     "model_accept": v.accept, "impl": out.kind})
    run.count(f"kind:{spec['kind']}")
    for m in muts:
        run.count(f"mutation:{m[0]}")
    fields = (spec["columns"] if spec["kind"] == "frame" else [spec["field"]]) + list(spec.get("index") or [])
    if v.accept is not None and any("flags" in c["args"] for fs in fields for c in fs["checks"]):
        run.count("compiled_pattern_check:" + ("accept" if v.accept else "reject"))
    if relabelled and v.accept is not None:
        C.count_labels(run, relabelled)
        run.count("labels:verdict_judged:" + ("accept" if v.accept else "reject"))
    if v.accept is None:
        run.count("undecided_by_docs")
        return
    run.count("model_accept" if v.accept else "model_reject")
    for e in v.errors:
        run.count(f"reject_reason:{e.reason}")
    if out.kind == "exc":
        if v.accept:
            run.violation("accepting-data-raised-internal-exception",
                          C.brief(spec, table, {"exc": repr(out.exc)[:300],
                                                "sig": H.exc_sig(out.exc)}),
                          classify(spec, table, v, out))
        else:
            run.count("reject_via_internal_exception(C06)")
        return
    if out.accepted != v.accept:
        run.violation(
            "verdict-mismatch",
            C.brief(spec, table, {"model_accept": v.accept,
                                  "model_reasons": v.reasons(),
                                  "impl": out.kind, "impl_reasons": out.reasons(),
                                  "mutations": muts}),
            classify(spec, table, v, out))
        return
    run.count("verdict_agree")
    if out.accepted:
        d = S.diff(before, S.snap(out.result))
        run.count("returned_equals_input_checked")
        if d:
            run.violation("returned-object-differs-from-input",
                          C.brief(spec, table, {"diff": d}), None)
    else:
        # the eager error must be one the model predicts (when exact)
        if v.exact and out.errors:
            e = out.errors[0]
            if e.reason not in v.reasons() and e.reason != "CHECK_ERROR":
                run.violation("eager-reason-not-predicted",
                              C.brief(spec, table, {"impl_reason": e.reason,
                                                    "model_reasons": v.reasons()}),
                              None)
            else:
                run.count("eager_reason_predicted")


def component_cases(run, rng, spec, table):
    """Stand-alone Column.validate(df) / Index.validate(df): the verdict is that
    of the component's own constraints on the column / index it names."""
    if spec["kind"] != "frame" or C.has_dup_labels(table):
        return
    try:
        schema = B.pandas_schema(spec)
        data = B.pandas_table(spec, table)
    except Exception:
        return
    cols = {c["name"]: c for c in table["columns"]}
    cands = [fs for fs in spec["columns"] if not fs["regex"] and fs["name"] in cols]
    comps = []
    if cands:
        fs = rng.choice(cands)
        comps.append(("Column", fs, cols[fs["name"]], schema.columns[fs["name"]]))
    ix = spec.get("index")
    if ix and len(ix) == 1 and schema.index is not None:
        lev = (table.get("index") or {}).get("levels")
        if lev is None:
            n = len(table["columns"][0]["values"]) if table["columns"] else 0
            lev = [{"name": None, "phys": "int64", "values": list(range(n))}]
        if len(lev) == 1:
            comps.append(("Index", ix[0], lev[0], schema.index))
    for kind, fs, arr, comp in comps:
        v = M.Verdict(True)
        if kind == "Index" and fs.get("name") is not None and arr["name"] != fs["name"]:
            v.errors.append(M.Err("WRONG_FIELD_NAME", fs["name"]))
        M.field_errors(fs, arr["phys"], arr["values"], "column", fs.get("name"), v.errors, v)
        if v.undecided:
            run.count("component:undecided_by_docs")
            continue
        want = not v.errors
        before = S.snap(data)
        out = H.run_validate(comp, data)
        run.case(canon_hash([kind, fs, arr]), True, sample=None)
        run.count(f"component:{kind}:{'accept' if want else 'reject'}")
        if out.kind == "exc":
            if want:
                run.violation("accepting-data-raised-internal-exception",
                              C.brief(spec, table, {"component": kind, "field": fs.get("name"),
                                                    "exc": repr(out.exc)[:300]}), None)
            continue
        if out.accepted != want:
            run.violation("component-verdict-mismatch",
                          C.brief(spec, table, {"component": kind, "field": fs.get("name"),
                                                "model_accept": want,
                                                "model_reasons": sorted({e.reason for e in v.errors}),
                                                "impl": out.kind, "impl_reasons": out.reasons()}), None)
        elif out.accepted:
            d = S.diff(before, S.snap(out.result))
            if d:
                run.violation("returned-object-differs-from-input",
                              C.brief(spec, table, {"component": kind, "diff": d}), None)


def run(run, ctx):
    n = N[ctx.tier]
    for i in ctx.cases(n):
        rng = ctx.rng(PID, i)
        if i % 20 == 11:
            # only a dataframe-level dtype, no declared columns; labels of any type
            spec, table, muts = G.gen_dtype_only_case(rng)
            rel = G.relabel(rng, spec, table, p=0.7)
            run.count("dtype_only_schema")
            one_case(run, spec, table, muts, relabelled=rel)
            C.report_context_leaks(run, {"case": i})
            continue
        spec, table, muts = G.gen_case(rng)
        # falsy-but-legal labels (0, 0.0, False, "") for columns, index / level
        # names and the Series name
        rel = G.relabel(rng, spec, table, p=0.3)
        one_case(run, spec, table, muts, relabelled=rel)
        if i % 3 == 0:
            component_cases(run, rng, spec, table)
        C.report_context_leaks(run, {"case": i})
    C.finish_context_monitor(run)
    run.floor("model_accept", 50 // 1)
    run.floor("model_reject", 50)
    run.floor("verdict_agree", 100)


def finalize(run, ctx):
    for name, m in [("model_accept", 300), ("model_reject", 300),
                    ("reject_reason:WRONG_DATATYPE", 20),
                    ("reject_reason:SERIES_CONTAINS_NULLS", 20),
                    ("reject_reason:SERIES_CONTAINS_DUPLICATES", 10),
                    ("reject_reason:DATAFRAME_CHECK", 50),
                    ("reject_reason:COLUMN_NOT_IN_DATAFRAME", 10),
                    ("reject_reason:COLUMN_NOT_IN_SCHEMA", 5),
                    ("reject_reason:COLUMN_NOT_ORDERED", 5),
                    ("kind:series", 50), ("component:Column:accept", 100),
                    ("component:Column:reject", 30), ("component:Index:accept", 20),
                    # falsy labels, dtype-only schemas, compiled patterns, index names
                    ("labels:verdict_judged:accept", 150), ("labels:verdict_judged:reject", 100),
                    ("labels:columns:ints", 80), ("labels:columns:one", 150),
                    ("labels:index_name", 20), ("labels:series_name", 25),
                    ("dtype_only_schema", 50), ("compiled_pattern_check:accept", 20),
                    ("compiled_pattern_check:reject", 10), ("mutation:index_rename", 10),
                    ("config_monitor:validate_calls_bracketed", 1200)]:
        run.floors[name] = m
