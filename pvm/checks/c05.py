"""C05 — schemas are observationally immutable (histories of operations).

For a generated schema S and a generated history of non-transforming public
operations (plus transforming methods, whose *receiver* is watched), the
monitor evaluates after EVERY operation

  FP   fingerprint(S) == fingerprint(S) before the history
  EQ   S == snapshot (a deep copy taken before the history), when S equalled
       its own deep copy to begin with (otherwise undecided, counted)

and after every third operation and at the end

  VER  verdict(S, D) for every probe frame D == the verdict of a pristine twin
       built from the same spec (eager and lazy validation; error sets
       compared by (reason, column, check), accepted results by content).

Operations may raise; that is recorded and not judged here.  After a
violation the schema is rebuilt from its spec so that one defect does not
cascade into the rest of the history.
"""
from __future__ import annotations

import copy
import hashlib
import json
import re
import warnings

from .. import c05_gen as G, c05_ops as O, fingerprint as F, harness as H, snap as SN
from ..evidence import Run, canon_hash

PID = "C05"
SHARDS = {"quick": 8, "thorough": 16}
N = {"quick": 288, "thorough": 9600}
SHARD_TIMEOUT = {"quick": 900, "thorough": 2400}


def new_run():
    return Run(
        PID, "exploration",
        "case = (schema spec, history of 4-12 public operations, <=6 probe "
        "frames) from pvm.c05_gen / pvm.c05_ops; pandas DataFrameSchema / "
        "SeriesSchema / Column, DataFrameModel-backed (cached) schemas, polars "
        "DataFrameSchema / model; non-trivial = the pristine verdict vector has "
        "at least one accepted and one rejected probe and the history contains "
        ">=3 different operation kinds; distinct = canonical hash of (spec, history)",
        ["fingerprint (pvm/fingerprint.py) walks __dict__ of every pandera "
         "object reachable from the schema; state outside that graph (module "
         "globals) is only seen through the verdict vector",
         "verdict = outcome kind + set of (reason, column, check) / content of "
         "the returned object; exception messages are not compared",
         "histories <= 12 ops, frames of 3 rows, <= 6 columns",
         "model-backed schemas use plain annotations (numpy-2.5 sandbox limit); "
         "model index fields are not reachable"])


# --------------------------------------------------------------------------
# verdicts
# --------------------------------------------------------------------------
def _digest(x):
    return hashlib.sha1(repr(x).encode()).hexdigest()[:12]


def outcome_sig(out):
    if out.kind == "ok":
        return ["ok", _digest(SN.snap(out.result))]
    if out.kind == "exc":
        return ["exc", type(out.exc).__name__]
    errs = sorted({(e.reason, str(e.column), str(e.check)) for e in out.errors})
    return [out.kind, [list(e) for e in errs]]


def verdict(schema, frame, lazy):
    with warnings.catch_warnings():
        warnings.simplefilter("ignore")
        return outcome_sig(H.run_validate(schema, G.clone(frame), lazy=lazy))


def baseline_vector(spec, probes):
    """Verdicts of pristine twins (one fresh build per validation)."""
    vec = []
    for _, frame in probes:
        vec.append([verdict(G.build(spec).schema, frame, False),
                    verdict(G.build(spec).schema, frame, True)])
    return vec


# --------------------------------------------------------------------------
# facts about the live schema used by the mechanism classifier
# --------------------------------------------------------------------------
def _walk_checks(schema):
    comps = []
    if hasattr(schema, "columns") and isinstance(getattr(schema, "columns"), dict):
        comps += list(schema.columns.values())
        ix = getattr(schema, "index", None)
        if ix is not None:
            comps += list(getattr(ix, "indexes", [ix]))
    comps.append(schema)
    for c in comps:
        for chk in (getattr(c, "checks", None) or []):
            yield chk


def facts(schema, spec):
    f = {}
    f["options_in_statistics"] = sorted(
        str(getattr(c, "name", "?")) for c in _walk_checks(schema)
        if isinstance(getattr(c, "statistics", None), dict)
        and "options" in c.statistics)
    cols = getattr(schema, "columns", None)
    if isinstance(cols, dict):
        f["key_name"] = [[str(k), str(getattr(c, "name", None)),
                          bool(getattr(c, "regex", False))] for k, c in cols.items()]
        f["dtypes"] = [str(getattr(c, "dtype", None)) for c in cols.values()]
    else:
        f["name"] = str(getattr(schema, "name", None))
        f["regex"] = bool(getattr(schema, "regex", False))
    return f


_RE_COL = re.compile(r"columns\.__dict_items__\[(\d+)\]\[1\]\.(\w+)")


def classify(w):
    """Mechanism key from the witness (diff path, culprit op, spec, facts)."""
    d, op, spec = w.get("diff") or "", w["op"], w["spec"]
    validating = op["op"] in O.VALIDATING
    cols = spec["columns"]
    m = _RE_COL.search(d)
    after = w.get("facts_after", {})
    # update_checks / set_checks: copy.copy shares __dict__ with the receiver
    if op["op"] in ("transform", "derived_validate") and op.get("method") in (
            "update_checks", "set_checks") and d.startswith("$.checks"):
        return "shallow-copy-shares-dict-update_checks-mutates-receiver"
    # D10: parse_checks aliases Check.statistics and adds "options"
    # (to_yaml / to_json pop the key again on the unchanged tree, so only the
    # call sites that leave it behind are attributed to this mechanism:
    # get_*_schema_statistics, to_script for frame-level checks, and a
    # to_script that raised before its formatter popped the key)
    if ".statistics." in d and after.get("options_in_statistics") and (
            op["op"] == "statistics"
            or (op["op"] == "to_script" and (d.startswith("$.checks[")
                                             or w.get("op_raised")))):
        return "parse_checks-writes-options-into-check-statistics"
    if spec["backend"] != "pandas":
        return None
    # MultiIndex.coerce (derived property) is saved and written back into _coerce
    if validating and d.startswith("$.index._coerce: False != True") \
            and len(spec.get("index") or []) > 1 \
            and any(lv.get("coerce") for lv in spec["index"]):
        return "multiindex-coerce-property-written-back-into-_coerce"
    # D2: regex column keeps the name of the data column it was matched to
    if validating and m and m.group(2) == "name":
        i = int(m.group(1))
        if i < len(cols) and cols[i]["regex"]:
            kn = after.get("key_name", [])
            if i < len(kn) and kn[i][1] in ("r_0", "r_1"):
                return "regex-column-name-not-restored-after-failed-validate"
        kn_spec = spec.get("keyname")
        if kn_spec and i < len(cols) and cols[i]["name"] == kn_spec["key"]:
            kn = after.get("key_name", [])
            if i < len(kn) and kn[i][0] == kn[i][1]:
                return "collect_schema_components-renames-column-to-dict-key"
    if validating and d.startswith("$.name:") and spec["kind"] == "column" \
            and cols[0]["regex"] and after.get("name") in ("r_0", "r_1"):
        return "regex-column-name-not-restored-after-failed-validate"
    # D24: time_zone_agnostic check rewrites the frozen DateTime dtype
    if validating and "_dtype" in d and m:
        i = int(m.group(1))
        if i < len(cols) and cols[i]["dtype"] == "dtz":
            return "datetime-tz-agnostic-check-rewrites-frozen-dtype"
    return None


# --------------------------------------------------------------------------
class Watch:
    """The schema under observation with its reference observations."""

    def __init__(self, run, spec, probes, base):
        self.run, self.spec, self.probes, self.base = run, spec, probes, base
        self.hist = []
        self.seen_diffs = set()
        self.fresh()

    def fresh(self):
        self.built = G.build(self.spec)
        self.fp0 = F.fp(self.current())
        self.snapshot = None
        try:
            snapshot = copy.deepcopy(self.current())
            if snapshot == self.current():
                self.snapshot = snapshot
        except Exception:
            pass
        if self.snapshot is None:
            self.run.count("undecided:EQ-schema-not-equal-to-own-deepcopy")
        self.hist = []

    def current(self):
        if self.built.model is not None:
            return self.built.model.to_schema()
        return self.built.schema

    def observe(self, op, raised):
        """FP + EQ monitors after one operation.  True when still clean."""
        run = self.run
        cur = self.current()
        run.count("FP:evaluated")
        run.count(f"FP:after:{op['op']}")
        d = F.diff(self.fp0, F.fp(cur))
        eq_ok = None
        if self.snapshot is not None:
            run.count("EQ:evaluated")
            try:
                eq_ok = bool(cur == self.snapshot)
            except Exception as e:
                eq_ok = f"raised {type(e).__name__}"
        if d is None and eq_ok in (None, True):
            return True
        w = {"spec": self.spec, "history": list(self.hist), "op": op,
             "op_raised": raised, "diff": d, "eq_snapshot": eq_ok,
             "facts_after": facts(cur, self.spec)}
        # observable consequence: verdicts of the mutated schema (computed for
        # the first occurrence of each diff path in this case; it is evidence,
        # not a deciding monitor)
        flips = []
        first = d not in self.seen_diffs
        self.seen_diffs.add(d)
        for j, (tag, frame) in enumerate(self.probes if first else []):
            for li, lazy in enumerate((False, True)):
                try:
                    v = verdict(copy.deepcopy(cur), frame, lazy)
                except Exception as e:
                    v = ["copy-failed", type(e).__name__]
                if v != self.base[j][li]:
                    flips.append({"probe": tag, "lazy": lazy,
                                  "before": self.base[j][li], "after": v})
        w["verdict_flips"] = flips[:4]
        if first:
            run.count("FP:violation_with_verdict_flip" if flips
                      else "FP:violation_without_verdict_flip")
        kind = ("schema-changed-by-non-transforming-op" if op["op"] not in
                ("transform", "derived_validate")
                else "receiver-changed-by-transforming-method")
        run.violation(kind, w, classify(w))
        self.fresh()
        return False

    def step(self, op):
        raised = None
        try:
            with warnings.catch_warnings():
                warnings.simplefilter("ignore")
                label = O.apply(op, self.built, self.probes)
            self.run.count(f"op:{op['op']}:{label if label != 'done' else 'returned'}"
                           if op["op"] in ("model_to_schema", "yaml_roundtrip_eq",
                                           "eq_twin") else f"op:{op['op']}:returned")
        except Exception as e:
            raised = type(e).__name__
            self.run.count(f"op:{op['op']}:raised")
            self.run.count(f"op_raised:{raised}")
        self.hist.append(op)
        if op["op"] in ("transform", "derived_validate"):
            self.run.count(f"receiver_watched:{op['method']}")
        return self.observe(op, raised)

    def checkpoint(self, k=None):
        """VER monitor: verdicts of S itself (FP watched per probe).  The final
        checkpoint (k=None) evaluates the full vector, intermediate ones a
        rotating third of it."""
        for j, (tag, frame) in enumerate(self.probes):
            if k is not None and (j + k) % 3 != 0:
                continue
            for li, lazy in enumerate((False, True)):
                op = {"op": "probe", "probe": j, "lazy": lazy}
                v = verdict(self.current(), frame, lazy)
                self.hist.append(op)
                self.run.count("VER:evaluated")
                clean = self.observe(op, v[0] if v[0] != "ok" else None)
                if not clean:
                    continue          # already reported through FP, healed
                if v != self.base[j][li]:
                    w = {"spec": self.spec, "history": list(self.hist), "op": op,
                         "probe": tag, "before": self.base[j][li], "after": v,
                         "diff": None}
                    self.run.violation("verdict-changed-with-unchanged-fingerprint",
                                       w, None)
                    self.fresh()
                else:
                    self.run.count("VER:agree")


def _probe_rng(spec):
    import random
    return random.Random(canon_hash(spec))      # probes are a function of the spec


def one_case(run, rng, case_id, allow_hypothesis=True, cold=False):
    """cold=True: the caller guarantees a fresh interpreter in which nothing
    has been validated yet; the snapshot / fingerprint are then taken BEFORE
    the first validation of the process (lazily registered backends and
    built-in check implementations appear during the history)."""
    backend = "polars" if rng.random() < 0.2 else "pandas"
    spec = G.gen_spec(rng, backend=backend)
    if spec["kind"] == "column" and rng.random() < 0.35:
        spec["columns"][0]["regex"] = True
        spec["columns"][0]["name"] = "^r_.*$"
        spec["columns"][0]["unique"] = False
    try:
        G.build(spec)
    except Exception as e:
        run.count(f"build_error:{type(e).__name__}")
        return
    probes = G.probes(spec, _probe_rng(spec))
    if cold:
        # snapshot first, pristine verdicts afterwards
        w = Watch(run, spec, probes, None)
        run.count("cold:case")
        run.count("cold:snapshot_taken" if w.snapshot is not None
                  else "cold:no_snapshot")
        base = baseline_vector(spec, probes)
        w.base = base
    else:
        base = baseline_vector(spec, probes)
        w = Watch(run, spec, probes, base)
    n_ok = sum(1 for b in base if b[0][0] == "ok")
    n_rej = sum(1 for b in base if b[0][0] in ("SchemaError", "SchemaErrors"))
    n_ops = rng.randint(4, 12)
    ops = []
    for k in range(n_ops):
        op = O.gen_op(rng, w.built, len(probes), allow_hypothesis)
        ops.append(op)
        w.step(op)
        if k % 3 == 2:
            w.checkpoint(k // 3)
    w.checkpoint()
    kinds = {o["op"] for o in ops}
    run.case(canon_hash([spec, ops]), n_ok >= 1 and n_rej >= 1 and len(kinds) >= 3,
             sample={"spec": spec, "history": ops,
                     "probes": [t for t, _ in probes],
                     "pristine_verdicts": [b[0][0] for b in base]})
    run.count(f"schema:{backend}:{spec['kind']}")
    for feat, on in [("regex", any(c["regex"] for c in spec["columns"])),
                     ("frame_dtype", bool(spec.get("dtype"))),
                     ("df_checks", bool(spec.get("df_checks"))),
                     ("index", len(spec.get("index") or []) == 1),
                     ("multiindex", len(spec.get("index") or []) > 1),
                     ("tz_agnostic", any(c["dtype"] == "dtz" for c in spec["columns"])),
                     ("key!=name", bool(spec.get("keyname"))),
                     ("parsers", bool(spec.get("parsers")) or any(
                         c.get("parsers") for c in spec["columns"])),
                     ("custom_check", any(k["kind"] == "custom" for c in spec["columns"]
                                          for k in c["checks"]))]:
        if on:
            run.count(f"feature:{feat}")
    for c in spec["columns"]:
        for k in c["checks"]:
            run.count(f"check_kind:{k['kind']}")
    for t, _ in probes:
        run.count(f"probe:{t.split(':')[0]}")


N_COLD = {"quick": 16, "thorough": 192}


def _cold_cases(run, ctx):
    """Each cold case runs in its own fresh interpreter (pvm/c05_cold.py)."""
    import os
    import subprocess
    import tempfile
    from .. import env
    for i in ctx.cases(N_COLD[ctx.tier]):
        fd, part = tempfile.mkstemp(prefix="pvm_c05cold_", suffix=".json")
        os.close(fd)
        try:
            p = subprocess.run(
                [env.PY, "-m", "pvm.c05_cold", str(ctx.seed), str(i), part],
                cwd=env.VERIF, timeout=600, capture_output=True, text=True)
            if p.returncode != 0:
                run.note_inconclusive(
                    f"cold case {i}: child exit {p.returncode}: {p.stderr[-300:]}")
                continue
            with open(part) as f:
                run.merge(json.load(f))
        except subprocess.TimeoutExpired:
            run.note_inconclusive(f"cold case {i}: watchdog timeout")
        finally:
            try:
                os.unlink(part)
            except OSError:
                pass


def run(run, ctx):
    n = N[ctx.tier]
    _cold_cases(run, ctx)
    G.warm_up()
    for i in ctx.cases(n):
        rng = ctx.rng(PID, i)
        try:
            one_case(run, rng, i)
        except Exception as e:       # harness trouble is never a verdict
            run.count(f"harness_error:{type(e).__name__}")
            run.note_inconclusive(f"case {i}: harness error {type(e).__name__}: {e}"[:300])
        _reset_config()


def _reset_config():
    try:
        from pandera.config import reset_config_context
        reset_config_context()
    except Exception:
        pass


def finalize(run, ctx):
    # floors ~ 1/4 of what the unchanged tree gives (quick: 288 cases)
    k = 1 if ctx.tier == "quick" else 20
    for name, m in [("FP:evaluated", 2000), ("EQ:evaluated", 2000),
                    ("VER:evaluated", 1400), ("VER:agree", 1000),
                    ("FP:after:validate", 160), ("FP:after:transform", 60),
                    ("FP:after:derived_validate", 35),
                    ("FP:after:statistics", 30), ("FP:after:to_script", 15),
                    ("FP:after:to_yaml", 20), ("FP:after:to_json", 12),
                    ("FP:after:pickle", 15), ("FP:after:deepcopy", 12),
                    ("FP:after:coerce_dtype", 15), ("FP:after:model_validate", 6),
                    ("FP:after:model_misc", 5), ("FP:after:strategy", 5),
                    ("FP:after:example", 5),
                    ("feature:regex", 20), ("feature:df_checks", 10),
                    ("feature:tz_agnostic", 6), ("feature:key!=name", 4),
                    ("feature:multiindex", 4), ("feature:index", 8),
                    ("schema:pandas:model", 10), ("schema:pandas:frame", 35),
                    ("schema:pandas:series", 4), ("schema:pandas:column", 4),
                    ("schema:polars:frame", 10)]:
        run.floors[name] = m * k
    run.floors["cold:case"] = 12 if ctx.tier == "quick" else 150
    run.floors["cold:snapshot_taken"] = 8 if ctx.tier == "quick" else 100


def replay(path):
    """Re-run the recorded history of a witness against the current tree."""
    with open(path) as f:
        v = json.load(f)
    w = v["witness"]
    G.warm_up()
    spec, hist = w["spec"], w["history"]
    probes = G.probes(spec, _probe_rng(spec))
    built = G.build(spec)
    cur = (lambda: built.model.to_schema() if built.model is not None else built.schema)
    fp0 = F.fp(cur())
    for op in hist:
        try:
            if op["op"] == "probe":
                H.run_validate(cur(), G.clone(probes[op["probe"] % len(probes)][1]),
                               lazy=op["lazy"])
            else:
                if "probe" in op:
                    op = dict(op, probe=op["probe"] % len(probes))
                O.apply(op, built, probes)
        except Exception as e:
            print(f"  op {op} raised {type(e).__name__}")
        d = F.diff(fp0, F.fp(cur()))
        if d:
            print(f"VIOLATION property={PID} replay={path}\n  after {op}: {d}")
            return 1
    print(f"[{PID}] replay: schema unchanged after {len(hist)} ops")
    return 0
