"""C05 — schemas are observationally immutable (histories of operations).

For a generated schema S and a generated history of non-transforming public
operations (plus transforming methods, whose *receiver* is watched), the
monitor evaluates after EVERY operation

  FP   fingerprint(S) == fingerprint(S) before the history
  EQ   S == snapshot (a deep copy taken before the history), when S equalled
       its own deep copy to begin with (otherwise undecided, counted)

and after every third operation and at the end

  VER  verdict(S, D) for every probe frame D == the verdict of a pristine twin
       built from the same spec (eager and lazy validation; error sets
       compared by (reason, column, check), accepted results by content).

and, whenever the history lets a LIVE data object meet the schema again
(``reuse_validate``: the probe objects of the case are kept, never cloned;
the frames returned by validations and the ``.data`` of raised errors join
them; ``reuse_edit`` edits one in place)

  REUSE  verdict(S, live object D) == verdict(pristine twin, deep copy of D's
         content right before the call), through validate / __call__ /
         Model.validate / check_input / check_output, eager and lazy, with
         inplace=True/False and head / tail / sample.  (check_types documents in
         its source that it skips frames whose accessor carries an equal
         schema: generated, counted as undecided, not judged.)

``overlap`` steps run two calls on S (mostly validate; also coerce_dtype,
get_dtypes, to_yaml / to_json / to_script, statistics, str, deepcopy, ==) under
the deterministic scheduler of pvm/c07_sched.py: a solo scouting run finds the
source lines at which the shared schema is temporarily modified (identity view
of its attributes, pvm.c05_ops.SharedState); then A is parked at such a line
(or, when there is none, at a seeded line), B runs to the same line, A
completes, B completes.  The step is judged by FP / EQ / VER after both have
returned, never while they run.

Schemas with dtype-less columns (with and without a dataframe-level dtype)
hold at least one real draw (example) in their history: drawing is the only
operation that resolves such a dtype.

Time-like widenings (pvm.c05_gen.widen_time): datetime / timedelta columns
and index levels whose isin / notin checks hold LIST (or tuple) valued
statistics (their history always reads the statistics out: to_yaml / to_json /
statistics / to_script), and time zone aware ``pandas_engine.DateTime`` columns
/ index levels / series with and without their own ``tz_localize_kwargs`` that
are coerced from naive timestamps; their probes hold the wall-clock times of
the DST transitions of the zone and are the first frames measured with a
pristine twin.

  PROC  a fixed family of canary schemas (drawn from the same generator,
        default-option specs first) is built and measured once per process,
        before the first case.  Nothing but validations of their own probes is
        ever done with them; after every 12th case and at the end of the shard
        verdict(canary, D) must be what it was and its fingerprint unchanged:
        state kept outside every schema graph (class attributes, module
        globals) that an operation on ANOTHER schema left behind.

Operations may raise; that is recorded and not judged here.  After a
violation the schema is rebuilt from its spec so that one defect does not
cascade into the rest of the history.
"""
from __future__ import annotations

import copy
import hashlib
import json
import re
import warnings

from .. import c05_gen as G, c05_ops as O, fingerprint as F, harness as H, snap as SN
from ..evidence import Run, canon_hash

PID = "C05"
SHARDS = {"quick": 8, "thorough": 16}
N = {"quick": 288, "thorough": 9600}
import os as _os
# the per-shard watchdog can be widened on an oversubscribed machine
SHARD_TIMEOUT = {"quick": int(_os.environ.get("PVM_C05_SHARD_TIMEOUT", 900)),
                 "thorough": int(_os.environ.get("PVM_C05_SHARD_TIMEOUT", 2400))}


def new_run():
    return Run(
        PID, "exploration",
        "case = (schema spec, history of 4-12 public operations, <=6 probe "
        "frames) from pvm.c05_gen / pvm.c05_ops; pandas DataFrameSchema / "
        "SeriesSchema / Column (incl. dtype-less columns under a frame-level "
        "dtype), DataFrameModel-backed (cached) schemas, polars "
        "DataFrameSchema / model; datetime / timedelta columns and index levels "
        "with list- or tuple-valued isin / notin statistics (history always reads "
        "the statistics out), tz-aware DateTime columns / index / series with "
        "default and own tz_localize_kwargs coerced from naive data with probes "
        "at the DST transitions (measured first); 7 long-lived canary schemas per "
        "process re-measured after every 12th case (PROC: state outside the schema "
        "graph); histories include validations of LIVE data "
        "objects (same frame object meets the same schema object again: inplace, "
        "returned frames, error.data, after head/tail/sample, after in-place "
        "edits; judged against a pristine twin on a deep copy), steps with two "
        "overlapping calls on the schema under a deterministic scheduler "
        "(parked inside regions where the schema is temporarily modified), and "
        "real draws from strategies; non-trivial = the pristine verdict vector has "
        "at least one accepted and one rejected probe and the history contains "
        ">=3 different operation kinds; distinct = canonical hash of (spec, history)",
        ["fingerprint (pvm/fingerprint.py) walks __dict__ of every pandera "
         "object reachable from the schema; state outside that graph (module "
         "globals, class attributes) is only seen through the verdict vector of "
         "the case (DST probes measured first) and through the process canaries "
         "(PROC), i.e. only when it moves a verdict of a generated probe",
         "verdict = outcome kind + set of (reason, column, check) / content of "
         "the returned object; exception messages are not compared",
         "histories <= 12 ops, frames of 3 rows, <= 6 columns",
         "overlap steps: two threads, one double preemption per step (A parked, "
         "B parked at the same source line, A completes, B completes); the "
         "schema is judged only after both calls returned; sys.monitoring LINE "
         "granularity (pvm/c07_sched.py)",
         "state kept on data objects is only seen for the objects of the case "
         "(probe objects, validation results, error.data); check_types' "
         "documented skip of frames carrying an equal schema is not judged",
         "model-backed schemas use plain annotations (numpy-2.5 sandbox limit); "
         "model index fields are not reachable"])


# --------------------------------------------------------------------------
# verdicts
# --------------------------------------------------------------------------
def _digest(x):
    return hashlib.sha1(repr(x).encode()).hexdigest()[:12]


def outcome_sig(out):
    if out.kind == "ok":
        return ["ok", _digest(SN.snap(out.result))]
    if out.kind == "exc":
        return ["exc", type(out.exc).__name__]
    errs = sorted({(e.reason, str(e.column), str(e.check)) for e in out.errors})
    return [out.kind, [list(e) for e in errs]]


def verdict(schema, frame, lazy):
    with warnings.catch_warnings():
        warnings.simplefilter("ignore")
        return outcome_sig(H.run_validate(schema, G.clone(frame), lazy=lazy))


def baseline_vector(spec, probes):
    """Verdicts of pristine twins (one fresh build per validation).  Probes
    whose verdict depends on options that live outside the schema graph (the
    DST-transition probes of tz-aware columns: localize options) are measured
    first, before any other frame has run through a schema of this spec."""
    vec = [None] * len(probes)
    order = sorted(range(len(probes)),
                   key=lambda j: (not probes[j][0].startswith("dst_"), j))
    for j in order:
        frame = probes[j][1]
        vec[j] = [verdict(G.build(spec).schema, frame, False),
                  verdict(G.build(spec).schema, frame, True)]
    return vec


# --------------------------------------------------------------------------
# facts about the live schema used by the mechanism classifier
# --------------------------------------------------------------------------
def _walk_checks(schema):
    comps = []
    if hasattr(schema, "columns") and isinstance(getattr(schema, "columns"), dict):
        comps += list(schema.columns.values())
        ix = getattr(schema, "index", None)
        if ix is not None:
            comps += list(getattr(ix, "indexes", [ix]))
    comps.append(schema)
    for c in comps:
        for chk in (getattr(c, "checks", None) or []):
            yield chk


def facts(schema, spec):
    f = {}
    f["options_in_statistics"] = sorted(
        str(getattr(c, "name", "?")) for c in _walk_checks(schema)
        if isinstance(getattr(c, "statistics", None), dict)
        and "options" in c.statistics)
    cols = getattr(schema, "columns", None)
    if isinstance(cols, dict):
        f["key_name"] = [[str(k), str(getattr(c, "name", None)),
                          bool(getattr(c, "regex", False))] for k, c in cols.items()]
        f["dtypes"] = [str(getattr(c, "dtype", None)) for c in cols.values()]
    else:
        f["name"] = str(getattr(schema, "name", None))
        f["regex"] = bool(getattr(schema, "regex", False))
    return f


_RE_COL = re.compile(r"columns\.__dict_items__\[(\d+)\]\[1\]\.(\w+)")


def classify(w):
    """Mechanism key from the witness (diff path, culprit op, spec, facts)."""
    d, op, spec = w.get("diff") or "", w["op"], w["spec"]
    if op["op"] == "overlap":
        # two overlapping calls of one kind: attributed like a single call
        op = dict(op, op=op.get("what", "validate"))
    validating = op["op"] in O.VALIDATING
    cols = spec["columns"]
    m = _RE_COL.search(d)
    after = w.get("facts_after", {})
    # update_checks / set_checks: copy.copy shares __dict__ with the receiver
    if op["op"] in ("transform", "derived_validate") and op.get("method") in (
            "update_checks", "set_checks") and d.startswith("$.checks"):
        return "shallow-copy-shares-dict-update_checks-mutates-receiver"
    # D10: parse_checks aliases Check.statistics and adds "options"
    # (to_yaml / to_json pop the key again on the unchanged tree, so only the
    # call sites that leave it behind are attributed to this mechanism:
    # get_*_schema_statistics, to_script for frame-level checks, and a
    # to_script that raised before its formatter popped the key)
    if ".statistics." in d and after.get("options_in_statistics") and (
            op["op"] == "statistics"
            or (op["op"] == "to_script" and (d.startswith("$.checks[")
                                             or w.get("op_raised")))):
        return "parse_checks-writes-options-into-check-statistics"
    if spec["backend"] != "pandas":
        return None
    # MultiIndex.coerce (derived property) is saved and written back into _coerce
    if validating and d.startswith("$.index._coerce: False != True") \
            and len(spec.get("index") or []) > 1 \
            and any(lv.get("coerce") for lv in spec["index"]):
        return "multiindex-coerce-property-written-back-into-_coerce"
    # D2: regex column keeps the name of the data column it was matched to
    if validating and m and m.group(2) == "name":
        i = int(m.group(1))
        if i < len(cols) and cols[i]["regex"]:
            kn = after.get("key_name", [])
            if i < len(kn) and kn[i][1] in ("r_0", "r_1"):
                return "regex-column-name-not-restored-after-failed-validate"
        kn_spec = spec.get("keyname")
        if kn_spec and i < len(cols) and cols[i]["name"] == kn_spec["key"]:
            kn = after.get("key_name", [])
            if i < len(kn) and kn[i][0] == kn[i][1]:
                return "collect_schema_components-renames-column-to-dict-key"
    if validating and d.startswith("$.name:") and spec["kind"] == "column" \
            and cols[0]["regex"] and after.get("name") in ("r_0", "r_1"):
        return "regex-column-name-not-restored-after-failed-validate"
    # D24: time_zone_agnostic check rewrites the frozen DateTime dtype
    if validating and "_dtype" in d and m:
        i = int(m.group(1))
        if i < len(cols) and cols[i]["dtype"] == "dtz":
            return "datetime-tz-agnostic-check-rewrites-frozen-dtype"
    return None


def classify_reuse(w):
    """Mechanism of a REUSE violation.  No mechanism of the unchanged tree is
    known; everything is reported unclassified (and fails the run)."""
    return None


# --------------------------------------------------------------------------
class Watch:
    """The schema under observation with its reference observations."""

    def __init__(self, run, spec, probes, base):
        self.run, self.spec, self.probes, self.base = run, spec, probes, base
        self.hist = []
        self.seen_diffs = set()
        self.fresh()

    def fresh(self):
        self.built = G.build(self.spec)
        self.fp0 = F.fp(self.current())
        self.snapshot = None
        try:
            snapshot = copy.deepcopy(self.current())
            if snapshot == self.current():
                self.snapshot = snapshot
        except Exception:
            pass
        if self.snapshot is None:
            self.run.count("undecided:EQ-schema-not-equal-to-own-deepcopy")
        self.hist = []
        # live data objects of the case start afresh with the schema (they may
        # carry references to the schema object they met)
        O.reset_pool(self.built, self.probes)

    def current(self):
        if self.built.model is not None:
            return self.built.model.to_schema()
        return self.built.schema

    def observe(self, op, raised):
        """FP + EQ monitors after one operation.  True when still clean."""
        run = self.run
        cur = self.current()
        run.count("FP:evaluated")
        run.count(f"FP:after:{op['op']}")
        d = F.diff(self.fp0, F.fp(cur))
        eq_ok = None
        if self.snapshot is not None:
            run.count("EQ:evaluated")
            try:
                eq_ok = bool(cur == self.snapshot)
            except Exception as e:
                eq_ok = f"raised {type(e).__name__}"
        if d is None and eq_ok in (None, True):
            return True
        w = {"spec": self.spec, "history": list(self.hist), "op": op,
             "op_raised": raised, "diff": d, "eq_snapshot": eq_ok,
             "facts_after": facts(cur, self.spec)}
        if op["op"] == "overlap":
            w["overlap"] = getattr(self.built, "last_overlap", None)
        # observable consequence: verdicts of the mutated schema (computed for
        # the first occurrence of each diff path in this case; it is evidence,
        # not a deciding monitor)
        flips = []
        first = d not in self.seen_diffs
        self.seen_diffs.add(d)
        for j, (tag, frame) in enumerate(self.probes if first else []):
            for li, lazy in enumerate((False, True)):
                try:
                    v = verdict(copy.deepcopy(cur), frame, lazy)
                except Exception as e:
                    v = ["copy-failed", type(e).__name__]
                if v != self.base[j][li]:
                    flips.append({"probe": tag, "lazy": lazy,
                                  "before": self.base[j][li], "after": v})
        w["verdict_flips"] = flips[:4]
        if first:
            run.count("FP:violation_with_verdict_flip" if flips
                      else "FP:violation_without_verdict_flip")
        kind = ("schema-changed-by-non-transforming-op" if op["op"] not in
                ("transform", "derived_validate")
                else "receiver-changed-by-transforming-method")
        run.violation(kind, w, classify(w))
        self.fresh()
        return False

    def step(self, op):
        if op["op"] == "reuse_validate":
            return self.step_reuse(op)
        if op["op"] == "overlap":
            return self.step_overlap(op)
        raised = None
        try:
            with warnings.catch_warnings():
                warnings.simplefilter("ignore")
                label = O.apply(op, self.built, self.probes)
            if op["op"] == "reuse_edit":
                self.run.count(f"REUSE:edit:{label}")
            self.run.count(f"op:{op['op']}:{label if label != 'done' else 'returned'}"
                           if op["op"] in ("model_to_schema", "yaml_roundtrip_eq",
                                           "eq_twin") else f"op:{op['op']}:returned")
        except Exception as e:
            raised = type(e).__name__
            self.run.count(f"op:{op['op']}:raised")
            self.run.count(f"op_raised:{raised}")
        self.hist.append(op)
        if op["op"] in ("transform", "derived_validate"):
            self.run.count(f"receiver_watched:{op['method']}")
        if op["op"] in ("example", "strategy") and any(
                c.get("no_dtype") for c in self.spec["columns"]):
            # drawing is the only operation that resolves the dtype of a
            # dtype-less column (the unchanged tree refuses: the op raises)
            self.run.count(f"HYP:{op['op']}:schema_with_dtype_less_column")
            if self.spec.get("dtype"):
                self.run.count(f"HYP:{op['op']}:frame_dtype+dtype_less_column")
        return self.observe(op, raised)

    def step_reuse(self, op):
        """REUSE monitor: the verdict of S on a LIVE object (one that S, or the
        history, has met before) == the verdict of a pristine twin on a fresh
        deep copy of that object's content."""
        run = self.run
        with warnings.catch_warnings():
            warnings.simplefilter("ignore")
            info = O.apply_reuse(op, self.built, self.probes, twin=G.build(self.spec))
        self.hist.append(op)
        sig, twin = info["sig"], info["twin_sig"]
        run.count(f"op:reuse_validate:{'returned' if sig[0] == 'ok' else 'raised'}")
        clean = self.observe(op, sig[0] if sig[0] != "ok" else None)
        if not clean:
            return False              # reported through FP / EQ, healed
        if op["via"] == "check_types":
            # check_types documents (in its source) that it does not validate a
            # frame again whose `pandera` accessor carries an equal schema
            run.count("undecided:REUSE-check_types-skips-frames-carrying-an-equal-schema")
            if sig != twin:
                run.count("undecided:REUSE-check_types-verdict-differs-from-twin")
            return True
        run.count("REUSE:evaluated")
        run.count(f"REUSE:via:{op['via']}")
        run.count(f"REUSE:object:{info['origin']}")
        if info["met"]:
            run.count("REUSE:object_met_this_schema_before")
        marks = info["marks"]
        for cls, on in [("after_failed_inplace", any(m.startswith("failed:inplace") for m in marks)),
                        ("after_ok_inplace", any(m.startswith("ok:inplace") for m in marks)),
                        ("after_subsample", any("subsample" in m for m in marks)),
                        ("after_edit", bool(marks) and marks[-1].startswith("edited")
                         and info["met"] > 0),
                        ("inplace", bool(op.get("inplace"))),
                        ("lazy", bool(op.get("lazy"))),
                        ("subsample", any(k in op for k in ("head", "tail", "sample")))]:
            if on:
                run.count(f"REUSE:{cls}")
        run.count(f"REUSE:twin_verdict:{twin[0]}")
        if sig == twin:
            run.count("REUSE:agree")
            return True
        w = {"spec": self.spec, "history": list(self.hist), "op": op, "diff": None,
             "object": {k: info[k] for k in ("slot", "tag", "origin", "met", "marks",
                                             "via", "kwargs")},
             "verdict_of_schema_under_observation": sig,
             "verdict_of_pristine_twin_on_deep_copy": twin}
        run.violation("verdict-on-reused-data-object-differs-from-pristine-twin",
                      w, classify_reuse(w))
        self.fresh()
        return False

    def step_overlap(self, op):
        """Two overlapping validations with S; judged by FP / EQ (and the VER
        checkpoints that follow) once both have returned."""
        run = self.run
        try:
            with warnings.catch_warnings():
                warnings.simplefilter("ignore")
                info = O.apply_overlap(op, self.built, self.probes)
        except Exception as e:
            run.count(f"overlap:harness:{type(e).__name__}")
            run.count("undecided:overlap-not-run")
            self.fresh()
            return True
        self.hist.append(op)
        run.count(f"op:overlap:{info['label']}")
        if not info["finished"]:
            # a worker may still be inside pandera: nothing is judged
            run.count("undecided:overlap-schedule-not-finished")
            self.fresh()
            return True
        run.count(f"overlap:targeted:{info['targeted']}")
        run.count(f"overlap:what:{info['what']}")
        if info["label"] == "both-inside":
            run.count("overlap:both_calls_inside_the_same_region")
        for o in info["outcomes"]:
            run.count(f"overlap:outcome:{o}")
        return self.observe(op, None)

    def checkpoint(self, k=None):
        """VER monitor: verdicts of S itself (FP watched per probe).  The final
        checkpoint (k=None) evaluates the full vector, intermediate ones a
        rotating third of it."""
        for j, (tag, frame) in enumerate(self.probes):
            if k is not None and (j + k) % 3 != 0:
                continue
            for li, lazy in enumerate((False, True)):
                op = {"op": "probe", "probe": j, "lazy": lazy}
                v = verdict(self.current(), frame, lazy)
                self.hist.append(op)
                self.run.count("VER:evaluated")
                clean = self.observe(op, v[0] if v[0] != "ok" else None)
                if not clean:
                    continue          # already reported through FP, healed
                if v != self.base[j][li]:
                    w = {"spec": self.spec, "history": list(self.hist), "op": op,
                         "probe": tag, "before": self.base[j][li], "after": v,
                         "diff": None}
                    self.run.violation("verdict-changed-with-unchanged-fingerprint",
                                       w, None)
                    self.fresh()
                else:
                    self.run.count("VER:agree")


def _probe_rng(spec):
    import random
    return random.Random(canon_hash(spec))      # probes are a function of the spec


def one_case(run, rng, case_id, allow_hypothesis=True, cold=False):
    """cold=True: the caller guarantees a fresh interpreter in which nothing
    has been validated yet; the snapshot / fingerprint are then taken BEFORE
    the first validation of the process (lazily registered backends and
    built-in check implementations appear during the history)."""
    backend = "polars" if rng.random() < 0.2 else "pandas"
    spec = G.gen_spec(rng, backend=backend)
    if spec["kind"] == "column" and rng.random() < 0.35:
        spec["columns"][0]["regex"] = True
        spec["columns"][0]["name"] = "^r_.*$"
        spec["columns"][0]["unique"] = False
    G.widen_dtype_less(rng, spec)
    G.widen_time(rng, spec)
    try:
        G.build(spec)
    except Exception as e:
        run.count(f"build_error:{type(e).__name__}")
        return
    probes = G.probes(spec, _probe_rng(spec))
    if cold:
        # snapshot first, pristine verdicts afterwards
        w = Watch(run, spec, probes, None)
        run.count("cold:case")
        run.count("cold:snapshot_taken" if w.snapshot is not None
                  else "cold:no_snapshot")
        base = baseline_vector(spec, probes)
        w.base = base
    else:
        base = baseline_vector(spec, probes)
        w = Watch(run, spec, probes, base)
    n_ok = sum(1 for b in base if b[0][0] == "ok")
    n_rej = sum(1 for b in base if b[0][0] in ("SchemaError", "SchemaErrors"))
    n_ops = rng.randint(4, 12)
    ops = []
    # most warm cases hold one step in which two calls on the schema overlap
    k_overlap = rng.randrange(n_ops) if (not cold and rng.random() < 0.7) else -1
    # schemas with dtype-less columns: data is drawn at least once (drawing is
    # the only operation that resolves their dtype)
    k_draw = -1
    if allow_hypothesis and any(c.get("no_dtype") for c in spec["columns"]):
        k_draw = rng.randrange(n_ops)
    # list-valued statistics of datetime-like / timedelta-like checks: the
    # history holds at least one operation that reads the statistics out
    k_ser = -1
    if spec.get("time_list") or any(c["dtype"] == "dtl" and c["checks"]
                                    for c in spec["columns"]):
        k_ser = rng.choice([k for k in range(n_ops) if k not in (k_draw, k_overlap)]
                           or [0])
        ser_op = rng.choice(["to_yaml", "to_json", "yaml_roundtrip_eq", "to_yaml",
                             "to_json", "statistics", "to_script"]
                            if spec["kind"] == "frame" else ["statistics"])
    for k in range(n_ops):
        op = O.gen_op(rng, w.built, len(probes), allow_hypothesis,
                      allow_threads=not cold)
        if k == k_ser and op["op"] not in ("to_yaml", "to_json", "yaml_roundtrip_eq"):
            op = {"op": ser_op}
        if ops and ops[-1]["op"] == "reuse_edit" and k not in (k_draw, k_overlap, k_ser):
            # an object edited in place meets the schema again right away
            op = {"op": "reuse_validate"}
            op.update(O.gen_reuse(rng, spec["kind"], spec))
            op["prefer"] = "last"
            if op["via"] == "check_types":
                op["via"] = "validate"
        if k == k_draw and op["op"] != "example":
            op = {"op": "example", "size": rng.choice([1, 2])}
        elif k == k_overlap and op["op"] != "overlap":
            op = {"op": "overlap"}
            op.update(O.gen_overlap(rng, len(probes), spec["kind"], spec))
        ops.append(op)
        w.step(op)
        if k % 3 == 2:
            w.checkpoint(k // 3)
    w.checkpoint()
    kinds = {o["op"] for o in ops}
    sample = {"spec": spec, "history": ops, "probes": [t for t, _ in probes],
              "pristine_verdicts": [b[0][0] for b in base]}
    run.case(canon_hash([spec, ops]), n_ok >= 1 and n_rej >= 1 and len(kinds) >= 3,
             sample=sample)
    run.count(f"schema:{backend}:{spec['kind']}")
    for feat, on in [("regex", any(c["regex"] for c in spec["columns"])),
                     ("frame_dtype", bool(spec.get("dtype"))),
                     ("df_checks", bool(spec.get("df_checks"))),
                     ("index", len(spec.get("index") or []) == 1),
                     ("multiindex", len(spec.get("index") or []) > 1),
                     ("tz_agnostic", any(c["dtype"] == "dtz" for c in spec["columns"])),
                     ("key!=name", bool(spec.get("keyname"))),
                     ("dtype_less_column", any(c.get("no_dtype") for c in spec["columns"])),
                     ("frame_dtype+dtype_less_column", bool(spec.get("dtype")) and any(
                         c.get("no_dtype") for c in spec["columns"])),
                     ("frame_coerce", bool(spec.get("coerce"))),
                     ("time_list_statistic", bool(spec.get("time_list"))),
                     ("time_list_statistic:timedelta", bool(spec.get("time_list")) and any(
                         c["dtype"] == "td" for c in spec["columns"] + (spec.get("index") or []))),
                     ("time_list_statistic:on_index", bool(spec.get("time_list")) and any(
                         lv["dtype"] in ("dt", "td") for lv in (spec.get("index") or []))),
                     ("time_list_statistic:tuple", bool(spec.get("time_list")) and any(
                         k.get("container") == "tuple"
                         for c in spec["columns"] + (spec.get("index") or [])
                         for k in c["checks"])),
                     ("tz_localize", bool(spec.get("tzl"))),
                     ("tz_localize:tz_aware_list_statistic", any(
                         c["dtype"] == "dtl" and c["checks"] for c in spec["columns"])),
                     ("tz_localize:own_options", any(
                         c.get("tz_opts") for c in spec["columns"] + (spec.get("index") or []))),
                     ("tz_localize:default+own_options", len({
                         bool(c.get("tz_opts")) for c in spec["columns"] + (spec.get("index") or [])
                         if c["dtype"] == "dtl"}) == 2),
                     ("tz_localize:on_index", any(
                         lv["dtype"] == "dtl" for lv in (spec.get("index") or []))),
                     ("parsers", bool(spec.get("parsers")) or any(
                         c.get("parsers") for c in spec["columns"])),
                     ("custom_check", any(k["kind"] == "custom" for c in spec["columns"]
                                          for k in c["checks"]))]:
        if on:
            run.count(f"feature:{feat}")
    for c in spec["columns"]:
        for k in c["checks"]:
            run.count(f"check_kind:{k['kind']}")
    for t, _ in probes:
        run.count(f"probe:{t.split(':')[0]}")
    if spec.get("time_list"):
        for o in ops:
            if o["op"] in ("to_yaml", "to_json", "yaml_roundtrip_eq", "statistics",
                           "to_script", "strategy", "example", "pickle", "deepcopy"):
                run.count(f"time_list_statistic:history_holds:{o['op']}")
        if kinds & {"to_yaml", "to_json", "yaml_roundtrip_eq"}:
            run.count("time_list_statistic:serialised_to_yaml_or_json")
    if spec.get("tzl"):
        for (t, _), b in zip(probes, base):
            if t.startswith("dst_"):
                run.count(f"tz_localize:probe:{t}:{'accepted' if b[1][0] == 'ok' else 'rejected'}")
    return sample


# --------------------------------------------------------------------------
# PROC monitor: state that lives outside every schema object graph
# --------------------------------------------------------------------------
CANARY_EVERY = 12
_CANARY_PLAN = [("frame", "tzl-default"), ("series", "tzl-default"), ("frame", "tzl"),
                ("frame", "tzl"), ("frame", "list"), ("frame", None), ("model", None)]


def canary_specs():
    """Fixed family of specs from the case generator (one per class of state
    that is kept outside the schema graph plus two ordinary ones).  The specs
    whose tz-aware columns rely on the documented default localize options come
    first: they are measured before anything with own options has run."""
    import random
    out = []
    for k, (kind, force) in enumerate(_CANARY_PLAN):
        for attempt in range(40):
            rng = random.Random(f"C05|canary|{k}|{attempt}")
            spec = G.gen_spec(rng, backend="pandas", kind=kind)
            if force:
                G.widen_time(rng, spec, force=force)
                if not (spec.get("tzl") or spec.get("time_list")):
                    continue
                if force == "tzl" and not any(
                        c.get("tz_opts") for c in spec["columns"]):
                    continue
            try:
                G.build(spec)
            except Exception:
                continue
            out.append(spec)
            break
    return out


class Canaries:
    """Long-lived schema objects of the process.  Nothing but validations of
    their own probe frames is ever done with them; in between, the cases of the
    shard operate on OTHER schema objects.  PROC: the verdict of a canary on
    each of its probes is the same at every point of the process history (and
    its fingerprint stays what it was)."""

    def __init__(self, run):
        self.run = run
        self.items = []
        self.since = []          # (case id, spec, history) since the last agreement
        for spec in canary_specs():
            try:
                self.items.append(self._measure(spec))
            except Exception as e:
                run.count(f"PROC:canary_not_built:{type(e).__name__}")
        run.count("PROC:canaries_measured_at_process_start", 0)
        for _ in self.items:
            run.count("PROC:canaries_measured_at_process_start")

    def _measure(self, spec):
        probes = G.probes(spec, _probe_rng(spec))
        built = G.build(spec)
        fp0 = F.fp(built.schema)
        order = sorted(range(len(probes)),
                       key=lambda j: (not probes[j][0].startswith("dst_"), j))
        base = {}
        for j in order:
            for lazy in (False, True):
                base[(j, lazy)] = verdict(built.schema, probes[j][1], lazy)
        return {"spec": spec, "probes": probes, "built": built, "fp0": fp0,
                "base": base, "order": order}

    def note_case(self, case_id, sample):
        self.since.append({"case": case_id, "spec": sample.get("spec"),
                           "history": sample.get("history")})
        del self.since[:-2 * CANARY_EVERY]

    def check(self, point):
        run = self.run
        clean = True
        for n, it in enumerate(self.items):
            S, spec = it["built"].schema, it["spec"]
            hist = []
            bad = False
            for j in it["order"]:
                tag, frame = it["probes"][j]
                for lazy in (False, True):
                    v = verdict(S, frame, lazy)
                    hist.append({"op": "probe", "probe": j, "lazy": lazy})
                    run.count("PROC:evaluated")
                    if tag.startswith("dst_"):
                        run.count("PROC:evaluated:dst_probe")
                    d = F.diff(it["fp0"], F.fp(S))
                    if d is not None:
                        w = {"spec": spec, "history": hist, "op": hist[-1],
                             "op_raised": v[0] if v[0] != "ok" else None, "diff": d,
                             "eq_snapshot": None, "facts_after": facts(S, spec),
                             "canary": n, "point": point}
                        run.violation("schema-changed-by-non-transforming-op", w,
                                      classify(w))
                        bad = True
                        break
                    if v != it["base"][(j, lazy)]:
                        w = {"spec": spec, "canary": n, "point": point, "probe": tag,
                             "lazy": lazy, "before": it["base"][(j, lazy)], "after": v,
                             "diff": None, "history": [],
                             "cases_since_last_agreement": list(self.since)}
                        run.violation(
                            "verdict-of-untouched-schema-changed-during-process-history",
                            w, None)
                        bad = True
                        break
                    run.count("PROC:agree")
                if bad:
                    break
            if bad:
                clean = False
                try:                      # heal: measure again from here
                    self.items[n] = self._measure(spec)
                except Exception:
                    pass
        if clean:
            self.since = []
        return clean


N_COLD = {"quick": 16, "thorough": 192}


def _cold_cases(run, ctx):
    """Each cold case runs in its own fresh interpreter (pvm/c05_cold.py)."""
    import os
    import subprocess
    import tempfile
    from .. import env
    for i in ctx.cases(N_COLD[ctx.tier]):
        fd, part = tempfile.mkstemp(prefix="pvm_c05cold_", suffix=".json")
        os.close(fd)
        try:
            p = subprocess.run(
                [env.PY, "-m", "pvm.c05_cold", str(ctx.seed), str(i), part],
                cwd=env.VERIF, timeout=600, capture_output=True, text=True)
            if p.returncode != 0:
                run.note_inconclusive(
                    f"cold case {i}: child exit {p.returncode}: {p.stderr[-300:]}")
                continue
            with open(part) as f:
                run.merge(json.load(f))
        except subprocess.TimeoutExpired:
            run.note_inconclusive(f"cold case {i}: watchdog timeout")
        finally:
            try:
                os.unlink(part)
            except OSError:
                pass


def run(run, ctx):
    n = N[ctx.tier]
    _cold_cases(run, ctx)
    G.warm_up()
    canaries = None
    try:
        canaries = Canaries(run)
    except Exception as e:           # harness trouble is never a verdict
        run.count(f"harness_error:canaries:{type(e).__name__}")
    done = 0
    for i in ctx.cases(n):
        rng = ctx.rng(PID, i)
        try:
            sample = one_case(run, rng, i)
            if canaries is not None and sample:
                canaries.note_case(i, sample)
        except Exception as e:       # harness trouble is never a verdict
            run.count(f"harness_error:{type(e).__name__}")
            run.note_inconclusive(f"case {i}: harness error {type(e).__name__}: {e}"[:300])
        _reset_config()
        done += 1
        if canaries is not None and done % CANARY_EVERY == 0:
            _check_canaries(run, canaries, f"after case {i}")
    if canaries is not None and done % CANARY_EVERY != 0:
        _check_canaries(run, canaries, "end of shard")


def _check_canaries(run, canaries, point):
    try:
        canaries.check(point)
        run.count("PROC:checkpoints")
    except Exception as e:           # harness trouble is never a verdict
        run.count(f"harness_error:canaries:{type(e).__name__}")
    _reset_config()


def _reset_config():
    try:
        from pandera.config import reset_config_context
        reset_config_context()
    except Exception:
        pass


# time-like widenings and the process canaries (quick: 8 shards x 36 cases)
FLOORS_TIME = [("feature:time_list_statistic", 6),
               ("feature:time_list_statistic:timedelta", 4),
               ("feature:time_list_statistic:on_index", 1),
               ("time_list_statistic:serialised_to_yaml_or_json", 4),
               ("feature:tz_localize", 6), ("feature:tz_localize:own_options", 4),
               ("feature:tz_localize:default+own_options", 2),
               ("probe:dst_ambiguous", 6), ("probe:dst_nonexistent", 6),
               ("PROC:evaluated", 500), ("PROC:agree", 500),
               ("PROC:evaluated:dst_probe", 95), ("PROC:checkpoints", 6)]


def finalize(run, ctx):
    # floors ~ 1/4 of what the unchanged tree gives (quick: 288 cases)
    k = 1 if ctx.tier == "quick" else 20
    for name, m in [("FP:evaluated", 2000), ("EQ:evaluated", 2000),
                    ("VER:evaluated", 1400), ("VER:agree", 1000),
                    ("FP:after:validate", 160), ("FP:after:transform", 60),
                    ("FP:after:derived_validate", 35),
                    ("FP:after:statistics", 30), ("FP:after:to_script", 15),
                    ("FP:after:to_yaml", 20), ("FP:after:to_json", 12),
                    ("FP:after:pickle", 15), ("FP:after:deepcopy", 12),
                    ("FP:after:coerce_dtype", 15), ("FP:after:model_validate", 6),
                    ("FP:after:model_misc", 5), ("FP:after:strategy", 4),
                    ("FP:after:example", 15),
                    # live data objects meeting the same schema object again
                    ("FP:after:reuse_validate", 95), ("REUSE:evaluated", 90),
                    ("REUSE:agree", 90), ("REUSE:object_met_this_schema_before", 35),
                    ("REUSE:inplace", 50), ("REUSE:after_failed_inplace", 8),
                    ("REUSE:after_ok_inplace", 6), ("REUSE:after_subsample", 6),
                    ("REUSE:after_edit", 5), ("REUSE:object:result", 8),
                    ("REUSE:object:error.data", 4),
                    # two overlapping calls on one schema object
                    ("FP:after:overlap", 50),
                    ("overlap:both_calls_inside_the_same_region", 50),
                    ("overlap:what:validate", 30),
                    # draws on schemas with dtype-less columns
                    ("feature:dtype_less_column", 7),
                    ("feature:frame_dtype+dtype_less_column", 3),
                    ("HYP:example:schema_with_dtype_less_column", 10),
                    ("HYP:example:frame_dtype+dtype_less_column", 4),
                    ("feature:frame_coerce", 11),
                    ("feature:regex", 20), ("feature:df_checks", 10),
                    ("feature:tz_agnostic", 6), ("feature:key!=name", 4),
                    ("feature:multiindex", 4), ("feature:index", 8),
                    ("schema:pandas:model", 10), ("schema:pandas:frame", 35),
                    ("schema:pandas:series", 4), ("schema:pandas:column", 4),
                    ("schema:polars:frame", 10)]:
        run.floors[name] = m * k
    for name, m in FLOORS_TIME:
        run.floors[name] = m * k
    # 7 canaries per shard process (8 / 16 shards)
    run.floors["PROC:canaries_measured_at_process_start"] = 14 if ctx.tier == "quick" else 28
    run.floors["cold:case"] = 12 if ctx.tier == "quick" else 150
    run.floors["cold:snapshot_taken"] = 8 if ctx.tier == "quick" else 100


def _replay_canary(path, w):
    """PROC witness: measure the canary, run the recorded cases (other schema
    objects), measure the canary again."""
    spec = w["spec"]
    probes = G.probes(spec, _probe_rng(spec))
    S = G.build(spec).schema
    order = sorted(range(len(probes)),
                   key=lambda j: (not probes[j][0].startswith("dst_"), j))
    before = {(j, lz): verdict(S, probes[j][1], lz) for j in order for lz in (False, True)}
    for other in _CANARY_REPLAY_EXTRA() + list(w.get("cases_since_last_agreement") or []):
        ospec, ohist = other.get("spec"), other.get("history") or []
        if not ospec:
            continue
        try:
            oprobes = G.probes(ospec, _probe_rng(ospec))
            obuilt = G.build(ospec)
            O.reset_pool(obuilt, oprobes)
            for _, frame in oprobes:
                for lz in (False, True):
                    verdict(obuilt.schema, frame, lz)
        except Exception as e:
            print(f"  case {other.get('case')}: {type(e).__name__}")
            continue
        for op in ohist:
            try:
                if op["op"] == "reuse_validate":
                    O.apply_reuse(op, obuilt, oprobes)
                elif op["op"] != "overlap":
                    if "probe" in op:
                        op = dict(op, probe=op["probe"] % len(oprobes))
                    with warnings.catch_warnings():
                        warnings.simplefilter("ignore")
                        O.apply(op, obuilt, oprobes)
            except Exception:
                pass
    for (j, lz), b in before.items():
        v = verdict(S, probes[j][1], lz)
        if v != b:
            print(f"VIOLATION property={PID} replay={path}\n  canary probe "
                  f"{probes[j][0]} lazy={lz}: {b} before, {v} after operations on "
                  f"other schemas")
            return 1
    print(f"[{PID}] replay: canary verdicts unchanged")
    return 0


def _CANARY_REPLAY_EXTRA():
    # the other canaries are part of the process history as well
    return [{"case": f"canary{n}", "spec": s, "history": []}
            for n, s in enumerate(canary_specs())]


def replay(path):
    """Re-run the recorded history of a witness against the current tree."""
    with open(path) as f:
        v = json.load(f)
    w = v["witness"]
    G.warm_up()
    if "cases_since_last_agreement" in w:
        return _replay_canary(path, w)
    spec, hist = w["spec"], w["history"]
    probes = G.probes(spec, _probe_rng(spec))
    built = G.build(spec)
    O.reset_pool(built, probes)
    cur = (lambda: built.model.to_schema() if built.model is not None else built.schema)
    fp0 = F.fp(cur())
    for op in hist:
        try:
            if op["op"] == "probe":
                H.run_validate(cur(), G.clone(probes[op["probe"] % len(probes)][1]),
                               lazy=op["lazy"])
            elif op["op"] == "reuse_validate":
                with warnings.catch_warnings():
                    warnings.simplefilter("ignore")
                    info = O.apply_reuse(op, built, probes, twin=G.build(spec))
                if op["via"] != "check_types" and info["sig"] != info["twin_sig"]:
                    print(f"VIOLATION property={PID} replay={path}\n  after {op}: "
                          f"object {info['tag']} (marks {info['marks']}): schema says "
                          f"{info['sig']}, pristine twin on a deep copy says "
                          f"{info['twin_sig']}")
                    return 1
            else:
                if "probe" in op:
                    op = dict(op, probe=op["probe"] % len(probes))
                O.apply(op, built, probes)
        except Exception as e:
            print(f"  op {op} raised {type(e).__name__}")
        d = F.diff(fp0, F.fp(cur()))
        if d:
            print(f"VIOLATION property={PID} replay={path}\n  after {op}: {d}")
            return 1
    print(f"[{PID}] replay: schema unchanged after {len(hist)} ops")
    return 0
