"""C11 — drop_invalid_rows removes exactly the rows that violate a row-level
constraint (pandas + polars)."""
from __future__ import annotations

import copy
import random

import pandas as pd

from .. import harness as H, model as M
from ..evidence import Run, canon_hash
from ..gen import build as B, parse as P, spec as G
from . import common as C

PID = "C11"
SHARDS = {"quick": 4, "thorough": 16}
N = {"quick": 3400, "thorough": 115000}
DOC_EXAMPLES = 4


def new_run():
    return Run(PID, "exploration",
               "cases = (schema spec with drop_invalid_rows=True, table conforming by construction "
               "then hit by value / null / duplicate / dtype / column mutations, optional exact "
               "coercion), validated lazily by the real code; rows carry a hidden identity (unique "
               "index label: shuffled ints, strings or MultiIndex tuples; row content + order for "
               "polars; RangeIndex slices / 1-based / stepped ranges); workloads also hold Index "
               "checks failing below a column error, aggregate checks (one boolean) and checks "
               "that raise (not attributable to rows: must be raised) on columns / index levels / "
               "the frame / a SeriesSchema, and stand-alone (regex) Column components matching 2-3 "
               "columns; two row-level errors of ONE component on different rows (two checks / null + "
               "check / nulls under one regex column; pandas and polars); frames with a REPEATED column "
               "label whose same-label columns violate the same constraint on different rows (judged: no "
               "row violating a row-level constraint in any same-label column survives); polars float "
               "data holding NaN and nulls under a non-nullable Column declaring no dtype / the data's "
               "dtype / float (schema column, regex column, stand-alone Column.validate; NaN counts as "
               "null); Column(drop_invalid_rows=True) INSIDE a DataFrameSchema with or without the "
               "schema-level option (pandas and polars; judged only when an object is returned: no "
               "invalid row in it, no valid row missing); 15% of the pandas cases put n_failure_cases "
               "(a reporting option) on their checks - the surviving rows must not change; the surviving identities are compared with the reference model's rows "
               "satisfying every row-level constraint; non-trivial = at least one row must be dropped "
               "or a non-row error must be raised; distinct = canonical hash",
               ["reference model pvm/model.py; index labels unique and non-null (documented limit)",
                "SeriesSchema with a failing index schema is not judged (not documented)"])


def gen(rng, neutral=False):
    kind = None if not neutral else "frame"
    spec = G.gen_spec(rng, neutral=neutral, kind=kind)
    spec["drop_invalid_rows"] = True
    if spec["kind"] == "frame" and rng.random() < 0.6:
        spec["dtype"] = None        # frame-level dtype only in a minority of cases
    n = rng.choice([2, 3, 4, 5, 6])
    table = G.gen_table(rng, spec, nrows=n)
    # hidden identity: an undeclared unique index
    if not spec.get("index") and not neutral:
        how = rng.random()
        if how < 0.35:
            table["index"] = {"levels": [{"name": None, "phys": "int64",
                                          "values": rng.sample(range(100, 160), n)}]}
        elif how < 0.6:
            table["index"] = {"levels": [{"name": "k", "phys": "object",
                                          "values": rng.sample(["r%d" % i for i in range(20)] + ["(1, 2)", "a b", "x'y"], n)}]}
        elif how < 0.8:
            table["index"] = {"levels": [
                {"name": "k0", "phys": "object", "values": [rng.choice(["p", "q"]) for _ in range(n)]},
                {"name": "k1", "phys": rng.choice(["int64", "datetime", "float64"]),
                 "values": None}]}
            lv = table["index"]["levels"][1]
            lv["values"] = rng.sample(range(50), n) if lv["phys"] == "int64" else \
                rng.sample(G.POOL["datetime"], n) if lv["phys"] == "datetime" else \
                [x + 0.5 for x in rng.sample(range(50), n)]
            if rng.random() < 0.5:
                # numeric first level: mixed int / float levels render differently
                table["index"]["levels"][0] = {"name": "k0", "phys": "int64",
                                               "values": [rng.choice([3019, 7]) for _ in range(n)]}
        else:
            table["index"] = None
    muts = G.mutate(rng, spec, table, k=rng.choice([1, 2, 2, 3]))
    if spec["kind"] == "frame" and not neutral and table["columns"] and rng.random() < 0.25 \
            and all(c["phys"] in ("int64", "float64") and None not in c["values"] for c in table["columns"]):
        # a dataframe-level check failing on some rows (table-shaped failure cases)
        if not spec.get("checks"):
            spec["checks"] = [G.gen_check(rng, "float64")]
        bad = [x for x in G.POOL["float64"] if not M.check_cell(spec["checks"][0], x)]
        col = rng.choice(table["columns"])
        if bad and col["values"]:
            v = rng.choice(bad)
            col["values"][rng.randrange(len(col["values"]))] = int(v) if col["phys"] == "int64" else v
            muts.append(("frame_check", col["name"]))
        if rng.random() < 0.5 and len(col["values"]) >= 2 and not C.has_dup_labels(table):
            # joint uniqueness violated as well (wide failure cases)
            spec["unique"] = [col["name"]]
            spec["report_duplicates"] = rng.choice(["all", "exclude_first", "exclude_last"])
            i, j = rng.sample(range(len(col["values"])), 2)
            col["values"][j] = col["values"][i]
            muts.append(("joint_unique_dup", col["name"]))
        if not spec.get("index") and rng.random() < 0.7:
            n2 = len(col["values"])
            table["index"] = {"levels": [
                {"name": "k0", "phys": "int64", "values": [rng.choice([3019, 7, 8]) for _ in range(n2)]},
                {"name": "k1", "phys": "float64", "values": [x + 0.5 for x in rng.sample(range(50), n2)]}]}
    opts = []
    if spec["kind"] == "frame" and rng.random() < (0.3 if neutral else 0.06):
        # two row-level errors of ONE schema component on different rows
        how = P.force_same_component_errors(rng, spec, table)
        if how:
            muts.append(("same_component_errors", how))
            opts.append("combo:same_component_errors")
            opts.append("combo:same_component_errors:" + how)
    if spec["kind"] == "frame" and not neutral and rng.random() < 0.15:
        how = force_repeated_label_errors(rng, spec, table)
        if how:
            muts.append(("repeated_label_errors", how))
            opts.append("combo:repeated_label_errors")
    if spec["kind"] == "frame" and not neutral and rng.random() < 0.15 \
            and P.force_index_combo(rng, spec, table):
        # an Index check failing on a row below a row with a column error
        muts.append(("index_combo",))
        opts.append("combo:index_error_below_column_error")
    elif spec["kind"] == "frame" and not neutral and rng.random() < 0.12 \
            and P.force_range_index(rng, spec, table):
        # an Index check failing on a RangeIndex that is not RangeIndex(0, n, 1)
        muts.append(("range_index",))
        opts.append("range_index:not_zero_based_or_stepped")
    if not neutral and rng.random() < 0.2:
        # a violation that cannot be attributed to rows: aggregate check / check that raises
        tag = P.add_whole_column_check(rng, spec, table)
        if tag:
            muts.append(("whole_column_check", tag))
            opts.append("whole_column_check:" + tag.split(":")[1])
    typed = copy.deepcopy(table)
    if rng.random() < 0.35 and spec["kind"] == "frame":
        # exact coercion on well-typed columns only
        for fs in spec["columns"]:
            if fs["regex"]:
                continue
            for col in table["columns"]:
                if col["name"] == fs["name"] and col["phys"] == G.PHYS_OF[fs["dtype"]] \
                        and fs["dtype"] in (("int64", "float64") if neutral else
                                            ("int64", "float64", "datetime")) \
                        and rng.random() < 0.6:
                    fs["coerce"] = True
                    P._retype_for_coercion(rng, fs, col)
                    opts.append("coerce")
    if G.relabel(rng, spec, table, typed, p=0.25, polars=neutral):
        opts.append("falsy_labels")
    return spec, table, typed, muts, opts


def force_repeated_label_errors(rng, spec, table):
    """A frame that carries one declared column label TWICE (adjacent), with the
    same constraint of that Column (a check, else nullable=False) violated in
    both same-label columns on different rows.  Returns the constraint kind."""
    n = len(table["columns"][0]["values"]) if table["columns"] else 0
    if n < 3 or C.has_dup_labels(table) or any(len(c["values"]) != n for c in table["columns"]):
        return None
    listed = set(G._flat_unique(spec))
    cands = []
    for fs in spec["columns"]:
        if fs["regex"] or fs["name"] in listed or fs["unique"]:
            continue
        for k, c in enumerate(table["columns"]):
            if c["name"] == fs["name"] and c["phys"] == G.PHYS_OF[fs["dtype"]]:
                if fs["checks"] and G.violating(fs) and G.satisfying(fs):
                    cands.append((fs, k, "check"))
                elif not fs["nullable"] and c["phys"] in ("float64", "object", "datetime"):
                    cands.append((fs, k, "null"))
    if not cands:
        return None
    fs, k, how = rng.choice(cands)
    c = table["columns"][k]
    twin = copy.deepcopy(c)
    table["columns"].insert(k + 1, twin)
    spec["unique_column_names"] = False
    i, j = rng.sample(range(n), 2)
    c["values"][i] = rng.choice(G.violating(fs)) if how == "check" else None
    twin["values"][j] = rng.choice(G.violating(fs)) if how == "check" else None
    return how


def expected(spec, typed):
    v = M.evaluate(spec, typed)
    return v


def rows_of(table):
    cols = table["columns"]
    n = len(cols[0]["values"]) if cols else 0
    return [tuple(c["values"][i] for c in cols) for i in range(n)]


def classify(spec, kind, detail):
    return None


def classify_exc(table, out):
    """Mechanism of an internal exception under drop_invalid_rows."""
    lev = (table.get("index") or {}).get("levels") or []
    if len(lev) == 1 and lev[0]["name"] is not None and not isinstance(lev[0]["name"], str) \
            and lev[0]["name"] == 0 \
            and H.exc_sig(out.exc) == "ValueError@backends/pandas/error_formatters.py:reshape_failure_cases" \
            and "cannot insert" in str(out.exc):
        # wide failure cases (joint uniqueness / dataframe-level check) are
        # unstacked into an unnamed Series and reset_index() then collides with
        # an index level that is NAMED 0 (0.0, False)
        return "reshape_failure_cases-index-named-0-collides-on-reset_index"
    return None


MECH_NFC = "n_failure_cases-truncates-the-rows-drop_invalid_rows-removes"


def add_n_failure_cases(rng, spec):
    """``n_failure_cases`` limits what a check REPORTS; which rows violate it is
    unchanged, so the rows drop_invalid_rows removes must be unchanged too.
    Returns the places ('column' / 'index' / 'level' / 'frame' / 'field') that
    got the option."""
    where = []
    fields = [("field", spec["field"])] if spec["kind"] == "series" else [("column", fs) for fs in spec["columns"]]
    idx = spec.get("index") or []
    fields += [("level" if len(idx) > 1 else "index", fs) for fs in idx]
    for place, fs in fields:
        for k in fs.get("checks") or []:
            if not k["kind"].startswith("custom") and rng.random() < 0.7:
                k["n_failure_cases"] = rng.choice([1, 1, 2])
                where.append(place)
    for k in spec.get("checks") or []:
        if not k["kind"].startswith("custom") and rng.random() < 0.7:
            k["n_failure_cases"] = rng.choice([1, 1, 2])
            where.append("frame")
    return sorted(set(where))


def pandas_case(run, rng):
    spec, table, typed, muts, opts = gen(rng)
    # drawn from a generator of its own: the cases themselves are unchanged
    r2 = random.Random(canon_hash(["n_failure_cases", spec, table]))
    nfc = add_n_failure_cases(r2, spec) if r2.random() < 0.15 else []
    v = expected(spec, typed)
    try:
        data = B.pandas_table(spec, table)
        schema = B.pandas_schema(spec)
    except Exception as e:
        run.count("build_error:" + type(e).__name__)
        return
    out = H.run_validate(schema, data, lazy=True)
    non_row = [e for e in v.errors if e.cells is None]
    run.case(canon_hash(["pandas", spec, table]),
             v.accept is False,
             sample={"backend": "pandas", "spec": spec, "table": table, "mutations": muts,
                     "coercion": opts, "model_bad_rows": sorted(v.bad_rows),
                     "model_non_row_errors": [e.reason for e in non_row], "impl": out.kind})
    run.count(f"pandas:{spec['kind']}:{out.kind}")
    if v.accept is None or not v.rows_known:
        run.count("undecided:model_not_exact")
        return
    dup_labels = C.has_dup_labels(table)
    if dup_labels and (spec["kind"] != "frame" or spec.get("checks") or spec.get("dtype") or spec.get("coerce")
                       or any((fs.get("unique") or fs.get("coerce"))
                              and [c["name"] for c in table["columns"]].count(fs["name"]) > 1
                              for fs in spec["columns"])):
        # dataframe-level checks / dtype and column uniqueness over a repeated
        # label: what they mean per same-label column is not documented; coercion
        # of a repeated label: the model's typed twin describes one column only
        run.count("undecided:model_not_exact")
        run.count("undecided:repeated_labels_with_frame_checks_unique_or_coercion")
        return
    if spec["kind"] == "frame" and spec.get("dtype") and (
            spec.get("coerce") or any(c.get("coerce") for c in spec["columns"])):
        # a dataframe-level dtype with any coercion coerces EVERY column of the
        # frame (also undeclared ones, lossily: 0.5 -> 0) and overrides the
        # columns' own dtypes; the model's "typed" table does not describe
        # that, and the docs do not say whether a column-level coerce may
        # trigger it -> not judged (found by the thorough tier only)
        run.count("undecided:frame-dtype-with-coercion-coerces-every-column")
        return
    idx = data.index
    if not idx.is_unique or (idx.hasnans if not isinstance(idx, pd.MultiIndex) else
                             any(idx.get_level_values(i).hasnans for i in range(idx.nlevels))):
        run.count("undecided:labels_not_unique_or_null")
        return
    if out.kind == "exc":
        run.violation("internal-exception-instead-of-drop-or-SchemaErrors",
                      C.brief(spec, table, {"exc": repr(out.exc)[:300], "sig": H.exc_sig(out.exc)}),
                      classify_exc(table, out))
        return
    if spec["kind"] == "series" and any(e.where == "index" for e in v.errors):
        run.count("undecided:series_schema_with_failing_index_schema")
        return
    if non_row:
        run.count("non_row_error_expected_raise")
        for e in non_row:
            if e.reason == "CHECK_ERROR" or (e.reason == "DATAFRAME_CHECK" and e.scalar is False):
                run.count(f"non_row_error_expected_raise:whole_column_check:{spec['kind']}:{e.where}")
        if out.accepted:
            run.violation("non-row-violation-swallowed",
                          C.brief(spec, table, {"model_non_row": [(e.reason, e.column) for e in non_row]}),
                          None)
        return
    if not out.accepted:
        # only row-level violations (or none): must return
        if not v.errors and out.kind == "SchemaErrors":
            run.count("model_accept_but_rejected(C01)")
            return
        run.violation("row-level-violations-raised-instead-of-dropped",
                      C.brief(spec, table, {"impl": out.kind, "reasons": out.reasons(),
                                            "model": [(e.reason, e.column, e.check) for e in v.errors]}),
                      None)
        return
    res = out.result
    run.count("rows_compared")
    if v.bad_rows:
        run.count("rows_compared_with_drops")
    for o in opts:
        if o != "coerce":
            run.count(f"rows_compared:{o}")
    labels = list(idx)
    pos = {}
    for i, l in enumerate(labels):
        pos[l] = i
    try:
        survived = [pos[l] for l in res.index]
    except KeyError:
        run.violation("result-has-unknown-row-labels", C.brief(spec, table, {"labels": repr(list(res.index))[:200]}), None)
        return
    n = len(labels)
    exp = [i for i in range(n) if i not in v.bad_rows]
    if dup_labels:
        # repeated column labels: only "no row that violates a row-level
        # constraint in ANY of the same-label columns survives" is judged
        run.count("rows_compared:repeated_labels:no_invalid_row_survives")
        bad = [i for i in survived if i in v.bad_rows]
        if bad:
            run.violation("invalid-row-survives",
                          C.brief(spec, table, {"invalid_survivors": bad, "survived_positions": survived,
                                                "model_errors": [(e.reason, e.column, e.check,
                                                                  [i for i, _ in e.cells]) for e in v.errors]}),
                          None)
        elif survived != exp:
            run.count("undecided:repeated_labels:valid_row_dropped_or_reordered")
        return
    if nfc:
        run.count("rows_compared:n_failure_cases")
        for w in nfc:
            run.count(f"rows_compared:n_failure_cases:on_{w}")
        if len(exp) < n:
            run.count("rows_compared:n_failure_cases:with_drops")
    if survived != exp:
        mech = None
        extra = [i for i in survived if i not in exp]
        if nfc and extra and not [i for i in exp if i not in survived] and all(
                any(e.reason == "DATAFRAME_CHECK" and e.cells is not None and i in [r for r, _ in e.cells]
                    for e in v.errors) for i in extra):
            # every invalid survivor violates a check (n_failure_cases limits the
            # REPORTED failure cases; the rows to drop were taken from the report)
            mech = MECH_NFC
        run.violation("surviving-rows-differ",
                      C.brief(spec, table, {"expected_positions": exp, "survived_positions": survived,
                                            "model_errors": [(e.reason, e.column, e.check,
                                                              [i for i, _ in e.cells]) for e in v.errors],
                                            "coercion": opts, "n_failure_cases_on": nfc}),
                      mech)
        return
    # values: equal to the (typed) input rows
    run.count("values_compared")
    if spec["kind"] == "frame":
        tcols = typed["columns"]
        for ci, c in enumerate(tcols):
            got = [H.norm(x) for x in res.iloc[:, ci].tolist()] if ci < res.shape[1] else None
            want = [c["values"][i] for i in exp]
            if got != want:
                run.violation("surviving-values-differ",
                              C.brief(spec, table, {"column": c["name"], "got": got, "want": want}), None)
                return
    else:
        got = [H.norm(x) for x in res.tolist()]
        want = [typed["columns"][0]["values"][i] for i in exp]
        if got != want:
            run.violation("surviving-values-differ", C.brief(spec, table, {"got": got, "want": want}), None)


def polars_case(run, rng):
    import polars as pl
    spec, table, typed, muts, opts = gen(rng, neutral=True)
    if C.has_dup_labels(table):
        return
    v = expected(spec, typed)
    lazyframe = False   # a LazyFrame is validated at schema level only: no row checks
    try:
        data = B.polars_table(table)
        schema = B.polars_schema(spec)
    except Exception as e:
        run.count("build_error_polars:" + type(e).__name__)
        return
    out = H.run_validate(schema, data, lazy=True)
    # polars reports a dtype mismatch as one scalar entry, also for str
    non_row = [e for e in v.errors if e.cells is None or e.reason == "WRONG_DATATYPE"]
    run.case(canon_hash(["polars", spec, table]), v.accept is False, sample=None)
    run.count(f"polars:{out.kind}")
    if v.accept is None or not v.rows_known:
        run.count("undecided:model_not_exact")
        return
    if out.kind == "exc":
        run.violation("internal-exception-instead-of-drop-or-SchemaErrors",
                      C.brief(spec, table, {"backend": "polars", "exc": repr(out.exc)[:300],
                                            "sig": H.exc_sig(out.exc)}), None)
        return
    if non_row:
        run.count("polars:non_row_error_expected_raise")
        if out.accepted:
            run.violation("non-row-violation-swallowed",
                          C.brief(spec, table, {"backend": "polars",
                                                "model_non_row": [(e.reason, e.column) for e in non_row]}),
                          "polars-drop_invalid_rows-swallows-non-row-errors")
        return
    if not out.accepted:
        if not v.errors:
            return
        run.violation("row-level-violations-raised-instead-of-dropped",
                      C.brief(spec, table, {"backend": "polars", "impl": out.kind, "reasons": out.reasons()}), None)
        return
    res = out.result
    run.count("polars:rows_compared")
    for o in opts:
        if o.startswith("combo:"):
            run.count(f"polars:rows_compared:{o}")
    exp_rows = [r for i, r in enumerate(rows_of(typed)) if i not in v.bad_rows]
    got_rows = [tuple(H.norm(x) for x in r) for r in res.select([c["name"] for c in typed["columns"]]).rows()] \
        if all(c["name"] in res.columns for c in typed["columns"]) else None
    if got_rows != exp_rows:
        run.violation("surviving-rows-differ",
                      C.brief(spec, table, {"backend": "polars", "expected": exp_rows, "got": got_rows,
                                            "model_errors": [(e.reason, e.column, e.check) for e in v.errors]}),
                      None)


NAN = float("nan")


def polars_nan_case(run, rng):
    """polars: floating point data holding NaN (and nulls) validated by a
    non-nullable Column that declares NO data type, the data's own float type or
    plain ``float`` - as a schema column, a regex column or a stand-alone
    ``Column.validate``.  The nullability check "considers nulls and nan values
    as effectively equivalent": a row survives iff every selected column holds a
    value that is neither null nor NaN and passes the value check."""
    import polars as pl
    import pandera.polars as pa
    n = rng.choice([4, 5, 6, 7])
    shape = rng.choice(["schema_column", "regex_column", "stand_alone", "stand_alone_regex"])
    f32 = rng.random() < 0.3
    declared = rng.choice(["none", "none", "none", "data", "float"])
    if f32 and declared == "float":
        declared = "data"
    chk = None
    if rng.random() < 0.6:
        chk = G.gen_check(rng, "float64", neutral=True)
        if f32 and chk["kind"] not in ("gt", "ge", "lt", "le", "in_range"):
            chk = {"kind": "ge", "args": {"min_value": 0.0}, "ignore_na": True}
    regex = shape in ("regex_column", "stand_alone_regex")
    labels = ["x_a", "x_b"][: rng.randint(1, 2)] if regex else ["x"]
    pool = G.POOL["float64"][:-1]
    good = [x for x in pool if chk is None or M.check_cell(chk, x)] or [0.5]
    bad = [x for x in pool if chk is not None and not M.check_cell(chk, x)]
    if not [x for x in pool if chk is None or M.check_cell(chk, x)]:
        chk = None
    cols = {}
    for l in labels:
        vals = [rng.choice(good) for _ in range(n)]
        for _ in range(rng.randint(1, 2)):
            vals[rng.randrange(n)] = NAN
        if rng.random() < 0.5:
            vals[rng.randrange(n)] = None
        if bad and rng.random() < 0.6:
            vals[rng.randrange(n)] = rng.choice(bad)
        cols[l] = vals
    keys = ["r%d" % i for i in range(n)]
    ftype = pl.Float32 if f32 else pl.Float64
    frame = {l: pl.Series(l, v, dtype=ftype) for l, v in cols.items()}
    frame["k"] = pl.Series("k", keys)
    if rng.random() < 0.5:
        frame = dict(reversed(list(frame.items())))
    df = pl.DataFrame(frame)
    dt = {"none": None, "data": ftype, "float": float}[declared]
    kw = dict(checks=[getattr(pa.Check, chk["kind"])(**chk["args"])] if chk else None, nullable=False)
    name = "x_.*" if regex else "x"
    if shape.startswith("stand_alone"):
        schema = pa.Column(dt, name=name, regex=regex, drop_invalid_rows=True, **kw)
    else:
        d = {name: pa.Column(dt, regex=regex, **kw)}
        if rng.random() < 0.5:
            d["k"] = pa.Column(pl.String)
        schema = pa.DataFrameSchema(d, drop_invalid_rows=True)
    out = H.run_validate(schema, df, lazy=True)

    def js(x):
        return "NaN" if isinstance(x, float) and x != x else x
    desc = {"backend": "polars", "nan_case": True, "shape": shape, "float32": f32, "declared_dtype": declared,
            "check": chk, "columns": {l: [js(x) for x in v] for l, v in cols.items()}}
    exp = [keys[i] for i in range(n)
           if all(cols[l][i] is not None and cols[l][i] == cols[l][i]
                  and (chk is None or M.check_cell(chk, cols[l][i])) for l in labels)]
    run.case(canon_hash(["polars-nan", desc]), len(exp) < n, sample=None)
    tag = f"polars:nan:{shape}:dtype_{declared}"
    run.count(f"{tag}:{out.kind}")
    if out.kind != "ok":
        run.violation("row-level-violations-raised-instead-of-dropped" if out.kind != "exc"
                      else "internal-exception-instead-of-drop-or-SchemaErrors",
                      dict(desc, impl=out.kind, reasons=out.reasons(), exc=repr(out.exc)[:300]), None)
        return
    run.count("polars:nan:rows_compared")
    run.count(f"{tag}:rows_compared")
    if declared == "none":
        run.count(f"polars:nan:rows_compared:no_declared_dtype:{'stand_alone' if shape.startswith('stand_alone') else 'schema'}")
    try:
        got = out.result["k"].to_list()
    except Exception as e:
        run.violation("result-has-unknown-row-labels", dict(desc, exc=repr(e)[:200]), None)
        return
    if got != exp:
        run.violation("surviving-rows-differ", dict(desc, expected=exp, got=got), None)


MECH_COLUMN_LEVEL = "column-level-drop_invalid_rows-inside-DataFrameSchema-violations-vanish"


def column_level_case(run, rng):
    """``Column(..., drop_invalid_rows=True)`` INSIDE a DataFrameSchema (pandas and
    polars), the schema itself with or without ``drop_invalid_rows``.  Whatever the
    container does with the column-level request, an object it RETURNS must not
    hold a row that violates a row-level constraint of any column, and must hold
    every row that violates none.  (A container that raises SchemaErrors instead
    is not judged here: the documentation shows the column-level option on a
    stand-alone ``Column.validate`` only.)"""
    backend = "polars" if rng.random() < 0.4 else "pandas"
    n = rng.choice([4, 5, 6, 7])
    ncols = rng.randint(2, 3)
    schema_drop = rng.random() < 0.5
    names = ["c%d" % j for j in range(ncols)]
    specs = {}
    for c in names:
        dt = rng.choice(["int64", "float64"])
        chk = G.gen_check(rng, dt, neutral=True) if rng.random() < 0.8 else None
        pool = [x for x in G.POOL[dt] if x is not None and x == x]
        good = [x for x in pool if chk is None or M.check_cell(chk, x)]
        bad = [x for x in pool if chk is not None and not M.check_cell(chk, x)]
        if not good:
            chk, good, bad = None, pool, []
        specs[c] = {"dtype": dt, "check": chk, "nullable": not (dt == "float64" and rng.random() < 0.6),
                    "col_drop": False, "good": good, "bad": bad}
    for c in rng.sample(names, rng.randint(1, ncols)):
        specs[c]["col_drop"] = True
    where = rng.choice(["dropping_columns_only", "dropping_columns_only", "any_column"])
    cols = {}
    for c in names:
        sp = specs[c]
        vals = [rng.choice(sp["good"]) for _ in range(n)]
        if sp["col_drop"] or where == "any_column":
            for _ in range(rng.randint(0, 2)):
                i = rng.randrange(n)
                if sp["bad"] and rng.random() < 0.75:
                    vals[i] = rng.choice(sp["bad"])
                elif not sp["nullable"]:
                    vals[i] = None
        cols[c] = vals
    keys = ["r%d" % i for i in range(n)]

    def cell_bad(c, x):
        sp = specs[c]
        if x is None:
            return not sp["nullable"]
        return sp["check"] is not None and not M.check_cell(sp["check"], x)
    bad_cols = [[c for c in names if cell_bad(c, cols[c][i])] for i in range(n)]
    valid = [keys[i] for i in range(n) if not bad_cols[i]]
    desc = {"backend": backend, "column_level_drop": True, "schema_drop": schema_drop, "where": where,
            "columns": {c: {k: v for k, v in specs[c].items() if k not in ("good", "bad")} for c in names},
            "data": cols}
    run.case(canon_hash(["column-level-drop", desc]), len(valid) < n, sample=None)
    if backend == "pandas":
        import pandera as pa
        df = pd.DataFrame({**{c: pd.Series(cols[c], dtype=specs[c]["dtype"]) for c in names}, "k": keys})
        dts = {"int64": "int64", "float64": "float64"}
    else:
        import polars as pl
        import pandera.polars as pa
        dts = {"int64": pl.Int64, "float64": pl.Float64}
        df = pl.DataFrame({**{c: pl.Series(c, cols[c], dtype=dts[specs[c]["dtype"]]) for c in names},
                           "k": pl.Series("k", keys)})
    schema = pa.DataFrameSchema(
        {c: pa.Column(dts[sp["dtype"]], nullable=sp["nullable"], drop_invalid_rows=sp["col_drop"],
                      checks=[getattr(pa.Check, sp["check"]["kind"])(**sp["check"]["args"])] if sp["check"] else None)
         for c, sp in specs.items()}, drop_invalid_rows=schema_drop)
    out = H.run_validate(schema, df, lazy=True)
    tag = f"column_level:{backend}:schema_drop_{schema_drop}"
    run.count(f"{tag}:{out.kind}")
    if out.kind == "exc":
        run.violation("internal-exception-instead-of-drop-or-SchemaErrors",
                      dict(desc, exc=repr(out.exc)[:300]), None)
        return
    if out.kind != "ok":
        if schema_drop and all(set(b) for b in bad_cols if b):
            # schema-level drop_invalid_rows covers every row-level error
            run.violation("row-level-violations-raised-instead-of-dropped",
                          dict(desc, impl=out.kind, reasons=out.reasons()), None)
        else:
            run.count("undecided:column_level_drop:container_raised")
        return
    run.count("column_level:rows_compared")
    run.count(f"{tag}:rows_compared")
    if len(valid) < n:
        run.count(f"column_level:rows_compared:with_invalid_rows:{backend}")
    try:
        got = out.result["k"].to_list() if backend == "polars" else out.result["k"].tolist()
    except Exception as e:
        run.violation("result-has-unknown-row-labels", dict(desc, exc=repr(e)[:200]), None)
        return
    survivors = [keys.index(k) for k in got if k in keys]
    inval = [i for i in survivors if bad_cols[i]]
    if inval:
        # the open mechanism: every surviving invalid row is invalid only through
        # columns that asked for drop_invalid_rows themselves
        mech = MECH_COLUMN_LEVEL if all(all(specs[c]["col_drop"] for c in bad_cols[i]) for i in inval) else None
        run.violation("invalid-row-survives", dict(desc, expected=valid, got=got,
                                                   invalid_survivors=[keys[i] for i in inval]), mech)
        return
    if got != valid:
        run.violation("surviving-rows-differ", dict(desc, expected=valid, got=got), None)


REGEX_LABELS = {"r_.*": ["r_a", "r_bb", "r_c"], "r\\d": ["r1", "r2", "r3"], "r_a|r_b": ["r_a", "r_b"]}


def column_case(run, rng):
    """Stand-alone ``Column(..., drop_invalid_rows=True).validate(df, lazy=True)``,
    most of the time a regex Column whose pattern matches two or three columns:
    a row survives iff it violates no row-level constraint of the component in
    ANY matched column; a violation that is not attributable to rows (wrong
    dtype, aggregate check, check that raises) must be raised."""
    import pandera as pa
    regex = rng.random() < 0.7
    dtype = rng.choice(G.DTYPES)
    name = rng.choice(sorted(REGEX_LABELS)) if regex else rng.choice(G.NAMES)
    fs = G.gen_field(rng, name, dtype)
    fs["regex"] = regex
    n = rng.choice([3, 4, 5, 6])
    labels = REGEX_LABELS[name][: rng.randint(2, 3)] if regex else [name]
    if regex:
        # the matched columns are validated one after the other, each on the rows
        # the previous one left: whether a value is still a duplicate once its
        # twin's row was dropped because of ANOTHER column is not documented ->
        # uniqueness is only generated for a single matched column
        fs["unique"] = False
    cols = [{"name": l, "phys": G.PHYS_OF[dtype], "values": G.gen_values(rng, fs, n)} for l in labels]
    if rng.random() < 0.5:
        cols.insert(rng.randint(0, len(cols)), {"name": "zz", "phys": "int64",
                                                "values": [rng.randint(0, 3) for _ in range(n)]})
    how = rng.random()
    index = None
    if how < 0.4:
        index = {"levels": [{"name": None, "phys": "int64", "values": rng.sample(range(100, 160), n)}]}
    elif how < 0.6:
        index = {"levels": [{"name": "k", "phys": "object",
                             "values": rng.sample(["r%d" % i for i in range(20)], n)}]}
    elif how < 0.75:
        start, step = rng.choice([(1, 1), (3, 1), (0, 2), (5, -1)])
        index = {"levels": [{"name": None, "phys": "range", "start": start, "step": step,
                             "values": [start + i * step for i in range(n)]}]}
    table = {"columns": cols, "index": index}
    spec = {"kind": "column", "field": fs, "drop_invalid_rows": True}
    matched = [c for c in cols if c["name"] in labels]
    muts = []
    for _ in range(rng.choice([1, 2, 2, 3])):
        # bias towards a matched column that is not the last one
        c = rng.choice(matched[:-1] or matched) if rng.random() < 0.7 else rng.choice(matched)
        op = rng.choice(["check", "check", "null", "dup", "dtype"])
        if op == "check" and fs["checks"] and G.violating(fs):
            c["values"][rng.randrange(n)] = rng.choice(G.violating(fs))
        elif op == "null" and c["phys"] in ("float64", "object", "datetime"):
            c["values"][rng.randrange(n)] = None
        elif op == "dup":
            i, j = rng.sample(range(n), 2)
            c["values"][j] = c["values"][i]
        elif op == "dtype" and rng.random() < 0.3 and c["phys"] == G.PHYS_OF[dtype]:
            vals = G.convert_phys(c["values"], dtype, rng.choice(G.WRONG_PHYS[dtype]), rng)
            ph = None
            if vals is not None:
                for ph in G.WRONG_PHYS[dtype]:
                    try:
                        B._pd_array(ph, vals)
                        break
                    except Exception:
                        ph = None
            if ph:
                c["values"], c["phys"] = vals, ph
            else:
                continue
        else:
            continue
        muts.append((op, c["name"]))
    if rng.random() < 0.25:
        if rng.random() < 0.3:
            fs["checks"].append({"kind": "custom_raise", "args": {}, "ignore_na": True})
        else:
            cnt = [sum(1 for v in c["values"] if v is not None) for c in matched]
            k = max(0, max(cnt) - 1) if rng.random() < 0.6 else max(cnt) + 1
            fs["checks"].append({"kind": "custom_agg", "args": {"fn": "len_le", "value": k},
                                 "ignore_na": True})
        muts.append(("whole_column_check",))
    v = M.Verdict(True)
    for c in matched:
        M.field_errors(fs, c["phys"], c["values"], "column", c["name"], v.errors, v)
    M._finish(v)
    try:
        data = B.pandas_table({"kind": "frame"}, table)
        comp = pa.Column(B.pd_dtype(dtype), name=name, regex=regex, drop_invalid_rows=True,
                         **B._field_kwargs(pa, fs))
    except Exception as e:
        run.count("build_error_column:" + type(e).__name__)
        return
    out = H.run_validate(comp, data, lazy=True)
    non_row = [e for e in v.errors if e.cells is None]
    tag = "column:regex" if regex else "column:plain"
    agg_failed = [e.column for e in non_row if e.reason == "DATAFRAME_CHECK" and e.scalar is False]
    if len(matched) > 1 and agg_failed and matched[0]["name"] not in agg_failed \
            and all(e.reason == "DATAFRAME_CHECK" and e.scalar is False for e in non_row):
        # an aggregate check that fails on the input rows of a LATER matched
        # column only: that column is checked on the rows the earlier columns
        # left, where the aggregate may hold -> not documented, not judged
        run.count("undecided:aggregate_check_of_later_matched_column_after_drops")
        return
    run.case(canon_hash(["column", spec, table]), v.accept is False,
             sample={"backend": "pandas", "stand_alone_column": True, "spec": spec, "table": table,
                     "mutations": muts, "model_bad_rows": sorted(v.bad_rows),
                     "model_non_row_errors": [e.reason for e in non_row], "impl": out.kind})
    run.count(f"{tag}:{out.kind}")
    if v.accept is None or not v.rows_known:
        run.count("undecided:model_not_exact")
        return
    if out.kind == "exc":
        run.violation("internal-exception-instead-of-drop-or-SchemaErrors",
                      C.brief(spec, table, {"exc": repr(out.exc)[:300], "sig": H.exc_sig(out.exc)}), None)
        return
    if non_row:
        run.count(f"{tag}:non_row_error_expected_raise")
        if out.accepted:
            run.violation("non-row-violation-swallowed",
                          C.brief(spec, table, {"stand_alone_column": True,
                                                "model_non_row": [(e.reason, e.column) for e in non_row]}),
                          None)
        return
    if not out.accepted:
        run.violation("row-level-violations-raised-instead-of-dropped",
                      C.brief(spec, table, {"stand_alone_column": True, "impl": out.kind,
                                            "reasons": out.reasons(),
                                            "model": [(e.reason, e.column, e.check) for e in v.errors]}), None)
        return
    run.count(f"{tag}:rows_compared")
    dirty = {e.column for e in v.errors}
    if regex and len(dirty - {matched[-1]["name"]}) >= 1:
        run.count("column:regex:rows_compared:violation_in_a_matched_column_that_is_not_the_last")
    pos = {l: i for i, l in enumerate(data.index)}
    try:
        survived = [pos[l] for l in out.result.index]
    except KeyError:
        run.violation("result-has-unknown-row-labels",
                      C.brief(spec, table, {"labels": repr(list(out.result.index))[:200]}), None)
        return
    exp = [i for i in range(n) if i not in v.bad_rows]
    if survived != exp:
        run.violation("surviving-rows-differ",
                      C.brief(spec, table, {"stand_alone_column": True, "expected_positions": exp,
                                            "survived_positions": survived,
                                            "model_errors": [(e.reason, e.column, e.check,
                                                              [i for i, _ in e.cells]) for e in v.errors]}),
                      None)


def doc_examples(run):
    """The four examples of docs/source/drop_invalid_rows.md, executed verbatim
    in spirit (the first three are written without coerce in the docs and then
    contain a dtype error, a non-row violation: they must raise SchemaErrors,
    never TypeError; with coerce=True they must drop)."""
    import pandera as pa
    from pandera import Check, Column, DataFrameSchema, SeriesSchema
    df = pd.DataFrame({"counter": ["1", "2", "3"]})
    cases = [
        ("DataFrameSchema", lambda co: DataFrameSchema({"counter": Column(int, checks=[Check(lambda x: x >= 3)], coerce=co)}, drop_invalid_rows=True), df),
        ("SeriesSchema", lambda co: SeriesSchema(int, checks=[Check(lambda x: x >= 3)], drop_invalid_rows=True, coerce=co), pd.Series(["1", "2", "3"])),
        ("Column", lambda co: Column(int, name="counter", drop_invalid_rows=True, checks=[Check(lambda x: x >= 3)], coerce=co), df),
    ]
    for name, mk, obj in cases:
        for co in (False, True):
            out = H.run_validate(mk(co), obj, lazy=True)
            run.case(["doc", name, co], True, sample=None)
            run.count("doc_example_checked")
            if co:
                ok = out.accepted and len(out.result) == 1
            else:
                ok = out.kind == "SchemaErrors"
            if not ok:
                run.violation("doc-example-misbehaves",
                              {"example": name, "coerce": co, "outcome": out.kind,
                               "exc": repr(out.exc)[:200]}, None)
    out = H.run_validate(
        pa.DataFrameSchema({"counter": pa.Column(int, pa.Check.in_range(3, 5))}, drop_invalid_rows=True),
        pd.DataFrame({"counter": [1, 2, 3, 4, 5, 6]}), lazy=True)
    run.count("doc_example_checked")
    if not (out.accepted and out.result["counter"].tolist() == [3, 4, 5]):
        run.violation("doc-example-misbehaves", {"example": "model-equivalent", "outcome": out.kind}, None)


def run(run, ctx):
    if ctx.shard == 0:
        doc_examples(run)
    for i in ctx.cases(N[ctx.tier]):
        rng = ctx.rng(PID, i)
        if i % 16 == 7:
            polars_nan_case(run, rng)
        elif i % 16 == 11:
            column_level_case(run, rng)
        elif i % 8 == 5:
            column_case(run, rng)
        elif i % 3 == 2:
            polars_case(run, rng)
        else:
            pandas_case(run, rng)
        C.report_context_leaks(run, {"case": i})
    C.finish_context_monitor(run)


def finalize(run, ctx):
    for name, m in [("rows_compared", 200), ("rows_compared_with_drops", 100),
                    ("values_compared", 150), ("non_row_error_expected_raise", 50),
                    ("polars:rows_compared", 60), ("doc_example_checked", 7),
                    ("rows_compared:combo:index_error_below_column_error", 18),
                    ("rows_compared:falsy_labels", 45),
                    ("rows_compared:combo:same_component_errors", 4),
                    ("polars:rows_compared:combo:same_component_errors", 20),
                    ("rows_compared:combo:repeated_label_errors", 7),
                    ("rows_compared:repeated_labels:no_invalid_row_survives", 30),
                    ("polars:nan:rows_compared", 50),
                    ("polars:nan:rows_compared:no_declared_dtype:schema", 18),
                    ("polars:nan:rows_compared:no_declared_dtype:stand_alone", 15),
                    ("rows_compared:range_index:not_zero_based_or_stepped", 12),
                    ("column:regex:rows_compared", 50), ("column:plain:rows_compared", 18),
                    ("column:regex:rows_compared:violation_in_a_matched_column_that_is_not_the_last", 25),
                    ("column:regex:non_row_error_expected_raise", 8),
                    ("non_row_error_expected_raise:whole_column_check:frame:column", 18),
                    ("non_row_error_expected_raise:whole_column_check:frame:frame", 9),
                    ("non_row_error_expected_raise:whole_column_check:series:column", 4),
                    ("rows_compared:n_failure_cases", 20), ("rows_compared:n_failure_cases:with_drops", 12),
                    ("column_level:rows_compared", 50),
                    ("column_level:rows_compared:with_invalid_rows:pandas", 20),
                    ("column_level:rows_compared:with_invalid_rows:polars", 15),
                    ("config_monitor:validate_calls_bracketed", 700)]:
        run.floors[name] = m
