"""C20 — head/tail/sample validate exactly the requested rows and return the
whole object."""
from __future__ import annotations

import copy

import pandas as pd

from .. import harness as H, model as M, snap as S
from ..evidence import Run, canon_hash
from ..gen import build as B, spec as G
from . import common as C

PID = "C20"
SHARDS = {"quick": 8, "thorough": 16}
N = {"quick": 2400, "thorough": 90000}


def new_run():
    return Run(PID, "exploration",
               "cases = (schema spec, table with duplicate rows and possibly repeated index labels, "
               "options head=h / tail=t / sample=n / random_state=r with h,t,n <= len); the real "
               "validate with the options is compared with the real validate of the explicitly "
               "selected rows (by position: first h, last t, the n positions a position column "
               "samples with the same random_state; each position once); also: result has all rows, "
               "fixed random_state is deterministic, head=len(D) == no option; pandas and polars "
               "(polars schemas carry custom dataframe-level checks that depend on ALL columns shown "
               "to the check function: width, names, horizontal null counts); the explicit-rows "
               "reference runs in a fresh thread; "
               "non-trivial = the selection is a strict subset of the rows and the full-frame and "
               "sub-frame verdicts differ or the data has repeated labels / duplicate rows",
               ["sampled positions are those of pandas.Series.sample / polars.DataFrame.sample on a "
                "position column with the same seed (documented meaning of random_state)"])


def positions(n, h, t, k, r, backend):
    pos = []
    if h is not None:
        pos += list(range(n))[:h]
    if t is not None:
        pos += list(range(n))[n - t:] if t else []
    if k is not None:
        if backend == "pandas":
            pos += pd.Series(range(n)).sample(k, random_state=r).tolist()
        else:
            import polars as pl
            pos += pl.DataFrame({"p": list(range(n))}).sample(k, seed=r)["p"].to_list()
    out = []
    for p in pos:
        if p not in out:
            out.append(p)
    return out


def sub_table(table, pos):
    t = copy.deepcopy(table)
    for c in t["columns"]:
        c["values"] = [c["values"][i] for i in pos]
    if t.get("index"):
        for l in t["index"]["levels"]:
            l["values"] = [l["values"][i] for i in pos]
    return t


def sig(out, with_cells):
    """Comparable signature of an outcome."""
    if out.kind == "exc":
        return ("exc", type(out.exc).__name__)
    if out.accepted:
        return ("ok",)
    errs = []
    for e in out.errors:
        cells = None
        if with_cells and e.cells is not None:
            if e.context in ("Index", "MultiIndex"):
                # index failure cases are keyed by position within the validated
                # rows: compare the failing values only
                cells = tuple(sorted(repr(c[1]) for c in e.cells))
            else:
                cells = tuple(sorted(map(repr, e.cells)))
        scalar = None
        if e.cells is None and e.reason != "CHECK_ERROR":   # CHECK_ERROR text embeds the query plan
            scalar = repr(e.scalar)
        errs.append((e.reason, repr(e.column), e.check_index, cells, scalar))
    return (out.kind, tuple(sorted(errs, key=repr)))


def gen(rng, neutral):
    spec = G.gen_spec(rng, neutral=neutral, kind="frame" if neutral or rng.random() < 0.8 else "series")
    n = rng.choice([3, 4, 5, 6, 7])
    table = G.gen_table(rng, spec, nrows=n)
    # duplicate rows
    if rng.random() < 0.5 and n >= 2:
        i, j = rng.sample(range(n), 2)
        for c in table["columns"]:
            c["values"][j] = c["values"][i]
    # repeated index labels (undeclared index) for pandas
    if not neutral and not spec.get("index") and rng.random() < 0.5:
        labels = [rng.choice([0, 1, 2]) for _ in range(n)]
        table["index"] = {"levels": [{"name": None, "phys": "int64", "values": labels}]}
    G.mutate(rng, spec, table, k=rng.choice([1, 2]))
    n = len(table["columns"][0]["values"]) if table["columns"] else 0
    if neutral and table["columns"] and rng.random() < 0.5:
        # polars: custom dataframe-level checks whose result depends on ALL the
        # columns the check function is shown (number, names, a horizontal
        # aggregate over every column, whatever the types are)
        w = len(table["columns"])
        names = [c["name"] for c in table["columns"]]
        fc = []
        for kind in rng.sample(["width_eq", "columns_eq", "row_null_count_le", "row_non_null_count_le"],
                               rng.randint(1, 2)):
            if kind == "width_eq":
                fc.append({"kind": kind, "value": w if rng.random() < 0.8 else w + rng.choice([-1, 1])})
            elif kind == "columns_eq":
                fc.append({"kind": kind, "value": names if rng.random() < 0.8 else names[::-1] + ["q"]})
            elif kind == "row_null_count_le":
                fc.append({"kind": kind, "value": rng.choice([0, 0, 1, w])})
            else:
                fc.append({"kind": kind, "value": rng.choice([w, w, w - 1, 1])})
        spec["pl_frame_checks"] = fc
    h = rng.choice([None, 0, 1, 2, n]) if n else None
    t = rng.choice([None, None, 0, 1, 2])
    k = rng.choice([None, None, 0, 1, 2, n])
    r = rng.choice([0, 1, 7, 42])
    for name in ("h", "t", "k"):
        pass
    h = None if h is None else min(h, n)
    t = None if t is None else min(t, n)
    k = None if k is None else min(k, n)
    if h is None and t is None and k is None:
        h = min(1, n)
    # falsy-but-legal labels (pandas only)
    spec["_relabelled"] = bool(G.relabel(rng, spec, table, p=0.2, polars=neutral))
    return spec, table, h, t, k, r


def classify(backend, spec, table, pos, h, t, k, detail):
    n = len(table["columns"][0]["values"]) if table["columns"] else 0
    if backend == "pandas":
        ix = table.get("index")
        if ix:
            labels = [tuple(l["values"][i] for l in ix["levels"]) for i in range(n)]
            sel = [labels[i] for i in pos]
            if len(set(sel)) != len(sel):
                return "pandas-subsample-drops-rows-with-repeated-index-labels"
    else:
        rows = [tuple(c["values"][i] for c in table["columns"]) for i in range(n)]
        sel = [rows[i] for i in pos]
        if len(set(sel)) != len(sel):
            return "polars-subsample-unique-drops-duplicate-rows"
        if k is not None:
            return None
    return None


def one(run, rng, backend):
    neutral = backend != "pandas"
    spec, table, h, t, k, r = gen(rng, neutral)
    if neutral and C.has_dup_labels(table):
        return
    n = len(table["columns"][0]["values"]) if table["columns"] else 0
    if not table["columns"]:
        return
    try:
        if backend == "pandas":
            mk = lambda: B.pandas_schema(spec)
            data = B.pandas_table(spec, table)
            pos = positions(n, h, t, k, r, backend)
            sub = B.pandas_table(spec, sub_table(table, pos))
        else:
            mk = lambda: B.polars_schema(spec)
            data = B.polars_table(table)
            pos = positions(n, h, t, k, r, backend)
            sub = B.polars_table(sub_table(table, pos))
    except Exception as e:
        run.count(f"build_error:{type(e).__name__}")
        return
    kw = {}
    if h is not None:
        kw["head"] = h
    if t is not None:
        kw["tail"] = t
    if k is not None:
        kw["sample"] = k
        kw["random_state"] = r
    lazy = rng.random() < 0.7
    o_opt = H.run_validate(mk(), data, lazy=lazy, **kw)
    # reference side (explicitly selected rows, the whole frame) in a fresh
    # thread: not influenced by what earlier validations left in this thread
    o_sub, o_full = H.pristine(lambda: (H.run_validate(mk(), sub, lazy=lazy),
                                        H.run_validate(mk(), data, lazy=lazy)))
    strict_subset = len(pos) < n
    run.case(canon_hash([backend, spec, table, kw, lazy]),
             strict_subset,
             sample={"backend": backend, "spec": spec, "table": table, "options": kw,
                     "positions": pos, "with_options": o_opt.kind, "explicit_subframe": o_sub.kind,
                     "full": o_full.kind})
    for name in kw:
        run.count(f"option:{name}")
    run.count(f"{backend}:compared")
    if spec.get("pl_frame_checks"):
        run.count("polars:frame_level_custom_check")
        if len(kw) - ("random_state" in kw) == 1:
            run.count("polars:frame_level_custom_check:exactly_one_of_head_tail_sample")
    if spec.get("_relabelled"):
        run.count("labels:falsy_label_case")
    if strict_subset and sig(o_full, False) != sig(o_sub, False):
        run.count(f"{backend}:discriminating(full!=sub)")
    if "exc" in (o_sub.kind, o_full.kind):
        run.count("undecided:explicit_validation_raised_internal_exception(C06)")
        return
    if o_opt.kind == "exc":
        mech = None
        if backend != "pandas" and k is not None and "sample" in repr(o_opt.exc):
            mech = "polars-sample-option-AttributeError-on-lazyframe"
        run.violation("options-raise-internal-exception",
                      C.brief(spec, table, {"backend": backend, "options": kw,
                                            "exc": repr(o_opt.exc)[:200]}), mech)
        return
    # verdict and failing cells.  Cell labels are comparable when labels are
    # unique among the selected rows; reason/column/check always are.
    ix = table.get("index")
    uniq_labels = True
    if backend == "pandas" and ix:
        labels = [tuple(l["values"][i] for l in ix["levels"]) for i in range(n)]
        uniq_labels = len({labels[i] for i in pos}) == len(pos)
    order_free = all(fs.get("report_duplicates", "all") == "all" for fs in
                     (spec["columns"] if spec["kind"] == "frame" else [spec["field"]])) \
        and spec.get("report_duplicates", "all") == "all"
    # positions in the explicit sub-frame are re-numbered (RangeIndex): cells
    # are only comparable when the table carries explicit labels
    with_cells = backend == "pandas" and bool(ix) and uniq_labels and order_free
    a, b = sig(o_opt, with_cells), sig(o_sub, with_cells)
    run.count("verdict_compared")
    if with_cells:
        run.count("cells_compared")
    if a != b:
        detail = {"backend": backend, "options": kw, "positions": pos, "lazy": lazy,
                  "with_options": a, "explicit_subframe": b}
        run.violation("subsample-verdict-differs-from-explicit-rows",
                      C.brief(spec, table, detail),
                      classify(backend, spec, table, pos, h, t, k, detail))
        return
    # result has all rows (and equals the un-optioned result when both accept)
    if o_opt.accepted:
        run.count("result_rows_checked")
        res_n = len(o_opt.result) if backend == "pandas" else o_opt.result.height
        if res_n != n:
            run.violation("result-does-not-have-all-rows",
                          C.brief(spec, table, {"backend": backend, "options": kw, "rows": res_n}), None)
    # determinism
    if k is not None:
        o_again = H.run_validate(mk(), data, lazy=lazy, **kw)
        run.count("determinism_checked")
        if sig(o_again, True) != sig(o_opt, True):
            run.violation("fixed-random_state-not-deterministic",
                          C.brief(spec, table, {"backend": backend, "options": kw}), None)
    # head=len(D) == no option
    if n:
        o_all = H.run_validate(mk(), data, lazy=lazy, head=n)
        run.count("select_all_checked")
        if sig(o_all, True) != sig(o_full, True):
            run.violation("selecting-all-rows-differs-from-no-option",
                          C.brief(spec, table, {"backend": backend, "head": n,
                                                "all": sig(o_all, True), "none": sig(o_full, True)}),
                          classify(backend, spec, table, list(range(n)), n, None, None, {}))


def run(run, ctx):
    for i in ctx.cases(N[ctx.tier]):
        rng = ctx.rng(PID, i)
        one(run, rng, "polars" if i % 3 == 2 else "pandas")
        C.report_context_leaks(run, {"case": i})
    C.finish_context_monitor(run)


def finalize(run, ctx):
    for name, m in [("verdict_compared", 500), ("cells_compared", 40), ("result_rows_checked", 150),
                    ("determinism_checked", 100), ("select_all_checked", 400),
                    ("pandas:discriminating(full!=sub)", 50), ("polars:discriminating(full!=sub)", 20),
                    ("option:head", 100), ("option:tail", 100), ("option:sample", 100),
                    ("config_monitor:validate_calls_bracketed", 2500),
                    ("polars:frame_level_custom_check", 70),
                    ("polars:frame_level_custom_check:exactly_one_of_head_tail_sample", 15),
                    ("labels:falsy_label_case", 70)]:
        run.floors[name] = m
