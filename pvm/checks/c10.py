"""C10 — coercion contract.

Runs the real ``try_coerce`` of every DataType class registered with the
pandas (+pyarrow), numpy and polars engines on generated containers and
observes it in two ways:

* icontract post-conditions applied from the harness to ``try_coerce`` of
  every registered class (``pvm/c10_contracts.py``): same length / labels,
  result passes the type's own ``check``, no individually unconvertible value
  turned into a missing value; evaluations are counted per class, a
  class with zero evaluations is "not reached" (floor);
* the driver's own element-wise oracle around direct calls:
    success  S1 same length and labels            S2 T.check(dtype(c'), c')
             S3 c'[i] == input == coerce_value(c[i]) for *exactly*
                convertible c[i]; nulls stay null where T can hold them
             S4 an element the type itself rejects (coerce_value raises / the
                python-generic per-element conversion answers NA) is never a
                missing value of a returned container: it has to be named by
                a ParserError.  Judged for every element whatever its
                neighbours are (a missing value elsewhere in the container
                included); also a post-condition on every try_coerce call
             S5 try_coerce(c') == c'
    failure  F1 the exception is a ParserError
             F2 failure_cases == the elements whose individual conversion
                (coerce_value; polars: coerce of the one-row slice) fails
* the schema-level paths Column(T, coerce=True) in a DataFrameSchema (eager and
  lazy), SeriesSchema, Index, frame-level dtype=, and the polars
  DataFrameSchema: a ParserError must surface as SchemaError with reason
  DATATYPE_COERCION carrying the same failure cases; a successful coercion
  must not be followed by a coercion or dtype error.
"""
from __future__ import annotations

import warnings
from collections import Counter

import numpy as np
import pandas as pd

from .. import c10_contracts as K, c10_gen as G, harness as H
from ..c09_engines import PolarsAdapter
from ..evidence import Run, canon_hash

PID = "C10"
SHARDS = {"quick": 6, "thorough": 16}
SHARD_TIMEOUT = {"quick": 400, "thorough": 1700}
N_PER_TYPE = {"quick": 48, "thorough": 900}


def new_run():
    return Run(
        PID, "exploration",
        "case = (dtype instance of a registered class, generated container: "
        "flavour, physical dtype, values incl. width limits / 2**53+-1 / NaN / "
        "inf / numeric and non-numeric strings / timestamps / Decimal / nulls, "
        "shape Series|Index|DataFrame|ndarray|polars column); non-trivial = "
        "try_coerce was invoked and at least one deciding clause (S2..S5, F2) "
        "was evaluated on it; distinct = hash of (dtype label, container "
        "description)",
        ["S4 (no unconvertible value silently nulled) uses the type's own "
         "coerce_value on both boxings of the cell as the reference; a string "
         "that pandas reads as a missing-value marker ('', 'nan', 'None', '<NA>', "
         "'NaT', ...) coming back as a missing value is counted, not judged; "
         "a nulled cell is not judged either when coerce_value also rejects a "
         "cell of the same python class that the same coercion turned into a "
         "value (coerce_value is then no description of what the container "
         "conversion accepts: pyarrow scalars / np.timedelta64 reject every "
         "string / float); "
         "a nulled cell for which coerce_value answers a value (int64 -2**63 "
         "read back as NaT from a pyarrow duration) is counted, not judged",
         "'exact conversion' is decided by pvm/c10_gen.exact (value preserving "
         "conversions only); lossy numeric coercion is not judged",
         "individual convertibility = the type's own coerce_value (pandas / "
         "numpy), coerce of the one-row slice (polars)",
         "a null among the failure cases of a type that can hold nulls is not "
         "judged for pandas (statement and quantifier disagree), judged for polars",
         "polars: the rows holding a null are not judged when polars has no "
         "cast at all between the column's dtype and T (it lets all-null "
         "columns through, so the one-row reference is an artefact)",
         "the value returned by coerce_value is compared with the container "
         "result only when it is a value of T (numpy answers "
         "np.timedelta64(pd.Timedelta) in microseconds: not judged)",
         "pandera.engines.pyarrow_engine is imported up front so that both "
         "copies of the Arrow* classes are enumerated deterministically"])


# ---------------------------------------------------------------------------
def cname(t):
    c = type(t)
    return f"{c.__module__.split('.')[-1]}.{c.__name__}"


S2_KINDS = ("coerced-result-fails-own-check", "contract:result_passes_own_check",
            "schema-level:coerced-data-rejected-by-dtype-check")
F2_KINDS = ("failure-cases-differ-from-unconvertible-elements",
            "parser-output-rows-differ-from-unconvertible-rows",
            "schema-level:failure-cases-differ-from-ParserError")


S4_KINDS = ("unconvertible-value-silently-became-null",
            "contract:no_unconvertible_value_silently_nulled")


def _float_beyond_int64(text):
    """the witness names a float cell that has no int64 image (vrepr 'float:...')"""
    import re
    m = re.search(r"float:(-?inf|-?[0-9.]+(?:e[+-]?[0-9]+)?)",
                  text if isinstance(text, str) else "")
    if not m:
        return False
    f = float(m.group(1))
    return f in (float("inf"), float("-inf")) or f <= -2.0**63 or f >= 2.0**63


def mech(kind, w):
    """Mechanism classifier: names the call site from the witness."""
    cls = w.get("class", "")
    short = cls.split(".")[-1]
    cont = w.get("container") or (w.get("context") or {}).get("container") or {}
    in_dtype = str(cont.get("dtype", ""))
    if kind in S4_KINDS and short == "Timedelta64" and _float_beyond_int64(
            w.get("detail") if kind.startswith("contract:") else w.get("input")):
        # Series.astype('timedelta64[ns]') of a float container goes through
        # an int64 cast: inf / -inf / <= -2**63 land on the NaT sentinel
        return "numpy-timedelta-coerce-of-float-overflowing-int64-yields-nat"
    if kind in S4_KINDS and short == "ArrowNull" and "category" in (
            in_dtype, str(cont.get("dtype2", ""))):
        # Categorical.astype(ArrowDtype(null)) casts the dictionary-encoded
        # array: pyarrow answers with an all-null array instead of raising
        return "arrow-null-coerce-of-categorical-nulls-every-value"
    empty = cont.get("values") == [] and cont.get("values2", []) == []
    exc = w.get("exc", "")
    if short == "ArrowDictionary" and kind in S2_KINDS:
        return "arrow-dictionary-coerce-result-fails-own-check"
    if kind in S2_KINDS and cls == "pandas_engine.Date" and cont.get("values") and \
            all(v == "<null>" for v in cont["values"] + cont.get("values2", [])):
        return "pandas-date-coerce-of-all-null-yields-datetime64"
    if kind in S2_KINDS and cls == "pandas_engine.DateTime" and empty and \
            cont.get("shape") == "frame":
        return "pandas-datetime-coerce-of-empty-frame-not-converted"
    if kind in S2_KINDS and cls == "pandas_engine.Decimal" and (
            in_dtype == "category" or "category" in str(
                (w.get("output") or {}).get("dtype", ""))):
        # Series.apply on a categorical answers with a categorical
        return "pandas-decimal-coerce-of-categorical-keeps-category-dtype"
    if kind in S2_KINDS and cls == "pandas_engine.Decimal":
        return "pandas-decimal-check-counts-sign-and-leading-zero"
    if kind == "coerce_value-disagrees-with-coerce" and short == "Timedelta64" and \
            w.get("coerce_value", "").startswith("td:"):
        return "timedelta-coerce_value-truncates-nanoseconds"
    MASKED = ("Int8", "Int16", "Int32", "Int64", "UInt8", "UInt16",
              "UInt32", "UInt64", "Float32", "Float64", "boolean")
    masked_with_na = (
        (in_dtype in MASKED and "<null>" in cont.get("values", [])) or
        (str(cont.get("dtype2")) in MASKED and "<null>" in cont.get("values2", [])))
    if kind == "failure-cases-differ-from-unconvertible-elements" and masked_with_na \
            and not cls.startswith("polars_engine."):
        # Series.map on a masked array that holds NA hands float64 / nan cells
        # to coerce_value instead of the stored cells
        return "coercible-map-reboxes-masked-array-with-na-as-float"
    out_dtypes = str((w.get("output") or {}).get("dtype", "")) + \
        str((w.get("output") or {}).get("dtypes", ""))
    if kind in S2_KINDS and cls == "pandas_engine.Date" and "datetime64[ns]" in out_dtypes:
        return "pandas-date-coerce-of-all-null-yields-datetime64"
    if kind in S2_KINDS + ("not-idempotent",) and cls == "numpy_engine.Bool" and \
            in_dtype == "category" and "<null>" in cont.get("values", []):
        return "numpy-bool-coerce-of-categorical-with-null-yields-object"
    if cls.startswith("pandas_engine.Python"):
        allnull = all(v == "<null>" for v in cont.get("values", []) + cont.get("values2", []))
        if kind in S2_KINDS + ("not-idempotent",) and (empty or allnull):
            # Series.map over nothing / only nulls does not produce object dtype
            return "python-generic-coerce-of-empty-or-all-null-container-keeps-dtype"
        if kind == "failure-cases-differ-from-unconvertible-elements" and \
                not w.get("reported") and w.get("expected"):
            return "python-generic-failure-cases-report-coerced-na"
    if cls.startswith("polars_engine."):
        if in_dtype.startswith("Struct(") and not cls.endswith((".Struct", ".Object")) \
                and kind in S2_KINDS + F2_KINDS:
            return "polars-struct-input-cast-applies-to-fields"
        if short == "Category" and kind in S2_KINDS:
            return "polars-category-coerced-result-fails-own-check"
        if short == "Category" and (
                kind == "try_coerce-raised-non-ParserError" or
                (kind.startswith("contract:") and "condition raised" in str(w.get("detail")))):
            # failure path builds `LazyFrame & LazyFrame`; coerce casts the
            # whole frame (ignores the column key) and is never collected
            return "polars-category-try_coerce-raises-raw-errors"
        if kind == "failure-cases-include-null-input":
            return "polars-failure-cases-include-null-inputs"
        if short == "Decimal" and kind in F2_KINDS and in_dtype.startswith(
                ("Duration", "Time", "Date", "Boolean")):
            # coerce casts via Float64, the failure cases come from a direct
            # cast, which polars does not have for temporal / boolean columns
            return "polars-decimal-failure-cases-use-another-cast-route-than-coerce"
    if kind == "try_coerce-raised-non-ParserError":
        where = w.get("where", "")
        if "type of data_container <class 'pandas.core.indexes." in exc and \
                where.endswith("numpy_pandas_coerce_failure_cases"):
            return "coerce-failure-cases-index-subclass-not-understood"
        if where.endswith("_get_series_failure_cases") and cont.get("shape") == "index":
            # Index.to_series() makes the (unhashable / incomparable) values the labels
            return "coerce-failure-cases-index-values-used-as-labels"
        post = where.endswith(("postprocess_field", "postprocess_table"))
        if post and "Categorical" in exc and in_dtype == "category":
            return "coerce-failure-cases-categorical-input"
        if exc.startswith("Arrow") and where.endswith("postprocess_table") and \
                "[pyarrow]" in in_dtype + str(cont.get("dtype2", "")):
            return "coerce-failure-cases-frame-with-arrow-columns"
    return None


def viol(run, kind, w):
    run.violation(kind, w, mech(kind, w))


def safe(f, *a, **k):
    try:
        return True, f(*a, **k)
    except Exception as e:  # noqa
        return False, e


def exc_s(e):
    return f"{type(e).__name__}: {str(e)[:200]}"


# ---------------------------------------------------------------------------
# pandas / numpy
# ---------------------------------------------------------------------------
class Unreadable(Exception):
    """The container's cells cannot be materialised as python objects."""


def elements(c):
    """python-boxed and numpy-boxed elements of a 1-D container."""
    try:
        return _elements(c)
    except Exception as e:  # e.g. pyarrow duration too large for as_py()
        raise Unreadable(repr(e)[:200]) from e


def _elements(c):
    if isinstance(c, np.ndarray):
        return c.tolist(), [c[i] for i in range(len(c))]
    s = c.to_series(index=range(len(c))) if isinstance(c, pd.Index) else c
    return s.tolist(), [s.iloc[i] for i in range(len(s))]


def fails_individually(t, v):
    with warnings.catch_warnings():
        warnings.simplefilter("ignore")
        try:
            t.coerce_value(v)
            return False
        except Exception:
            return True


def individual_failures(t, c):
    """positions whose coerce_value fails; None when the two boxings disagree."""
    if _is_generic(t):
        py, _ = elements(c)
        return [i for i, v in enumerate(py)
                if not G.is_null(v) and G.is_null(_coerce_element(t, v))], py
    py, npb = elements(c)
    a = [fails_individually(t, v) for v in py]
    b = [fails_individually(t, v) for v in npb]
    if a != b:
        return None, py
    return [i for i, x in enumerate(a) if x], py


def _is_generic(t):
    from pandera.engines import pandas_engine as pe
    return isinstance(t, pe.PythonGenericType)


def _coerce_element(t, v):
    try:
        return t._coerce_element(v)
    except Exception:
        return pd.NA


def _num_token(r):
    """frame-level reports upcast ints beside NaN to float: compare by value."""
    if r.startswith("int:"):
        try:
            return f"num:{float(int(r[4:]))!r}"
        except OverflowError:
            return r
    if r.startswith("float:"):
        return "num:" + r[6:]
    return r


def fc_values(fc, frame=False):
    """failure_cases -> (list of value reprs, list of index labels or None)."""
    if fc is None:
        return [], []
    if isinstance(fc, pd.DataFrame):
        raw = fc["failure_case"].tolist()
        if frame and "column" in fc.columns and \
                any(c == "failure_case" for c in fc["column"].tolist()):
            # frame-level report of numpy_pandas_coerce_failure_cases: one dict
            # {column: cell} per row, under the pseudo column "failure_case"
            # (a dict-valued *cell* of a per-cell report is a value, not a row)
            return [G.vrepr(x) for v, c in zip(raw, fc["column"].tolist())
                    for x in (v.values() if c == "failure_case" and isinstance(v, dict)
                              else [v])], None
        vals = [G.vrepr(v) for v in raw]
        idx = [G.vrepr(i) for i in fc["index"].tolist()] if "index" in fc else None
        return vals, idx
    if isinstance(fc, pd.Series):
        return [G.vrepr(v) for v in fc.tolist()], [G.vrepr(i) for i in fc.index]
    return [repr(fc)], None


def columns_of(c):
    if isinstance(c, pd.DataFrame):
        return [(str(col), c.iloc[:, i]) for i, col in enumerate(c.columns)]
    return [(None, c)]


def allowed_shapes(t):
    from pandera.engines import pandas_engine as pe
    if isinstance(t, pe.PydanticModel):
        return ("frame",)
    if isinstance(t, pe.PythonGenericType):
        return ("series", "frame")       # an Index of dicts / lists is not a thing
    if type(t).__module__.endswith("numpy_engine"):
        return ("series", "index", "frame", "ndarray")
    return ("series", "index", "frame")


def pandas_case(run, rec, label, t, rng):
    from pandera.errors import ParserError
    kind, extra = G.pandas_kind(t)
    c, desc = G.gen_pandas_container(rng, kind)
    if desc["shape"] not in allowed_shapes(t):
        if "series" in allowed_shapes(t):
            c = pd.Series(list(c), dtype=object if c.dtype == object else None)
            desc["shape"] = "series"
        else:
            c = pd.DataFrame({"a": c if not isinstance(c, np.ndarray) else list(c)})
            desc["shape"] = "frame"
    eng = "numpy" if type(t).__module__.endswith("numpy_engine") else "pandas"
    cn = cname(t)
    from pandera.engines import pandas_engine as _pe
    if type(t) not in _pe.Engine._registered_dtypes:
        # Bytes / numpy String / DateTime64: registered with the numpy engine
        # only; the property quantifies over the pandas and polars engines.
        # They are still driven (contracts count them) but not judged.
        run.count(f"undecided:numpy-only-class:{cn}")
        K.REC.enabled = False
        try:
            with warnings.catch_warnings():
                warnings.simplefilter("ignore")
                safe(t.try_coerce, c)
        finally:
            K.REC.enabled = True
        K.REC.calls[("numpy", cn)] += 1
        run.case([label, desc], False)
        return
    base = {"class": cn, "dtype": label, "container": desc}
    rec.context = {"dtype": label, "container": desc}
    judged = 0
    run.count(f"{eng}:try_coerce")
    run.count(f"shape:{desc['shape']}")
    run.count(f"flavour:{desc['flavour']}")
    with warnings.catch_warnings():
        warnings.simplefilter("ignore")
        snap_in = _cheap_snap(c)
        try:
            out = t.try_coerce(c)
            status, err = "ok", None
        except ParserError as e:
            out, status, err = None, "parser", e
        except Exception as e:  # noqa
            out, status, err = None, "other", e

        if _cheap_snap(c) != snap_in:
            run.count("undecided:input-mutated-by-try_coerce(C04)")

        if status == "other":
            run.count(f"{eng}:raised_other")
            viol(run, "try_coerce-raised-non-ParserError", dict(base, exc=exc_s(err),
                                                              where=H.exc_sig(err)))
            judged += 1
        elif status == "ok":
            run.count(f"{eng}:success")
            judged += pandas_success(run, eng, t, kind, extra, c, out, base)
        else:
            run.count(f"{eng}:parser_error")
            judged += pandas_failure(run, eng, t, c, err, base)

        if eng == "pandas" and status in ("ok", "parser"):
            judged += pandas_schema_level(run, t, c, out, status, err, base, rng)
    run.case([label, desc], judged > 0,
             sample={"dtype": label, "container": desc, "status": status})


def _cheap_snap(c):
    try:
        if isinstance(c, pd.DataFrame):
            return (tuple(map(str, c.dtypes)), repr(c.values.tolist()), repr(list(c.index)))
        if isinstance(c, np.ndarray):
            return (str(c.dtype), repr(c.tolist()))
        return (str(c.dtype), repr(c.tolist()), repr(list(getattr(c, "index", []))))
    except Exception:
        return None


def pandas_success(run, eng, t, kind, extra, c, out, base):
    n = 0
    # S1
    run.count(f"{eng}:S1_length_labels")
    ok = len(out) == len(c) and (
        isinstance(out, pd.Index) if isinstance(c, pd.Index)
        else type(out).__name__ == type(c).__name__)
    if ok and isinstance(c, (pd.Series, pd.DataFrame)):
        ok = list(out.index) == list(c.index)
    if ok and isinstance(c, pd.DataFrame):
        ok = list(out.columns) == list(c.columns)
    if ok and isinstance(c, (pd.Series, pd.Index)):
        ok = repr(out.name) == repr(c.name)
    if not ok:
        viol(run, "length-or-labels-changed", dict(base, output=K._brief(out)))
    n += 1
    # S2
    run.count(f"{eng}:S2_own_check")
    okc, r = safe(K.pandas_dtype_check, t, out)
    if K.unhashable_dtype(out):
        # pandas cannot hash a CategoricalDtype whose categories mix tuples
        # with other values; no registry can look such a dtype object up
        run.count("undecided:result-dtype-object-is-not-hashable(pandas)")
    elif not okc:
        viol(run, "own-check-raises-on-coerced-result",
             dict(base, output=K._brief(out), exc=exc_s(r)))
    elif not r:
        viol(run, "coerced-result-fails-own-check", dict(base, output=K._brief(out)))
    # S3
    if isinstance(c, np.ndarray):
        run.count("undecided:ndarray-cells(numpy-astype-of-pandas-scalars)")
    for (col, cin), (_, cout) in ([] if isinstance(c, np.ndarray) else
                                  zip(columns_of(c), columns_of(out))):
        vin, _ = elements(cin)
        vout, _ = elements(cout)
        # S4: an element that cannot be converted individually is named by a
        # ParserError, it does not vanish from a "successful" result (judged
        # for every element, whatever its neighbours are)
        held, nulled = K.silently_nulled(t, cin, cout)
        run.count(f"{eng}:S4_value_not_silently_nulled", held)
        if held:
            n += 1
            cls_ = "with-null" if len(vin) > held else "no-null"
            run.count(f"{eng}:S4_containers:{cls_}")
        for i, v, verdict in nulled:
            if verdict == "unconvertible":
                viol(run, "unconvertible-value-silently-became-null",
                     dict(base, position=i, column=col, input=G.vrepr(v),
                          output=K._brief(out)))
            elif verdict == "null-by-coerce_value":
                run.count(f"{eng}:S4_nulled_like_coerce_value")
            elif verdict == "text-na-marker":
                run.count("undecided:text-na-marker-became-null")
            elif verdict == "reference-stricter-than-coerce":
                run.count("undecided:nulled-value-of-a-class-coerce_value-rejects-"
                          f"but-coerce-converts:{cname(t)}")
            else:
                run.count(f"undecided:nulled-value-coerce_value-not-conclusive:{cname(t)}")
        all_exact = kind is not None and all(
            G.is_null(v) or G.exact(kind, extra, v)[0] for v in vin)
        for i, v in enumerate(vin):
            if G.is_null(v):
                if not _null_judgeable(cin, kind):
                    run.count("undecided:null-of-foreign-typed-input(pandas-astype)")
                elif not all_exact:
                    run.count("undecided:null-beside-inexact-elements")
                elif G.can_hold_null(t) and kind != "object":
                    run.count(f"{eng}:S3_null_elements")
                    if not G.is_null(vout[i]):
                        viol(run, "null-not-preserved",
                             dict(base, position=i, column=col, got=G.vrepr(vout[i]),
                                  output=K._brief(out)))
                elif not G.can_hold_null(t):
                    run.count("undecided:null-into-non-nullable-type-succeeded")
                continue
            if kind is None:
                continue
            ex, want = G.exact(kind, extra, v)
            if not ex or not all_exact:
                # a container with a lossy / foreign element may take another
                # conversion path in pandas / pyarrow: not judged
                run.count(f"{eng}:S3_inexact_elements_not_judged")
                continue
            run.count(f"{eng}:S3_exact_elements")
            n += 1
            if not G.values_equal(vout[i], want):
                viol(run, "exact-value-changed",
                     dict(base, position=i, column=col, input=G.vrepr(v),
                          expected=G.vrepr(want), got=G.vrepr(vout[i]),
                          output=K._brief(out)))
                continue
            okv, cv = (False, None) if kind == "object" else safe(t.coerce_value, v)
            if okv and not G.is_null(cv) and not _same_numpy_type(t, cv):
                # numpy's scalar constructor answered with another dtype / unit
                # than T (np.timedelta64(pd.Timedelta) is read as a
                # datetime.timedelta, in microseconds): not a value of T, and
                # the statement does not constrain coerce_value's return value
                run.count("undecided:coerce_value-returned-another-numpy-dtype-than-T")
            elif okv and not G.is_null(cv):
                run.count(f"{eng}:S3_vs_coerce_value")
                if not G.values_equal(cv, want):
                    viol(run, "coerce_value-disagrees-with-coerce",
                         dict(base, position=i, input=G.vrepr(v),
                              container_result=G.vrepr(vout[i]),
                              coerce_value=G.vrepr(getattr(cv, "as_py", lambda: cv)())))
    # S5
    run.count(f"{eng}:S5_idempotent")
    ok2, out2 = safe(t.try_coerce, out)
    if not ok2:
        viol(run, "recoercing-coerced-result-fails",
             dict(base, output=K._brief(out), exc=exc_s(out2)))
    else:
        d = same_container(out, out2)
        if d == "null-representation":
            run.count("undecided:idempotence-null-representation")
        elif d:
            viol(run, "not-idempotent", dict(base, output=K._brief(out),
                                             again=K._brief(out2), diff=d))
    return n + 1


def _same_numpy_type(t, cv):
    """False when coerce_value returned a numpy scalar of another dtype (unit)
    than the numpy dtype T stands for; True for everything else."""
    nt = getattr(t, "type", None)
    if isinstance(nt, np.dtype) and isinstance(cv, np.generic) and nt.kind in "mM":
        return cv.dtype == nt
    return True


def _null_judgeable(cin, kind):
    """A missing value of a datetime / timedelta / categorical container that
    is cast to another kind goes through pandas' integer view: not judged."""
    d = str(getattr(cin, "dtype", "object"))
    if d == "category":
        return False
    if d.startswith("datetime64"):
        return kind in ("datetime", "date", "str", "object")
    if d.startswith("timedelta64"):
        return kind in ("timedelta", "str", "object")
    return True


def same_container(a, b):
    """None when equal; a description otherwise."""
    if (type(a).__name__ != type(b).__name__ and not (
            isinstance(a, pd.Index) and isinstance(b, pd.Index))) or len(a) != len(b):
        return "container kind or length"
    for (_, ca), (_, cb) in zip(columns_of(a), columns_of(b)):
        da, db = getattr(ca, "dtype", None), getattr(cb, "dtype", None)
        if str(da) != str(db):
            return f"dtype {da} -> {db}"
        va, _ = elements(ca)
        vb, _ = elements(cb)
        nullrep = False
        for x, y in zip(va, vb):
            if G.is_null(x) and G.is_null(y):
                nullrep = nullrep or (type(x) is not type(y))
                continue
            if G.vrepr(x) != G.vrepr(y):
                return f"value {G.vrepr(x)} -> {G.vrepr(y)}"
    if isinstance(a, (pd.Series, pd.DataFrame)) and list(a.index) != list(b.index):
        return "index"
    return None


def pandas_failure(run, eng, t, c, err, base):
    from pandera.engines import pandas_engine as pe
    if isinstance(t, pe.PydanticModel):
        run.count("undecided:pydantic-row-failure-cases")
        return 0
    if isinstance(c, np.ndarray) and c.dtype == object:
        run.count("undecided:object-ndarray-is-reboxed-by-pandas")
        return 0
    fc = err.failure_cases
    got_vals, got_idx = fc_values(fc, frame=isinstance(c, pd.DataFrame))
    exp_vals, exp_idx, undecided = [], [], False
    # in a frame-level report a null cell cannot be told from a passing cell
    nullable = G.can_hold_null(t) or isinstance(c, pd.DataFrame)
    for col, cin in columns_of(c):
        pos, py = individual_failures(t, cin)
        if pos is None:
            undecided = True
            break
        labels = list(cin.index) if isinstance(cin, pd.Series) else py
        for i in pos:
            if nullable and G.is_null(py[i]):
                continue
            exp_vals.append(G.vrepr(py[i]))
            exp_idx.append(G.vrepr(labels[i]))
    if undecided:
        run.count("undecided:element-boxing-changes-coerce_value")
        return 0
    if nullable:
        keep = [j for j, v in enumerate(got_vals) if v != "<null>"]
        if len(keep) != len(got_vals):
            run.count("undecided:null-listed-as-failure-case-of-nullable-type")
        got_vals = [got_vals[j] for j in keep]
        got_idx = [got_idx[j] for j in keep] if got_idx is not None else None
    if isinstance(c, pd.DataFrame):
        got_vals = [_num_token(v) for v in got_vals]
        exp_vals = [_num_token(v) for v in exp_vals]
    run.count(f"{eng}:F2_failure_cases")
    if exp_vals and any(G.is_null(v) for _, cin in columns_of(c) for v in elements(cin)[0]):
        # the input class on which an element-wise test and a whole-container
        # reduction part: a missing value next to an unconvertible element
        run.count(f"{eng}:F2_null_beside_unconvertible")
        run.count(f"{eng}:F2_null_beside_unconvertible:{G.pandas_kind(t)[0]}")
    if not exp_vals:
        run.count(f"{eng}:F2_container_failed_all_elements_convertible")
    if Counter(got_vals) != Counter(exp_vals):
        viol(run, "failure-cases-differ-from-unconvertible-elements",
             dict(base, reported=sorted(got_vals), expected=sorted(exp_vals),
                  message=str(err)[:200]))
    elif got_idx is not None and not isinstance(c, (pd.Index, np.ndarray)) and \
            Counter(got_idx) != Counter(exp_idx):
        viol(run, "failure-case-labels-differ",
             dict(base, reported=sorted(got_idx), expected=sorted(exp_idx)))
    return 1


def norm_fc(fc):
    vals, idx = fc_values(fc)
    return sorted(zip(vals, idx or [""] * len(vals)))


def pandas_schema_level(run, t, c, out, status, err, base, rng):
    import pandera as pa
    if isinstance(c, np.ndarray):
        return 0
    n = 0
    lazy = rng.random() < 0.4
    paths = []
    if isinstance(c, pd.Series):
        s = c.rename("c")
        paths.append(("column-in-frame",
                      lambda: pa.DataFrameSchema({"c": pa.Column(t, coerce=True, nullable=True)}),
                      s.to_frame()))
        paths.append(("series-schema",
                      lambda: pa.SeriesSchema(t, coerce=True, nullable=True), c))
    elif isinstance(c, pd.Index):
        paths.append(("index",
                      lambda: pa.DataFrameSchema(index=pa.Index(t, coerce=True, nullable=True)),
                      pd.DataFrame({"x": range(len(c))}, index=c)))
    else:
        paths.append(("frame-dtype",
                      lambda: pa.DataFrameSchema(dtype=t, coerce=True), c))
    for pname, mk, data in paths:
        oks, schema = safe(mk)
        if not oks:
            run.count(f"schema_level:{pname}:schema-not-constructible")
            continue
        o = H.run_validate(schema, data, lazy=lazy)
        run.count(f"schema_level:pandas:{pname}:{'lazy' if lazy else 'eager'}")
        w = dict(base, path=pname, lazy=lazy, direct_status=status)
        if o.kind == "exc":
            run.count(f"schema_level:{pname}:internal-exception(C06)")
            continue
        reasons = o.reasons()
        coercion = [e for e in (o.exc.schema_errors if o.kind == "SchemaErrors" else
                                [o.exc] if o.kind == "SchemaError" else [])
                    if e.reason_code.name == "DATATYPE_COERCION"]
        n += 1
        if status == "parser":
            run.count("schema_level:pandas:expect_coercion_error")
            if o.kind == "ok":
                viol(run, "schema-level:uncoercible-data-accepted",
                     dict(w, result=K._brief(o.result)))
                continue
            if not coercion:
                viol(run, "schema-level:coercion-failure-reported-under-other-reason",
                     dict(w, reasons=reasons))
                continue
            run.count("schema_level:pandas:reason_DATATYPE_COERCION")
            got = norm_fc(coercion[0].failure_cases)
            want = norm_fc(err.failure_cases)
            if got != want:
                viol(run, "schema-level:failure-cases-differ-from-ParserError",
                     dict(w, schema_error=got[:10], parser_error=want[:10]))
        else:
            run.count("schema_level:pandas:expect_no_coercion_error")
            if coercion:
                viol(run, "schema-level:coercible-data-rejected-with-coercion-error",
                     dict(w, failure_cases=norm_fc(coercion[0].failure_cases)[:10]))
            elif "WRONG_DATATYPE" in reasons:
                viol(run, "schema-level:coerced-data-rejected-by-dtype-check",
                     dict(w, reasons=reasons, output=K._brief(out)))
            elif o.kind != "ok":
                run.count(f"schema_level:{pname}:other-reasons:{','.join(reasons)}")
    return n


# ---------------------------------------------------------------------------
# polars
# ---------------------------------------------------------------------------
_PL = None


def pl_kind(t):
    global _PL
    from pandera.engines import polars_engine as ple
    if _PL is None:
        _PL = PolarsAdapter()
    if isinstance(t, ple.String):
        return "str", t
    nc = _PL.native_class(t)
    if nc is None:
        return None, None
    return nc[0], (nc, t)


def _pl_list(series):
    try:
        return series.to_list()
    except BaseException as e:  # pyo3 PanicException on out-of-range temporal
        if isinstance(e, (KeyboardInterrupt, SystemExit)):
            raise
        raise Unreadable(repr(e)[:200]) from None


def polars_case(run, rec, label, t, rng):
    import polars as pl
    from pandera.api.polars.types import PolarsData
    from pandera.errors import ParserError
    kind, extra = pl_kind(t)
    df, key, desc = G.gen_polars_container(rng, kind)
    cn = cname(t)
    base = {"class": cn, "dtype": label, "container": desc}
    rec.context = {"dtype": label, "container": desc}
    judged = 0
    run.count("polars:try_coerce")
    run.count(f"plflavour:{desc['flavour']}")
    run.count("plkey:" + ("column" if key else "frame"))
    cols = [key] if key else list(df.columns)
    try:
        out = t.try_coerce(PolarsData(df.lazy(), key)).collect()
        status, err = "ok", None
    except ParserError as e:
        out, status, err = None, "parser", e
    except Exception as e:  # noqa
        out, status, err = None, "other", e
    if status == "other":
        run.count("polars:raised_other")
        viol(run, "try_coerce-raised-non-ParserError",
             dict(base, exc=exc_s(err), where=H.exc_sig(err)))
        judged += 1
    elif status == "ok":
        run.count("polars:success")
        judged += 1
        run.count("polars:S1_length_labels")
        if out.height != df.height or list(out.columns) != list(df.columns):
            viol(run, "length-or-labels-changed", dict(base, output=K._brief(out)))
        run.count("polars:S2_own_check")
        okc, r = safe(K.polars_dtype_check, t, out, key)
        if not okc:
            viol(run, "own-check-raises-on-coerced-result",
                 dict(base, output=K._brief(out), exc=exc_s(r)))
        elif not r:
            viol(run, "coerced-result-fails-own-check", dict(base, output=K._brief(out)))
        for col in cols:
            vin, vout = _pl_list(df[col]), _pl_list(out[col])
            all_exact = kind is not None and all(
                v is None or G.exact(kind, extra, v)[0] for v in vin)
            for i, v in enumerate(vin):
                if v is None and not all_exact:
                    run.count("undecided:null-beside-inexact-elements")
                    continue
                if v is None:
                    run.count("polars:S3_null_elements")
                    if vout[i] is not None:
                        viol(run, "null-not-preserved",
                             dict(base, position=i, got=G.vrepr(vout[i])))
                    continue
                # a strict cast never turns a value into a missing value
                run.count("polars:S3_value_not_nulled")
                if vout[i] is None and not G.is_null(v):
                    viol(run, "value-silently-became-null",
                         dict(base, position=i, input=G.vrepr(v)))
                    continue
                if kind is None:
                    continue
                ex, want = G.exact(kind, extra, v)
                if not ex or not all_exact:
                    run.count("polars:S3_inexact_elements_not_judged")
                    continue
                run.count("polars:S3_exact_elements")
                if not G.values_equal(vout[i], want):
                    viol(run, "exact-value-changed",
                         dict(base, position=i, input=G.vrepr(v),
                              expected=G.vrepr(want), got=G.vrepr(vout[i])))
        run.count("polars:S5_idempotent")
        ok2, out2 = safe(lambda: t.try_coerce(PolarsData(out.lazy(), key)).collect())
        if not ok2:
            viol(run, "recoercing-coerced-result-fails",
                 dict(base, output=K._brief(out), exc=exc_s(out2)))
        elif any(str(d) == "Object" for d in out.schema.values()):
            run.count("undecided:polars-object-columns-not-comparable")
        elif dict(out2.schema) != dict(out.schema) or not out2.equals(out, null_equal=True):
            viol(run, "not-idempotent", dict(base, output=K._brief(out), again=K._brief(out2)))
    else:
        run.count("polars:parser_error")
        judged += polars_failure(run, t, df, key, cols, err, base)

    if status in ("ok", "parser"):
        judged += polars_schema_level(run, t, df, key, status, err, base, out)
    run.case([label, desc], judged > 0,
             sample={"dtype": label, "container": desc, "status": status})


def polars_failure(run, t, df, key, cols, err, base):
    import polars as pl
    from pandera.api.polars.types import PolarsData
    from pandera.constants import CHECK_OUTPUT_KEY
    bad_rows = []
    for i in range(df.height):
        ok, _ = safe(lambda: t.coerce(PolarsData(df.slice(i, 1).lazy(), key)).collect())
        if not ok:
            bad_rows.append(i)
    fc = err.failure_cases
    if isinstance(fc, pl.LazyFrame):
        okc, fc = safe(fc.collect)
        if not okc:
            viol(run, "failure-cases-cannot-be-materialised", dict(base, exc=exc_s(fc)))
            return 1
    run.count("polars:F2_failure_cases")
    if not bad_rows:
        run.count("polars:F2_container_failed_all_rows_convertible")
    from pandera.engines import polars_engine as _ple
    if isinstance(t, _ple.Array):
        run.count("undecided:polars-array-width-depends-on-the-whole-column")
        return 0
    lists = {c: _pl_list(df[c]) for c in cols}
    null_rows = {i for i in range(df.height) if any(lists[c][i] is None for c in cols)}
    # polars has no cast at all between some pairs of dtypes, but lets a column
    # that holds nothing but nulls through: whether a null of such a column
    # "converts individually" is an artefact of the one-row slice, so the rows
    # with a null are not judged there
    okw, _ = safe(lambda: df.lazy().select(
        pl.col(cols).cast(t.type, strict=False)).collect())
    skip = set() if okw else {i for i in range(df.height)
                             if any(G.is_null(lists[c][i]) for c in cols)}
    if skip:
        run.count("undecided:null-row-of-a-dtype-pair-polars-cannot-cast")
        bad_rows = [i for i in bad_rows if i not in skip]
    exp = Counter(tuple(G.vrepr(lists[c][i]) for c in cols) for i in bad_rows)
    if fc is None:
        got = Counter()
    else:
        fcols = [c for c in cols if c in fc.columns] or list(fc.columns)
        got = Counter(tuple(G.vrepr(v) for v in row) for row in fc.select(fcols).rows())
        if skip:
            got = Counter({r: n for r, n in got.items() if "<null>" not in r})
    if got != exp:
        extra_rows = got - exp
        only_nulls = bool(extra_rows) and not (exp - got) and all(
            any(v == "<null>" for v in row) for row in extra_rows)
        viol(run, "failure-cases-include-null-input" if only_nulls else
             "failure-cases-differ-from-unconvertible-elements",
             dict(base, reported=sorted(map(list, got.elements())),
                  expected=sorted(map(list, exp.elements())), message=str(err)[:160]))
    po = getattr(err, "parser_output", None)
    if po is not None:
        okp, pdf = safe(lambda: po.collect() if isinstance(po, pl.LazyFrame) else po)
        if okp and CHECK_OUTPUT_KEY in pdf.columns and pdf.height == df.height:
            run.count("polars:F2_parser_output_rows")
            rows = [i for i, v in enumerate(pdf[CHECK_OUTPUT_KEY].to_list())
                    if not v and i not in skip]
            extra, missing = set(rows) - set(bad_rows), set(bad_rows) - set(rows)
            if missing or (extra - null_rows):
                viol(run, "parser-output-rows-differ-from-unconvertible-rows",
                     dict(base, reported=rows, expected=bad_rows))
            elif extra:
                viol(run, "failure-cases-include-null-input",
                     dict(base, reported_rows=rows, expected_rows=bad_rows))
    return 1


def polars_schema_level(run, t, df, key, status, err, base, out):
    import pandera.polars as pap
    import polars as pl
    if key:
        mk = lambda: pap.DataFrameSchema({key: pap.Column(t, coerce=True, nullable=True)})  # noqa
        pname = "column-in-frame"
    else:
        mk = lambda: pap.DataFrameSchema(dtype=t, coerce=True)  # noqa
        pname = "frame-dtype"
    oks, schema = safe(mk)
    if not oks:
        run.count(f"schema_level:polars:{pname}:schema-not-constructible")
        return 0
    try:
        o = H.run_validate(schema, df)
    except BaseException as e:  # pyo3 PanicException is not an Exception
        if isinstance(e, (KeyboardInterrupt, SystemExit)):
            raise
        run.count(f"schema_level:polars:{pname}:panic-escaped-validate(C06):{type(e).__name__}")
        return 0
    run.count(f"schema_level:polars:{pname}")
    w = dict(base, path="polars:" + pname, direct_status=status)
    if o.kind == "exc":
        run.count(f"schema_level:polars:{pname}:internal-exception(C06)")
        return 0
    errs = o.exc.schema_errors if o.kind == "SchemaErrors" else \
        [o.exc] if o.kind == "SchemaError" else []
    coercion = [e for e in errs if e.reason_code.name == "DATATYPE_COERCION"]
    reasons = sorted({e.reason_code.name for e in errs})
    if status == "parser":
        run.count("schema_level:polars:expect_coercion_error")
        if o.kind == "ok":
            viol(run, "schema-level:uncoercible-data-accepted", w)
        elif not coercion:
            viol(run, "schema-level:coercion-failure-reported-under-other-reason",
                 dict(w, reasons=reasons))
        else:
            run.count("schema_level:polars:reason_DATATYPE_COERCION")
            fc1, fc2 = coercion[0].failure_cases, err.failure_cases

            def rows(fc):
                if fc is None:
                    return None
                if isinstance(fc, pl.LazyFrame):
                    fc = fc.collect()
                if isinstance(fc, pl.DataFrame):
                    return sorted(tuple(G.vrepr(v) for v in r) for r in fc.rows())
                return repr(fc)
            ok1, r1 = safe(rows, fc1)
            ok2, r2 = safe(rows, fc2)
            if ok1 and ok2 and r1 != r2:
                viol(run, "schema-level:failure-cases-differ-from-ParserError",
                     dict(w, schema_error=r1, parser_error=r2))
    else:
        run.count("schema_level:polars:expect_no_coercion_error")
        if coercion:
            viol(run, "schema-level:coercible-data-rejected-with-coercion-error", w)
        elif "WRONG_DATATYPE" in reasons:
            viol(run, "schema-level:coerced-data-rejected-by-dtype-check",
                 dict(w, reasons=reasons, output=K._brief(out)))
        elif o.kind != "ok":
            run.count(f"schema_level:polars:{pname}:other-reasons:{','.join(reasons)}")
    return 1


# ---------------------------------------------------------------------------
def run(run, ctx):
    import pandera.engines.pyarrow_engine  # noqa: F401  (see assumptions)
    import pandera.polars  # noqa: F401  registers the polars backends
    rec = K.Recorder()
    wrapped = K.install(rec)
    try:
        ptypes, p_unbuilt = G.pandas_types()
        ltypes, l_unbuilt = G.polars_types()
        alltypes = [("pd", l, t) for l, t in ptypes] + [("pl", l, t) for l, t in ltypes]
        if ctx.shard == 0:
            run.count("types:pandas+numpy_instances", len(ptypes))
            run.count("types:polars_instances", len(ltypes))
            run.count("contracts:classes_wrapped", len(wrapped))
            for C, why in p_unbuilt + l_unbuilt:
                run.count(f"not_built:{C.__module__.split('.')[-1]}.{C.__name__}")
        n = N_PER_TYPE[ctx.tier]
        total = len(alltypes) * n
        for i in ctx.cases(total):
            which, label, t = alltypes[i % len(alltypes)]
            rng = ctx.rng(PID, label, i // len(alltypes))
            try:
                if which == "pd":
                    pandas_case(run, rec, label, t, rng)
                else:
                    polars_case(run, rec, label, t, rng)
            except Unreadable:
                run.count("undecided:cells-not-materialisable-as-python-objects")
            except BaseException as e:  # a bug of the harness, never a verdict
                if isinstance(e, (KeyboardInterrupt, SystemExit)):
                    raise
                import traceback
                run.count(f"harness_error:{type(e).__name__}")
                if run.counters[f"harness_error:{type(e).__name__}"] <= 2:
                    run.note_inconclusive(
                        f"harness error in case {i} ({label}): "
                        + traceback.format_exc()[-600:])
    finally:
        K.uninstall()
    # what the contracts saw
    for (eng, cn), k in rec.calls.items():
        run.count(f"contract_calls:{cn}", k)
    for (eng, cn, cond), k in rec.post_evals.items():
        run.count(f"contract_evals:{cn}", k)
        run.count(f"contract_evals_total:{cond}", k)
    for (eng, cn, exn), k in rec.raised.items():
        run.count(f"contract_raised:{exn}", k)
    for name, k in rec.undecided.items():
        run.count(f"undecided:contract:{name}", k)
    for b in rec.broken:
        viol(run, f"contract:{b['condition']}", b)
    if ctx.nshards == 1:
        _floors(run, ctx)


def _floors(run, ctx):
    """Coverage floors (about 1/4 of what the unchanged tree gives)."""
    # every registered class must have been reached by the contracts
    not_built = {k[len("not_built:"):] for k in run.counters if k.startswith("not_built:")}
    for eng, C in K.registered_classes():
        cn = f"{C.__module__.split('.')[-1]}.{C.__name__}"
        if cn in not_built:
            run.count(f"not_reached:{cn}", 0)
            continue
        run.floors[f"contract_calls:{cn}"] = 1
    if len(not_built) > 3:
        run.note_inconclusive(f"{len(not_built)} registered classes could not be built: "
                              f"{sorted(not_built)}")
    q = 1 if ctx.tier == "quick" else 15
    for name, m in FLOORS.items():
        run.floors[name] = m * q
    if run.counters.get("harness_error_total", 0):
        pass


# quick-tier minimums, about 1/4 of what the unchanged tree gives (seed 0)
FLOORS = {
    "contract_evals_total:result_passes_own_check": 3300,
    "contract_evals_total:same_length_and_labels": 3300,
    "pandas:success": 660, "pandas:parser_error": 990,
    "pandas:S2_own_check": 660, "pandas:S3_exact_elements": 330,
    "pandas:S3_null_elements": 39, "pandas:S5_idempotent": 660,
    "pandas:F2_failure_cases": 990, "pandas:S3_vs_coerce_value": 264,
    "numpy:success": 132, "numpy:F2_failure_cases": 99,
    "polars:success": 330, "polars:parser_error": 198,
    "polars:S2_own_check": 330, "polars:S3_exact_elements": 99,
    "polars:S3_null_elements": 33, "polars:S5_idempotent": 330,
    "polars:F2_failure_cases": 198, "polars:S3_value_not_nulled": 400,
    # S4 (no unconvertible value silently nulled) and the input class it needs
    "contract_evals_total:no_unconvertible_value_silently_nulled": 3100,
    "pandas:S4_value_not_silently_nulled": 1050, "numpy:S4_value_not_silently_nulled": 240,
    "pandas:S4_containers:with-null": 90,
    "pandas:F2_null_beside_unconvertible": 220, "numpy:F2_null_beside_unconvertible": 25,
    "pandas:F2_null_beside_unconvertible:category": 8,
    "schema_level:pandas:expect_coercion_error": 1650,
    "schema_level:pandas:reason_DATATYPE_COERCION": 1650,
    "schema_level:pandas:expect_no_coercion_error": 990,
    "schema_level:polars:expect_coercion_error": 198,
    "schema_level:polars:reason_DATATYPE_COERCION": 198,
    "schema_level:polars:expect_no_coercion_error": 330,
}


def finalize(run, ctx):
    _floors(run, ctx)
