"""C07 — validation outcomes do not depend on thread interleaving.

Runtime monitoring under a deterministic scheduler (pvm/c07_sched.py): 2-3
threads run real ``validate`` calls; preemption happens only between two
Python statements of pandera code.  Oracle per executed schedule:

  O1  every thread's outcome == its solo outcome (frames bit-for-bit via
      pvm.snap, exceptions by type + reason codes + failure cases);
  O2  config context / global CONFIG after join == before;
  O2' process-wide state outside pandera after join == before (every pandas
      option, numpy error state, warnings filters, polars Config);
  O3  every schema's fingerprint after join == before;
  O4  every call run once more, alone, after the join == its solo outcome;
  O5  the schema cached for a model class on first use == the schema an
      identical class compiles when it is used by one thread only.

The cold family (pvm/c07_cold.py) runs every schedule in a fork of a pristine
template interpreter, so that "first use" of the lazily filled registries is
real; its template processes run beside the in-process schedules of a shard.

Single preemptions are strided over the first thread's yield points and
*directed*: the serial run of a unit samples the probe at every yield point;
the yield point right after each statement that changed an observed shared
field (config, shared schema fields, process-wide state, numpy's global
generator) is preempted too - the thread is parked in the window its own
write opened.

The mechanism classifier reads only the witness: which shared fields the
scheduler's probe saw changed under a parked thread (``foreign``), which
config fields / fingerprint paths differ after join, and the scenario's flags.
"""
from __future__ import annotations

import copy
import json
import re
import time

from .. import env, fingerprint as F, harness as H
from .. import c07_scen as SC
from ..c07_sched import (RandomSwitch, Replay, Scheduler, Serial,
                         SinglePreempt, TwoPreempt)
from ..evidence import Run, canon_hash

PID = "C07"
SHARDS = {"quick": 8, "thorough": 16}
import os as _os
# PVM_C07_SHARD_TIMEOUT: longer watchdog for runs on a heavily loaded machine
SHARD_TIMEOUT = {"quick": 900,
                 "thorough": int(_os.environ.get("PVM_C07_SHARD_TIMEOUT", 7200))}

K_D16 = "config-context-module-global-shared-across-threads"
K_D17 = "pandas-shared-column-coerce-dtype-override-unsynchronised"
K_NAME = "pandas-shared-column-name-override-unsynchronised"
K_D2 = "regex-column-name-not-restored-after-failed-validate"
K_MODEL = "model-to-schema-first-use-class-dict-mutated-while-iterated"
# a sampling validation (sample=, random_state=) looked at other rows than
# random_state selects after it saw numpy's process-wide generator change
K_RNG = "pandas-subsample-rows-depend-on-process-wide-numpy-generator"
# a call on a shared schema gave exactly the outcome of a twin schema without
# its dataframe-level (series-level) parsers
K_ALT = "shared-pandas-schema-concurrent-validate:"

# sizes: (variants, single-preemption points per direction (None = all),
#         double-preemption grid side, random schedules per (variant, n, p))
SIZES = {
    "quick": dict(variants=2, single=70, double=6, random=16, directed=24),
    # single: every yield point of the first thread up to 2500 per direction
    # (only the model compilation of model_first_use is longer: strided)
    "thorough": dict(variants=3, single=2500, double=14, random=96,
                     directed=400),
}
PROBS = (0.005, 0.02, 0.10)
# scenarios whose calls fill process-wide caches / touch process-wide state:
# the post-join re-run (O4) is made after every schedule (else every 2nd)
O4_EVERY = {"model_first_use", "registry_first_use", "pd_defaults_object",
            "mixed_builtin_dispatch"}
O4_STRIDE = {"quick": 2, "thorough": 4}


def tier_of(run):
    return getattr(run, "c07_tier", "quick")

# cold family (pvm/c07_cold.py): (family, variant) templates, one fresh
# interpreter each; single = preemption points per direction (None = every
# first-use location + every 4th yield point), random = schedules per (n, p)
COLD_UNITS = {
    "quick": [("cold_pd_two_models", 0), ("cold_pd_construct", 0),
              ("cold_pl_first", 0), ("cold_mixed", 0), ("cold_same_model", 0),
              ("cold_check_types", 0), ("cold_pd_two_models", 1),
              ("cold_pd_construct", 1)],
    "thorough": [(f, v) for v in (0, 1) for f in (
        "cold_pd_two_models", "cold_pd_construct", "cold_pl_first",
        "cold_mixed", "cold_same_model", "cold_check_types")]
    + [("cold_pd_construct", 2), ("cold_pd_construct", 3),
       ("cold_pd_construct", 4), ("cold_pd_two_models", 2)],
}
COLD_SIZES = {"quick": dict(single=56, random=2),
              "thorough": dict(single=240, random=8)}
COLD_TIMEOUT = {"quick": 600, "thorough": SHARD_TIMEOUT["thorough"] - 300}


def new_run():
    return Run(
        PID, "exploration",
        "case = one executed schedule of one scenario (2-3 threads running real "
        "validate calls under the sys.monitoring token scheduler); schedules: "
        "systematic single preemption (thread X stopped at its i-th pandera "
        "line, the others run to completion, X resumes; both directions; "
        "strided + directed: right after every statement of X that wrote "
        "observed shared state - config, fields of shared schemas, process-"
        "wide state, numpy's global generator), "
        "a grid of double preemptions, seeded random switching with p in "
        "{0.5%,2%,10%} for 2 and 3 threads. 17 warm scenario families run in "
        "one process (schemas rebuilt per schedule; among them one shared "
        "pandas schema / model / SeriesSchema with dataframe-level, column-"
        "level and element-wise parsers, and head=/tail=/sample=/random_state= "
        "validations whose outcome tells which rows were drawn); "
        "6 cold families run every "
        "schedule in a fork of a pristine template interpreter (pandas/polars/"
        "pandera imported, nothing constructed or validated): each thread "
        "builds its schema inside its call (never-used DataFrameModel, schema "
        "construction + validate, check_types), single preemption at the first "
        "occurrence of every first-use-only location (code the same call does "
        "not reach a second time) + strided + random. Judged per schedule: "
        "outcome of each thread == the call alone; pandera config, process-"
        "wide state (all pandas options, numpy error state, warnings filters, "
        "polars Config) and schema fingerprints after join == before; each "
        "call once more after the join == alone; schema cached for a model "
        "class == the one an identical class compiles alone; (cold) backend "
        "registries after join == after sequential use. distinct = hash of "
        "(scenario, variant, threads, executed token hand-over list); "
        "non-trivial = at least one preemption was actually executed and "
        "every thread reached pandera code (>=1 yield point each)",
        ["preemption only between two Python statements of pandera code (a "
         "subset of real GIL switch points): no impossible interleaving",
         "races whose window lies inside one pandas/polars/numpy call are not "
         "explored",
         "solo outcome of each call is computed unscheduled on a fresh build "
         "of the same scenario (cold: in a fork of its own) and must be "
         "reproducible (checked twice)",
         "cold family: modules the first validation imports lazily are "
         "imported in the template beforehand (a parked thread holding an "
         "import lock would dead-lock the token scheduler): races inside lazy "
         "imports are not explored; a fork of the import-only template stands "
         "for a fresh interpreter",
         "2-3 threads, frames <= 5 rows (12-24 rows in the subsample family), "
         "17 warm + 6 cold scenario families",
         "numpy's process-wide generator is observed (witness, directed "
         "preemption) but its state after join is not judged: an un-seeded "
         "sample= advances it legitimately and the documentation does not "
         "say where a seeded call draws from",
         "parsers are pandas-only (the polars backend has no user parsers); "
         "user parser functions are pure and are not preempted inside"])


# ------------------------------------------------------------------ helpers
def all_diffs(a, b, path="$", out=None, limit=40):
    """Every differing leaf path between two fingerprints."""
    if out is None:
        out = []
    if len(out) >= limit:
        return out
    if type(a) is not type(b):
        out.append((path, repr(a)[:80], repr(b)[:80]))
    elif isinstance(a, dict):
        for k in list(a) + [k for k in b if k not in a]:
            if k not in a or k not in b:
                out.append((f"{path}.{k}", repr(a.get(k))[:80],
                            repr(b.get(k))[:80]))
            else:
                all_diffs(a[k], b[k], f"{path}.{k}", out, limit)
    elif isinstance(a, list):
        if len(a) != len(b):
            out.append((path, f"len {len(a)}", f"len {len(b)}"))
        else:
            for i, (x, y) in enumerate(zip(a, b)):
                all_diffs(x, y, f"{path}[{i}]", out, limit)
    elif a != b:
        out.append((path, repr(a)[:80], repr(b)[:80]))
    return out


def cfg_state():
    import pandera.config as cfg
    c = cfg.get_config_context(validation_depth_default=None)
    g = cfg.CONFIG
    f = lambda x: {"validation_enabled": x.validation_enabled,  # noqa: E731
                   "validation_depth": getattr(x.validation_depth, "name", None),
                   "cache_dataframe": x.cache_dataframe,
                   "keep_cached_dataframe": x.keep_cached_dataframe}
    return {"context": f(c), "global": f(g)}


_CFG0 = {}


def cfg_restore():
    import pandera.config as cfg
    if "g" in _CFG0:
        for k, v in _CFG0["g"].items():
            setattr(cfg.CONFIG, k, v)
    cfg.reset_config_context()


def fps(built):
    return {lab: F.fp(s) for lab, s in built.schemas.items()}


def post_fps(built):
    return {lab: F.fp(s, ident=False) for lab, s in built.post().items()}


def fp_diffs(before, after):
    out = []
    for lab in before:
        for p, x, y in all_diffs(before[lab], after[lab]):
            out.append((lab + p[1:], x, y))
    return out


_PATH_KIND = [(re.compile(r"\.coerce$"), "coerce"),
              (re.compile(r"\._dtype(\.|$)"), "dtype"),
              (re.compile(r"\.name$"), "name")]


def path_kinds(diffs):
    kinds = set()
    for p, _, _ in diffs:
        for rx, k in _PATH_KIND:
            if rx.search(p):
                kinds.add(k)
                break
        else:
            kinds.add("other")
    return kinds


def foreign_kinds(foreign):
    """Field kinds a thread saw changed by another thread while parked."""
    kinds = set()
    for _step, field, _a, _b in foreign:
        if field.startswith("cfg."):
            kinds.add("cfg")
        elif field.startswith("proc."):
            kinds.add("proc")
        elif field.endswith(".coerce"):
            kinds.add("coerce")
        elif field.endswith(".dtype"):
            kinds.add("dtype")
        elif field.endswith(".name"):
            kinds.add("name")
        else:
            kinds.add("other")
    return kinds


# ------------------------------------------------------------------ classifier
def classify(kind, w):
    """Mechanism key from the witness alone; None = not attributable."""
    flags = w["flags"]
    if kind == "outcome-differs-from-solo":
        fk = set(w["foreign_kinds_of_thread"])
        site = w.get("got_exc_site") or ""
        if (w["scenario"] == "model_first_use"
                and site.startswith("RuntimeError@api/dataframe/model.py:_collect_")
                and "dictionary changed size" in w["got"]):
            return K_MODEL
        if w.get("got_equals_reference") and flags.get("parsers"):
            return K_ALT + w["got_equals_reference"][0]
        if not fk:
            return None
        if (fk == {"proc"} and flags.get("subsample")
                and w["foreign_proc_fields"] == ["numpy.random.state"]):
            return K_RNG
        if fk == {"proc"}:
            # the thread saw process-wide state outside pandera (a pandas
            # option, numpy error state, warnings filters) changed by another
            # thread's validation while it was parked
            return ("process-wide-state-toggled-during-validate:"
                    + ",".join(w["foreign_proc_fields"]))
        if fk == {"cfg"} and flags.get("config"):
            return K_D16
        if fk <= {"coerce", "dtype"} and flags.get("pandas_shared"):
            return K_D17
        if fk == {"name"} and flags.get("pandas_shared"):
            return K_NAME
        return None
    if kind == "config-changed-after-join":
        if flags.get("config") and not w["global_changed"]:
            return K_D16
        return None
    if kind == "schema-changed-after-join":
        pk = set(w["path_kinds"])
        if not flags.get("pandas_shared"):
            return None
        if pk and pk <= {"coerce", "dtype"}:
            return K_D17
        if pk == {"name"}:
            return K_NAME
        return None
    if kind == "process-state-changed-after-join":
        return ("process-wide-state-left-changed-after-concurrent-validate:"
                + ",".join(w["changed_fields"]))
    if kind == "schema-changed-even-when-run-alone":
        pk = set(w["path_kinds"])
        if pk == {"name"} and w["scenario"] == "pd_shared_regex" \
                and w["a_thread_failed_solo"]:
            return K_D2
        return None
    return None


# ------------------------------------------------------------------ baseline
class Baseline:
    """Solo outcomes + sequential state effects of a scenario variant."""

    def __init__(self, name, variant, n, seed):
        self.ok = True
        self.why = ""
        sigs = []
        for _rep in range(2):
            b = SC.build(name, variant, n, seed)
            try:
                sigs.append([SC.sig(t()) for t in b.thunks])
            finally:
                if b.cleanup:
                    b.cleanup()
                cfg_restore()
        if sigs[0] != sigs[1]:
            self.ok, self.why = False, "solo outcome not reproducible"
        self.solo = sigs[0]
        # every thread alone on its own fresh build: does a single call
        # already leave a trace (sequential defect, not an interleaving one)?
        self.seq_diffs = set()
        # schemas that exist only after first use (a model's cached schema):
        # reference = the one an identical class compiles when used alone
        self.post_fp = None
        for i in range(n):
            b = SC.build(name, variant, n, seed)
            try:
                before = fps(b)
                b.thunks[i]()
                self.seq_diffs |= {p for p, _, _ in fp_diffs(before, fps(b))}
                if b.post is not None:
                    pf = post_fps(b)
                    if self.post_fp is None:
                        self.post_fp = pf
                    elif pf != self.post_fp:
                        self.ok = False
                        self.why = "solo-compiled model schema not reproducible"
            finally:
                if b.cleanup:
                    b.cleanup()
                cfg_restore()
        self.labels = b.labels
        self.flags = b.flags
        # reference outcomes of the same calls on a twin schema (classifier)
        self.alt = {}
        b = SC.build(name, variant, n, seed)
        try:
            for k, thunks in (b.alt or {}).items():
                self.alt[k] = [SC.sig(t()) for t in thunks]
        finally:
            if b.cleanup:
                b.cleanup()
            cfg_restore()


# ------------------------------------------------------------------ one schedule
def judge(run, sched, name, variant, n, seed, policy, base, tag,
          probe_every=False):
    b = SC.build(name, variant, n, seed)
    try:
        before_fp = fps(b)
        before_cfg = cfg_state()
        before_proc = SC.proc_state()
        before_rng = SC.rng_state()
        r = sched.run(b.thunks, policy, probe=b.probe, timeout=60.0,
                      probe_every=probe_every)
        # numpy's process-wide generator: observed, not judged (an un-seeded
        # sample= legitimately advances it; the documentation of random_state
        # does not say where a seeded call draws from)
        if SC.rng_state() != before_rng:
            run.count("undecided:numpy global generator state differs after "
                      "join (not judged)")
        after_cfg = cfg_state()
        after_proc = SC.proc_state()
        after_fp = fps(b)
        return _judge(run, b, r, name, variant, n, seed, policy, base, tag,
                      before_fp, after_fp, before_cfg, after_cfg,
                      before_proc, after_proc)
    finally:
        if b.cleanup:
            b.cleanup()


def _judge(run, b, r, name, variant, n, seed, policy, base, tag, before_fp,
           after_fp, before_cfg, after_cfg, before_proc, after_proc):
    run.count("schedules")
    if getattr(b, "note", None):
        run.count(b.note)
    run.count(f"schedules:{name}")
    run.count(f"policy:{tag}")
    run.count(f"threads:{n}")
    if r.status != "ok":
        run.count("schedule_inconclusive(watchdog)")
        cfg_restore()
        SC.proc_restore(before_proc)
        return r
    run.count("yield_points", r.steps)
    run.count("preemptions", r.switches)
    desc = {"scenario": name, "variant": variant, "threads": n, "seed": str(seed),
            "labels": b.labels, "policy": policy.describe(), "start": r.start,
            "trace": r.trace[:6000], "yields": r.yields, "flags": b.flags}
    nontrivial = r.switches >= 1 and all(y > 0 for y in r.yields)
    run.case(canon_hash([name, variant, n, r.start, r.trace]), nontrivial,
             sample={k: desc[k] for k in ("scenario", "variant", "threads",
                                          "labels", "policy", "yields")}
             | {"preemptions": r.switches, "trace_head": r.trace[:6]})
    if any(y == 0 for y in r.yields):
        run.count("thread_without_yield_point")

    # O1 outcomes
    for i in range(n):
        if r.errors[i] is not None:
            run.violation("harness-thunk-raised", desc | {
                "thread": i, "exc": repr(r.errors[i])[:300]}, None)
            continue
        got = SC.sig(r.outcomes[i])
        run.count("oracle:outcome_compared")
        run.count(f"oracle:outcome_compared:{name}")
        if got != base.solo[i]:
            fk = sorted(foreign_kinds(r.foreign[i]))
            w = desc | {"thread": i, "call": b.labels[i],
                        "foreign_proc_fields": sorted(
                            {f[1][5:] for f in r.foreign[i]
                             if f[1].startswith("proc.")}),
                        "solo": SC.brief(base.solo[i]), "got": SC.brief(got),
                        "got_exc_site": (H.exc_sig(r.outcomes[i].exc)
                                         if r.outcomes[i].kind == "exc" else None),
                        "foreign_changes_seen_by_thread": r.foreign[i][:12],
                        "foreign_kinds_of_thread": fk,
                        "got_equals_reference": sorted(
                            k_ for k_, sg in base.alt.items()
                            if sg[i] == got)}
            run.count(f"mismatch:{name}:{SC.brief(base.solo[i])[:40]}->"
                      f"{SC.brief(got)[:40]}")
            run.violation("outcome-differs-from-solo", w,
                          classify("outcome-differs-from-solo", w))
        else:
            run.count("oracle:outcome_equal_solo")
    # O2 configuration
    run.count("oracle:config_compared")
    leaked = False
    if after_cfg != before_cfg:
        w = desc | {"before": before_cfg, "after": after_cfg,
                    "global_changed": after_cfg["global"] != before_cfg["global"]}
        run.violation("config-changed-after-join", w,
                      classify("config-changed-after-join", w))
        cfg_restore()
        leaked = True
    # O2' process-wide state outside pandera (pandas options, numpy error
    # state, warnings filters, polars Config)
    run.count("oracle:process_state_compared")
    run.count("process_state_fields_compared", len(before_proc))
    if after_proc != before_proc:
        ch = sorted(k for k in set(before_proc) | set(after_proc)
                    if before_proc.get(k) != after_proc.get(k))
        w = desc | {"changed_fields": ch,
                    "before": {k: before_proc.get(k) for k in ch},
                    "after": {k: after_proc.get(k) for k in ch}}
        run.violation("process-state-changed-after-join", w,
                      classify("process-state-changed-after-join", w))
        SC.proc_restore(before_proc)
        leaked = True
    # O3 schemas
    run.count("oracle:schemas_compared", len(before_fp))
    d = fp_diffs(before_fp, after_fp)
    if d:
        race = [x for x in d if x[0] not in base.seq_diffs]
        seq = [x for x in d if x[0] in base.seq_diffs]
        if race:
            w = desc | {"diffs": race[:8], "path_kinds": sorted(path_kinds(race)),
                        "foreign": [f[:6] for f in r.foreign]}
            run.violation("schema-changed-after-join", w,
                          classify("schema-changed-after-join", w))
        if seq:
            w = desc | {"diffs": seq[:8], "path_kinds": sorted(path_kinds(seq)),
                        "a_thread_failed_solo": any(s[0] != "ok" for s in base.solo)}
            run.violation("schema-changed-even-when-run-alone", w,
                          classify("schema-changed-even-when-run-alone", w))
    # O5 schemas that only exist after first use: the schema cached for a
    # model class == the one an identical class compiles when used alone
    if b.post is not None and base.post_fp is not None:
        try:
            got_post = post_fps(b)
        except Exception as e:  # noqa: BLE001 - to_schema itself raised
            got_post = {"<post>": f"!{type(e).__name__}: {e}"[:200]}
        run.count("oracle:cached_model_schema_compared", len(base.post_fp))
        pd_ = []
        for lab in base.post_fp:
            if lab not in got_post:
                pd_.append((lab, "present", "missing"))
                continue
            for p, x, y in all_diffs(base.post_fp[lab], got_post[lab]):
                pd_.append((lab + p[1:], x, y))
        if "<post>" in got_post:
            pd_.append(("<post>", "schemas", got_post["<post>"]))
        if pd_:
            w = desc | {"diffs": pd_[:8], "solo_compiled_vs_cached": True}
            run.violation("cached-model-schema-differs-from-solo-compiled", w,
                          classify("cached-model-schema-differs", w))
    # O4 every call once more, alone, after the join: what the calls left
    # behind in the process (registries, caches, dispatchers, options) must
    # not change what a later call returns
    t_o4 = time.time()
    k = int(run.counters.get("schedules", 0))
    if leaked:
        run.count("oracle:post_join_rerun_skipped(state leak already reported)")
    elif name in O4_EVERY or k % O4_STRIDE[tier_of(run)] == 0:
        # one call per schedule, rotating (a solo run under the installed
        # monitor costs as much as a scheduled one)
        i = (k // (1 if name in O4_EVERY else O4_STRIDE[tier_of(run)])) % n
        try:
            again = SC.sig(b.thunks[i]())
        except BaseException as e:  # noqa: BLE001
            again = ("exc-escaped", type(e).__name__, str(e)[:200])
        run.count("oracle:post_join_rerun_compared")
        run.count(f"oracle:post_join_rerun_compared:{name}")
        if again != base.solo[i]:
            w = desc | {"thread": i, "call": b.labels[i],
                        "solo": SC.brief(base.solo[i]),
                        "after_join": SC.brief(again),
                        "proc_state_now_vs_before": sorted(
                            k_ for k_, v in SC.proc_state().items()
                            if before_proc.get(k_) != v)}
            run.violation("outcome-after-join-differs-from-solo", w,
                          classify("outcome-after-join", w))
            cfg_restore()
            SC.proc_restore(before_proc)
    run.count("t_ms:post_join_rerun", int(1000 * (time.time() - t_o4)))
    return r


# ------------------------------------------------------------------ work units
def strided(total, want, rng):
    if want is None or total <= want:
        return list(range(total))
    stride = total / want
    off = rng.random() * stride
    return sorted({min(total - 1, int(off + k * stride)) for k in range(want)})


def units(tier):
    z = SIZES[tier]
    # the cold templates come first: one per shard (8 / 16 of them)
    u = [("cold", f, v) for f, v in COLD_UNITS[tier]]
    for name in SC.ORDER:
        for v in range(z["variants"]):
            nchunk = 1 if tier == "quick" else 4
            for first in (0, 1):
                for c in range(nchunk):
                    u.append(("single", name, v, first, c, nchunk))
                u.append(("double", name, v, first, 0, 1))
            for n in (2, 3):
                for p in PROBS:
                    u.append(("random", name, v, n, p, 0))
    return u


def start_cold_unit(ctx, unit, extra=None):
    """Start one template process (fresh interpreter) of the cold family; it
    runs beside this shard's in-process schedules and is collected at the end
    (``collect_cold_unit``, with a watchdog)."""
    import os
    import subprocess
    import tempfile
    spec = dict(family=unit[1], variant=unit[2], **COLD_SIZES[ctx.tier])
    if extra:
        spec.update(extra)
    fd, part = tempfile.mkstemp(prefix="pvm_c07cold_", suffix=".json")
    os.close(fd)
    with open(part + ".err", "w") as errf:
        p = subprocess.Popen(
            [env.PY, "-m", "pvm.c07_cold", str(ctx.seed), ctx.tier,
             json.dumps(spec), part],
            cwd=env.VERIF, stdout=subprocess.DEVNULL, stderr=errf)
    return {"proc": p, "part": part, "unit": unit, "t0": time.time(),
            "deadline": time.time() + COLD_TIMEOUT[ctx.tier]}


def collect_cold_unit(run, h, ref=None):
    import os
    import subprocess
    p, part, unit = h["proc"], h["part"], h["unit"]
    try:
        try:
            p.wait(timeout=max(1.0, h["deadline"] - time.time()))
        except subprocess.TimeoutExpired:
            p.kill()
            p.wait()
            run.note_inconclusive(f"cold unit {unit}: watchdog timeout")
            return
        if p.returncode != 0:
            try:
                with open(part + ".err") as f:
                    err = f.read()
            except OSError:
                err = ""
            run.note_inconclusive(
                f"cold unit {unit}: child exit {p.returncode}: {err[-300:]}")
            return
        with open(part) as f:
            part_run = json.load(f)
        for v in part_run["violations"]:
            if ref and isinstance(v.get("witness"), dict):
                v["witness"].setdefault("_replay", dict(ref))
        run.merge(part_run)
        run.count("cold:templates")
    finally:
        for q in (part, part + ".err"):
            try:
                os.unlink(q)
            except OSError:
                pass


def run_cold_unit(run, ctx, unit, extra=None):
    collect_cold_unit(run, start_cold_unit(ctx, unit, extra))


def run_unit(run, ctx, sched, unit, bases):
    z = SIZES[ctx.tier]
    kind, name, v = unit[0], unit[1], unit[2]
    n = unit[3] if kind == "random" else 2

    def base_of(n_):
        k = (name, v, n_)
        if k not in bases:
            bases[k] = Baseline(name, v, n_, ctx.seed)
            run.count("baselines")
        return bases[k]

    base = base_of(n)
    if not base.ok:
        run.count(f"undecided:{base.why}:{name}")
        return True
    sched.restart()
    rng = ctx.rng(PID, *unit)

    def go(policy, tag):
        r = judge(run, sched, name, v, n, ctx.seed, policy, base, tag)
        if r.status == "hung":
            run.note_inconclusive(f"schedule hung beyond watchdog in {name}")
            return False
        return True

    if kind in ("single", "double"):
        first = unit[3]
        # yield points of each thread when run back to back
        r0 = judge(run, sched, name, v, 2, ctx.seed,
                   Serial([first, 1 - first]), base, "serial",
                   probe_every=(kind == "single"))
        if r0.status != "ok":
            return r0.status != "hung"
        na, nb = r0.yields[first], r0.yields[1 - first]
        run.count(f"yield_points_of_first_thread:{name}", na)
        if kind == "single":
            c, nchunk = unit[4], unit[5]
            pts = strided(na, z["single"], rng)
            # directed: the yield point right after every statement of the
            # first thread that wrote observed shared state (config, shared
            # schema fields, process-wide state, numpy's global generator):
            # the thread is parked inside the window its own write opened
            chg = [i for i, _f in r0.changes[first]]
            run.count("directed:units_probed_at_every_yield_point")
            run.count("directed:yield_points_probed", na)
            run.count(f"shared_state_writes_of_first_thread:{name}", len(chg))
            for _i, fields in r0.changes[first]:
                for f_ in fields:
                    run.count("shared_state_write:" + re.sub(
                        r"^col\.[^.]+\.[^.]+\.", "col.*.", f_))
            directed = set(strided(len(chg), z["directed"], rng))
            directed = {chg[j] for j in directed} - set(pts)
            pts = sorted(set(pts) | directed)
            pts = [i for k, i in enumerate(pts) if k % nchunk == c]
            if z["single"] is None or na <= z["single"]:
                run.count("single_preemption_complete_units")
            else:
                run.count("single_preemption_strided_units")
            for i in pts:
                if i in directed:
                    run.count("single:directed_after_shared_state_write")
                    run.count("single:directed_after_shared_state_write:"
                              + name)
                if not go(SinglePreempt(first, i, 2), "single"):
                    return False
        else:
            g = z["double"]
            for i in strided(na, g, rng):
                for j in strided(nb, g, rng):
                    if not go(TwoPreempt(first, i, j), "double"):
                        return False
    else:
        p = unit[4]
        for _ in range(z["random"]):
            if not go(RandomSwitch(rng, p, n), f"random:p={p}"):
                return False
    return True


def run(run, ctx):
    t0 = time.time()
    import pandera.config as cfg
    _CFG0["g"] = {k: getattr(cfg.CONFIG, k) for k in
                  ("validation_enabled", "validation_depth", "cache_dataframe",
                   "keep_cached_dataframe")}
    run.c07_tier = ctx.tier
    us = units(ctx.tier)
    mine = list(ctx.cases(len(us)))
    # the cold templates (fresh interpreters) run beside the in-process work
    cold = [(start_cold_unit(ctx, us[i]),
             {"seed": ctx.seed, "tier": ctx.tier, "case": i})
            for i in mine if us[i][0] == "cold"]
    t1 = time.time()
    SC.warm_up()
    run.count("warmup_s", int(time.time() - t1))
    prefix = env.REPO.rstrip("/") + "/pandera/"
    bases = {}
    with Scheduler(prefix) as sched:
        for i in mine:
            if us[i][0] == "cold":
                continue
            run.case_ref = {"seed": ctx.seed, "tier": ctx.tier, "case": i}
            if not run_unit(run, ctx, sched, us[i], bases):
                break
    run.case_ref = None
    run.count("t_ms:in_process_part", int(1000 * (time.time() - t0)))
    for h, ref in cold:
        collect_cold_unit(run, h, ref)
    run.count("t_ms:shard_total", int(1000 * (time.time() - t0)))
    run.floor("schedules", 20)
    run.floor("oracle:outcome_compared", 40)


def finalize(run, ctx):
    q = ctx.tier == "quick"
    run.floors.update({
        "schedules": 1700 if q else 45000,
        "oracle:outcome_compared": 3700 if q else 90000,
        "oracle:config_compared": 1700 if q else 45000,
        "oracle:schemas_compared": 2500 if q else 60000,
        "preemptions": 90000 if q else 1400000,
        "policy:single": 800 if q else 26000,
        "policy:double": 320 if q else 8000,
        "threads:3": 300 if q else 5000,
    })
    for name in SC.ORDER:
        run.floors[f"schedules:{name}"] = 190 if q else 4000
    run.floors.update({
        "oracle:process_state_compared": 1700 if q else 45000,
        "oracle:post_join_rerun_compared": 1500 if q else 21000,
        "oracle:post_join_rerun_compared:model_first_use": 160 if q else 4000,
        "oracle:post_join_rerun_compared:pd_defaults_object": 160 if q else 2600,
        "oracle:cached_model_schema_compared": 160 if q else 4000,
        # cold family (fresh interpreter state per schedule)
        "cold:templates": 6 if q else 12,
        "cold:schedules": 250 if q else 2100,
        "cold:started_from_pristine_state": 250 if q else 2100,
        "cold:policy:single": 220 if q else 1900,
        "cold:single:at_first_use_location": 160 if q else 1000,
        "cold:oracle:outcome_compared": 500 if q else 4200,
        "cold:oracle:process_state_compared": 250 if q else 2100,
        "cold:oracle:post_join_rerun_compared": 500 if q else 4200,
        "cold:oracle:cached_model_schema_compared": 300 if q else 2300,
        "cold:oracle:registry_compared": 250 if q else 2100,
    })
    # parsers / subsample families and directed preemption (measured quick,
    # seed 0: 312 schedules of the fixed shape of variant 0, 1250+ outcomes per family, 30
    # directed preemptions on the unchanged tree; thorough scaled like the
    # per-scenario floor)
    for note in ("parsers:schema_dependent", "subsample:in_vs_fine"):
        run.floors[note] = 78 if q else 1000
    for name in ("pd_shared_df_parsers", "pd_subsample"):
        run.floors[f"oracle:outcome_compared:{name}"] = 300 if q else 6000
    # how many directed preemptions there are depends on the tree (a tree
    # that writes no observed shared state has none): the floor is on the
    # serial runs whose every yield point was probed for such writes
    # (quick: 17 families x 2 variants x 2 directions = 68 units)
    run.floors["directed:units_probed_at_every_yield_point"] = 34 if q else 100
    from .. import c07_cold
    for fam in c07_cold.ORDER:
        run.floors[f"cold:schedules:{fam}"] = 30 if q else 250
    run.extra["distinct_interleavings"] = len(run.distinct)
    run.extra["yield_points_observed"] = int(run.counters.get("yield_points", 0))
    run.extra["scenarios"] = list(SC.ORDER)
    run.extra["cold_scenarios"] = list(c07_cold.ORDER)


# ------------------------------------------------------------------ replay
def replay(path):
    with open(path) as f:
        rec = json.load(f)
    w = rec["witness"]
    if w.get("cold"):
        # the recorded hand-over list, replayed in a fork of a fresh template
        class _Ctx:
            seed, tier = w["seed"], rec.get("tier", "quick")
        try:
            _Ctx.seed = int(_Ctx.seed)
        except ValueError:
            pass
        r = new_run()
        run_cold_unit(r, _Ctx, ("cold", w["scenario"], w["variant"]),
                      extra={"mode": "replay", "n": w["threads"],
                             "policy": ["replay", w["start"], w["trace"]]})
        for x in r.violations:
            print(f"REPLAYED {x['kind']} mechanism={x['mechanism']}")
            print(json.dumps({k: x["witness"].get(k) for k in
                              ("labels", "thread", "call", "solo", "got",
                               "after_join", "diffs") if k in x["witness"]},
                             indent=1, default=repr))
        print(f"[{PID}] replay (cold): {len(r.violations)} violation(s) "
              f"reproduced; {r.inconclusive or ''}")
        return 1 if r.violations else 0
    import pandera.config as cfg
    _CFG0["g"] = {k: getattr(cfg.CONFIG, k) for k in
                  ("validation_enabled", "validation_depth", "cache_dataframe",
                   "keep_cached_dataframe")}
    SC.warm_up()
    name, v, n, seed = w["scenario"], w["variant"], w["threads"], w["seed"]
    try:
        seed = int(seed)
    except ValueError:
        pass
    base = Baseline(name, v, n, seed)
    r = Run(PID, "exploration", "replay")
    with Scheduler(env.REPO.rstrip("/") + "/pandera/") as sched:
        judge(r, sched, name, v, n, seed,
              Replay(w["start"], [tuple(x) for x in w["trace"]]), base, "replay")
    for x in r.violations:
        print(f"REPLAYED {x['kind']} mechanism={x['mechanism']}")
        print(json.dumps({k: x["witness"].get(k) for k in
                          ("labels", "thread", "call", "solo", "got", "diffs",
                           "before", "after", "foreign_changes_seen_by_thread")
                          if k in x["witness"]}, indent=1, default=repr))
    print(f"[{PID}] replay: {len(r.violations)} violation(s) reproduced")
    return 1 if r.violations else 0
