"""Helpers shared by the model-based checks."""
from __future__ import annotations

import copy

from .. import harness as H, model as M, snap as S
from ..gen import build as B, spec as G


def brief(spec, table, extra=None):
    d = {"spec": spec, "table": table}
    if extra:
        d.update(extra)
    return d


def label_to_pos(table):
    """index label -> row position (tables are generated with unique labels)."""
    ix = table.get("index")
    cols = table["columns"]
    n = len(cols[0]["values"]) if cols else 0
    if not ix:
        return {i: i for i in range(n)}
    levels = ix["levels"]
    if len(levels) == 1:
        return {H.norm(v): i for i, v in enumerate(levels[0]["values"])}
    return {str(tuple(l["values"][i] for l in levels)): i for i in range(n)}


def has_dup_labels(table):
    names = [c["name"] for c in table["columns"]]
    return len(set(names)) != len(names)


def joint_unique_all_absent(spec, table):
    uq = spec.get("unique")
    if not uq or spec.get("kind") != "frame":
        return False
    names = {c["name"] for c in table["columns"]}
    groups = [uq] if all(isinstance(x, str) for x in uq) else uq
    return any(not [x for x in g if x in names] for g in groups)
