"""Helpers shared by the model-based checks."""
from __future__ import annotations

import copy

from .. import harness as H, model as M, snap as S
from ..gen import build as B, spec as G


def brief(spec, table, extra=None):
    d = {"spec": spec, "table": table}
    if extra:
        d.update(extra)
    return d


def label_to_pos(table):
    """index label -> row position (tables are generated with unique labels)."""
    ix = table.get("index")
    cols = table["columns"]
    n = len(cols[0]["values"]) if cols else 0
    if not ix:
        return {i: i for i in range(n)}
    levels = ix["levels"]
    if len(levels) == 1:
        return {H.norm(v): i for i, v in enumerate(levels[0]["values"])}
    return {str(tuple(l["values"][i] for l in levels)): i for i in range(n)}


def has_dup_labels(table):
    names = [c["name"] for c in table["columns"]]
    return len(set(names)) != len(names)


def joint_unique_all_absent(spec, table):
    uq = spec.get("unique")
    if not uq or spec.get("kind") != "frame":
        return False
    names = {c["name"] for c in table["columns"]}
    groups = [uq] if not any(isinstance(x, (list, tuple)) for x in uq) else uq
    return any(not [x for x in g if x in names] for g in groups)


def count_labels(run, relabelled):
    for d in relabelled or []:
        run.count(f"labels:{d[0]}")
    if relabelled:
        run.count("labels:falsy_label_case")


def classify_context_leak(leak):
    """Mechanism of 'validate left another configuration behind than it found'.
    No such defect is known on the unchanged tree -> unclassified."""
    return None


def report_context_leaks(run, where=None):
    """Config-context monitor (harness.run_validate brackets every validate
    with two reads of the configuration): called by the check after each case."""
    for leak in H.drain_context_leaks():
        run.violation("validate-left-config-context-changed",
                      dict(leak, case=where), classify_context_leak(leak))


def finish_context_monitor(run):
    """Evidence of how many validate calls the monitor bracketed (per shard)."""
    n = H.MONITORED["n"]
    if n:
        run.count("config_monitor:validate_calls_bracketed", n)
        H.MONITORED["n"] = 0
