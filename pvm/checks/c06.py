"""C06 — documented error channel; exception safety under injected faults.

Part A (channel monitor): generated "unusual but legal" schema/data/option
combinations for pandas and polars; every validate call must return, or raise
SchemaError / SchemaErrors, or SchemaDefinitionError / SchemaInitError, or
TypeError for a non-dataframe argument.  Anything else is a leak.

Part B (fault enumeration): schemas dense in user callbacks (check fn -
vectorised / element-wise / groupby / frame / row-wise, groupby fn, parser fn,
custom DataType.check / coerce / coerce_value).  A counting run gives N
invocations; for every k in 1..N (all when N <= 64) the case is rebuilt and
re-run with an InjectedFault raised at the k-th invocation.  Oracle: a raising
*check* is reported as a failed check (CHECK_ERROR inside SchemaError/
SchemaErrors); a raising *coerce_value* (only called after coerce() failed, to
find the failure cases) is reported as a coercion error; for other callbacks
the injected object itself may propagate; schema fingerprint, config and the
caller's data (by value) afterwards == before.

The part B workload contains what the state relation needs to mean anything:
callbacks that edit their argument in place (parsers, checks, custom dtype
check / coerce: a copy of the caller's data that shares memory with it is
written through), cells no coercion can convert (the only way to reach
coerce_value), MultiIndex schemas with coerce on the MultiIndex / on every
level / on some levels only, and a dataframe-wide dtype (components are
validated with dtype / coerce temporarily overridden).

Every fault point is executed twice: with an exception made the usual way (one
message argument) and with another *shape* of exception object (c06_faults.
SHAPES / NATURAL_SHAPES: no argument at all - bare assert, raise Class,
keyword-only constructor -, several or non-string arguments, chained, coming
out of a nested validate ...).  The handlers that turn a raising check into a
failed check describe the user's exception (class name, first argument); they
exist once per place a check can live (pandas Column / SeriesSchema + Index /
DataFrameSchema, polars Column / DataFrameSchema), so the evaluations are
counted per place (fired_meta["where"]).
"""
from __future__ import annotations

import json
import traceback
import warnings

from .. import c06_faults as CF, c06_gen as G6
from .. import fingerprint as F, snap as S
from ..evidence import Run, canon_hash

PID = "C06"
SHARDS = {"quick": 8, "thorough": 16}
SHARD_TIMEOUT = {"quick": 600, "thorough": 2700}
N_A = {"quick": 7000, "thorough": 200000}
N_B = {"quick": 640, "thorough": 16000}
MAX_ALL = 64

K_D2 = "regex-column-name-not-restored-after-failed-validate"
K_D3 = "pandas-drop-invalid-rows-scalar-failure-cases"
K_D11 = "polars-lazyframe-failure-cases-not-implemented"
K_D25 = "joint-unique-all-listed-columns-absent"
K_D26 = "add-missing-columns-try-coerce-parser-error-unhandled"


def new_run():
    return Run(
        PID, "fault_enumeration",
        "part A case = (schema, data, call options) for pandas or polars from "
        "pvm.gen.spec plus hostile transformations (drop_invalid_rows with "
        "non-row errors, lazy polars frame-level errors, empty frames, "
        "duplicate / non-string labels, regex columns, wrongly typed columns "
        "under value checks, dtype=None+coerce, add_missing_columns, "
        "non-dataframe arguments, validation depth); part B case = (schema "
        "dense in user callbacks, data, k): the k-th user-callback invocation "
        "raises; callbacks = check fn (vectorised / element-wise / groupby / "
        "frame / row-wise), groupby fn, column / element-wise / frame parser, "
        "custom DataType.check / coerce / coerce_value; a share of them edits "
        "its argument in place (s[s < 0] = 0 style) and notes each real edit; "
        "data: conforming, coercible text, or cells no coercion converts; "
        "index: none / Index / MultiIndex of 2-3 levels with coerce on the "
        "MultiIndex, on every level, on some levels or nowhere; optional "
        "dataframe-wide dtype; custom checks also carry raise_warning=True / "
        "groups= (present and absent group keys); drop_invalid_rows=True on "
        "the schema (20 %) and / or on one to three Columns (25 %, also the "
        "stand-alone Column and the SeriesSchema; such a component runs its "
        "callbacks once to drop rows and again on the remaining rows, so a "
        "check has several invocations per call and the k-th may fall into "
        "either pass); every fault point is run "
        "twice: (1) one of 9 exception classes, drawn per case, made with one "
        "message argument; (2) one of 16 classes and one of 19 other shapes "
        "of exception object, drawn per fault point: no argument at all "
        "(Class(), raise Class, bare assert, keyword-only constructor), "
        "several arguments, a non-string first argument (int, 0, None, tuple, "
        "empty tuple, bytes, another exception), empty message, message with "
        "quotes / braces / % / newlines / non-ASCII, raise .. from .., raised "
        "inside an except block, or the SchemaError / SchemaErrors of a "
        "validate call nested in the callback. distinct = canonical hash of "
        "the descriptor (+k, +class and shape for the second run); "
        "non-trivial = A: the call did not simply accept a conforming frame "
        "(an error path or a hostile transformation was exercised); B: the "
        "fault was actually fired inside validate",
        ["injected exceptions derive from Exception (plain, or with a "
         "ValueError / TypeError / KeyError / AttributeError / RuntimeError / "
         "ZeroDivisionError / IndexError / NotImplementedError mix-in; second "
         "run also AssertionError / LookupError / OverflowError / OSError / "
         "UnicodeError / ImportError / EOFError); StopIteration and "
         "exceptions whose __str__ / __repr__ raise are not injected",
         "an exception of a validate call nested in a *check* must come back "
         "as a failed check (CHECK_ERROR or DATAFRAME_CHECK) or propagate as "
         "it is (counted, not judged); nested in any other callback the "
         "channel is not judged (undecided:nested-validate-error-from-<kind>), "
         "the state afterwards still is",
         "a raising check declared with raise_warning=True may be reported "
         "as CHECK_ERROR (what pandera does) or, when validate returns, by a "
         "SchemaWarning (counted as undecided); returning without either is "
         "a swallowed check",
         "caller's data is compared by value (pvm.snap) only for "
         "inplace=False; in-place editing callbacks only write values of the "
         "container's own dtype, so no edit can fail by itself",
         "a fault in a custom coerce_value must come back as SchemaError(s) "
         "(docs/source/dtypes.md: coerce_value is how pandera finds the values "
         "to report as coercion errors); a fault in a custom DataType.coerce / "
         "check / parser / groupby fn may propagate as the injected object "
         "(pandas wraps coerce, polars does not: counted per backend under "
         "fault_outcome:<backend>:..., not judged)",
         "callback invocation order is deterministic for a rebuilt case "
         "(verified: the kind of the k-th invocation is the same in the "
         "counting run and in the fault run)",
         "pandas and polars backends only; frames <= 6 rows x <= 7 columns",
         "drop_invalid_rows=True (on the schema or on a Column) does not "
         "change what a *raising* check is: an exception is no verdict about "
         "rows, there is nothing to drop in its place, so validate must "
         "still raise SchemaErrors naming CHECK_ERROR - whichever of the "
         "passes a row-dropping component makes over its data the raising "
         "invocation belongs to (pandas does so on purpose: "
         "can_drop_invalid_rows); returning a frame is a swallowed check. "
         "Not judged there: the error of a validate call nested in the "
         "check (it names rows of its own, which may be dropped)",
         "not judged: pandera.errors.BackendNotFoundError for a non-dataframe "
         "argument (the repository's tests accept it beside TypeError); the "
         "deliberate IndexError of get_regex_columns when a regex column name "
         "(string / tuple) does not fit the number of column levels (pinned "
         "by tests/core/test_schema_components.py); polars under SCHEMA_ONLY "
         "depth: a lazy coercion cast that fails when the plan is "
         "materialised (docs/source/polars.md: coercion without collect); "
         "sample= larger than the frame passed (caller's argument error), "
         "also when strict='filter' removed every column of a polars frame "
         "(no columns = no rows in polars)"])


# ------------------------------------------------------------------ plumbing
def cfg_state():
    import pandera.config as cfg
    c = cfg.get_config_context(validation_depth_default=None)
    g = cfg.CONFIG
    f = lambda x: (x.validation_enabled,  # noqa: E731
                   getattr(x.validation_depth, "name", None),
                   x.cache_dataframe, x.keep_cached_dataframe)
    return {"context": f(c), "global": f(g)}


def frames_of(e):
    tb = traceback.extract_tb(e.__traceback__)
    return [f"{f.filename.split('/pandera/')[-1]}:{f.name}"
            for f in tb if "/pandera/" in f.filename]


def site(e):
    fr = frames_of(e)
    return f"{type(e).__name__}@{fr[-1] if fr else ''}"


class Obs:
    """What the boundary monitor saw for one validate call."""
    pass


class BuildError(Exception):
    """The case could not be constructed (not a validate() outcome)."""


def execute(d, faults):
    import pandera.config as cfg
    import pandera.errors as pe
    o = Obs()
    try:
        schema, obj, kw, is_frame = G6.build(d, faults)
    except Exception as e:   # schema / frame construction is not validate()
        raise BuildError(f"{type(e).__name__}") from e
    o.is_frame, o.kw = is_frame, kw
    CF.CURRENT[0] = faults
    fp0 = F.fp(schema)
    cfg0 = cfg_state()
    try:
        snap0 = S.snap(obj) if is_frame else None
    except Exception:
        snap0 = None
    depth = d["call"].get("depth")
    o.kind, o.exc, o.result, o.reasons = "ok", None, None, []
    o.schema_warnings = 0
    caught = warnings.catch_warnings(record=True)
    wlog = caught.__enter__()
    warnings.simplefilter("always")
    try:
        if depth:
            with cfg.config_context(
                    validation_depth=cfg.ValidationDepth[depth]):
                o.result = schema.validate(obj, **kw)
        else:
            o.result = schema.validate(obj, **kw)
    except pe.SchemaErrors as e:
        o.kind, o.exc = "SchemaErrors", e
        try:
            o.reasons = [x.reason_code.name for x in e.schema_errors]
        except Exception:
            o.reasons = ["?"]
    except pe.SchemaError as e:
        o.kind, o.exc = "SchemaError", e
        o.reasons = [getattr(e.reason_code, "name", "?")]
    except (pe.SchemaDefinitionError, pe.SchemaInitError) as e:
        o.kind, o.exc = "usage", e
    except BaseException as e:  # noqa: BLE001 - this is what we are looking for
        o.kind, o.exc = "exc", e
    finally:
        CF.CURRENT[0] = None
        caught.__exit__(None, None, None)
        o.schema_warnings = sum(
            1 for w in wlog if issubclass(w.category, pe.SchemaWarning))
    o.fp_diff = None
    try:
        o.fp_diff = all_name_diffs(fp0, F.fp(schema))
    except Exception as e:
        o.fp_diff = [("<fingerprint failed>", repr(e)[:100], "")]
    cfg1 = cfg_state()
    o.cfg_diff = None if cfg1 == cfg0 else {"before": cfg0, "after": cfg1}
    if o.cfg_diff:
        cfg.reset_config_context()
    o.input_diff = None
    if snap0 is not None and not kw.get("inplace"):
        try:
            o.input_diff = S.diff(snap0, S.snap(obj))
        except Exception as e:
            o.input_diff = f"snapshot failed: {e!r}"[:200]
    return o


def all_name_diffs(a, b, path="$", out=None):
    if out is None:
        out = []
    if len(out) > 20:
        return out
    if type(a) is not type(b):
        out.append((path, repr(a)[:80], repr(b)[:80]))
    elif isinstance(a, dict):
        for k in list(a) + [k for k in b if k not in a]:
            if k not in a or k not in b:
                out.append((f"{path}.{k}", repr(a.get(k))[:80], repr(b.get(k))[:80]))
            else:
                all_name_diffs(a[k], b[k], f"{path}.{k}", out)
    elif isinstance(a, list):
        if len(a) != len(b):
            out.append((path, f"len {len(a)}", f"len {len(b)}"))
        else:
            for i, (x, y) in enumerate(zip(a, b)):
                all_name_diffs(x, y, f"{path}[{i}]", out)
    elif a != b:
        out.append((path, repr(a)[:80], repr(b)[:80]))
    return out


def has_regex(d):
    sp = d["spec"]
    return sp["kind"] == "frame" and any(c.get("regex") for c in sp["columns"])


def any_drop(d):
    sp = d["spec"]
    if sp.get("drop_invalid_rows"):
        return True
    fields = sp["columns"] if sp["kind"] == "frame" else [sp["field"]]
    return any(f.get("drop_invalid_rows") for f in fields) or any(
        f.get("drop_invalid_rows") for f in (sp.get("index") or []))


# ------------------------------------------------------------------ classifier
K_NODTYPE_ADD = "add-missing-columns-column-without-dtype"
K_PL_NODTYPE_COERCE = "polars-coerce-column-without-dtype"
K_PL_SAMPLE = "polars-sample-option-unsupported-on-lazyframe"
K_PL_DROP_SHAPE = "polars-drop-invalid-rows-check-output-shape-mismatch"
K_PL_ADD_SELECT = "polars-add-missing-columns-final-select-of-absent-or-filtered-column"
K_PL_ABSENT = "polars-core-parsers-touch-absent-column"
K_PL_DEFAULT_TYPE = "polars-default-fill-on-differently-typed-column"
K_PD_DEFAULT_TYPE = "pandas-default-fill-on-differently-typed-column"
K_NONFRAME = "non-dataframe-argument-not-typeerror"
K_MI_COLS = "pandas-multiindex-columns-with-scalar-schema-keys"
K_UNHASHABLE = "unique-on-unhashable-cells"
K_COL_DROP = "pandas-column-level-drop-invalid-rows-none-check-obj"
K_FRAME_COERCE_FC = "frame-dtype-coercion-failure-cases-reshape"
K_JOINT_DUPIDX = "joint-unique-failure-cases-duplicate-or-null-index-labels"
K_MI_SCHEMA = "multiindex-schema-coerce-on-plain-index"
K_DROP_SAMPLE = "population-shrunk-by-validation-before-sample"
K_UNIQUE_COLNAMES = "unique-column-names-on-multiindex-columns"
K_PL_NODTYPE_DEFAULT = "polars-default-on-column-without-dtype"
K_COERCE_VALUE = "coerce-value-exception-escapes-coercion-failure-cases"
K_INDEX_COERCE = "index-component-coerce-override-written-into-schema"
K_COMPONENT_OVERRIDE = "column-component-dtype-or-coerce-override-written-into-schema"
K_SHARED_BLOCKS = "pandas-object-validated-on-copy-sharing-memory-with-callers-data"
K_HANDLER = "check-error-handler-fails-on-the-shape-of-the-users-exception"
K_COL_DROP_PARSER = "pandas-column-drop-invalid-rows-with-parsers-frame-replaced-by-parsed-column"
K_PL_DROP_SWALLOW = "polars-drop-invalid-rows-raising-check-swallowed"


def _fields(d):
    sp = d["spec"]
    return sp["columns"] if sp["kind"] == "frame" else [sp["field"]]


def _labels(d):
    return [G6.dec_label(c["name"]) for c in d["table"]["columns"]]


def absent_declared(d):
    if d["spec"]["kind"] != "frame":
        return []
    labels = set(map(repr, _labels(d)))
    return [f for f in _fields(d) if not f.get("regex")
            and repr(G6.dec_label(f.get("key", f["name"]))) not in labels]


def mi_columns(d):
    labs = _labels(d)
    return bool(labs) and all(isinstance(x, tuple) for x in labs)


def partial_keys(d):
    """Non-regex schema keys that only *partially* index the MultiIndex
    columns of the data (a scalar, or a tuple shorter than the number of
    levels, equal to the leading part of some column label)."""
    if not mi_columns(d):
        return []
    labs = _labels(d)
    out = []
    uq = d["spec"].get("unique") or []
    joint = [x for g in uq for x in (g if isinstance(g, list) else [g])]
    keys = [dec_key(f) for f in _fields(d) if not f.get("regex")]
    for k in keys + [G6.dec_label(x) for x in joint]:
        kt = k if isinstance(k, tuple) else (k,)
        if any(len(kt) < len(lab) and lab[:len(kt)] == kt for lab in labs):
            out.append(k)
    return out


def dec_key(f):
    return G6.dec_label(f.get("key", f["name"]))


def all_columns_filtered(d):
    """strict='filter' and no column of the data is declared in the schema."""
    import re
    if d["spec"].get("strict") != "filter" or d["spec"]["kind"] != "frame":
        return False
    for lab in _labels(d):
        for f in _fields(d):
            k = dec_key(f)
            if f.get("regex"):
                try:
                    if re.search(str(k), str(lab)):
                        return False
                except re.error:
                    return False
            elif str(k) == str(lab):
                return False
    return True


def regex_name_shape_mismatch(d):
    """A regex column whose name is a string while the data has MultiIndex
    columns, or a tuple whose length differs from the number of levels."""
    labs = _labels(d)
    for f in _fields(d):
        if not f.get("regex"):
            continue
        k = dec_key(f)
        if not isinstance(k, tuple) and mi_columns(d):
            return True
        if isinstance(k, tuple) and labs and not all(
                isinstance(lab, tuple) and len(lab) == len(k) for lab in labs):
            return True
    return False


def has_unhashable(d):
    return any(isinstance(v, dict) for c in d["table"]["columns"]
               for v in c["values"])


def dup_index(d):
    ix = d["table"].get("index")
    if not ix:
        return False
    rows = list(zip(*[lv["values"] for lv in ix["levels"]]))
    return len(set(map(repr, rows))) != len(rows) or any(
        v is None for r in rows for v in r)


def mi_schema_plain_index(d):
    ix = d["spec"].get("index")
    tix = d["table"].get("index")
    return bool(ix) and len(ix) > 1 and (not tix or len(tix["levels"]) < 2)


def any_coerce(d):
    return bool(d["spec"].get("coerce")) or any(f.get("coerce") for f in _fields(d)) \
        or any(f.get("coerce") for f in (d["spec"].get("index") or []))


def classify_leak(d, o):
    """Mechanism of an exception outside the documented channel (witness =
    descriptor + exception type + pandera frames of the traceback)."""
    e = o.exc
    fr = frames_of(e)
    name = type(e).__name__
    mod = type(e).__module__ or ""
    msg = str(e)
    last = fr[-1] if fr else ""
    sp, call = d["spec"], d["call"]
    pandas, polars = d["backend"] == "pandas", d["backend"] == "polars"
    fields = _fields(d)
    if not o.is_frame:
        return K_NONFRAME if pandas or polars else None
    if (pandas and name == "TypeError" and any_drop(d)
            and last == "backends/pandas/base.py:drop_invalid_rows"):
        return K_D3
    if (polars and name == "NotImplementedError"
            and last == "backends/polars/base.py:failure_cases_metadata"):
        return K_D11
    if (name == "ParserError" and sp.get("add_missing_columns")
            and "backends/pandas/container.py:_construct_missing_df" in fr):
        return K_D26
    if (name == "AttributeError" and sp.get("add_missing_columns")
            and any(f["dtype"] is None for f in absent_declared(d))
            and ("backends/pandas/container.py:_construct_missing_df" in fr
                 or last == "backends/polars/container.py:add_missing_columns")):
        return K_NODTYPE_ADD
    if (polars and name == "AttributeError"
            and last == "backends/polars/container.py:_coerce_dtype_helper"
            and any(f["dtype"] is None and (f.get("coerce") or sp.get("coerce"))
                    for f in fields)):
        return K_PL_NODTYPE_COERCE
    if (polars and name == "AttributeError" and call.get("sample")
            and last == "backends/polars/base.py:subsample"):
        return K_PL_SAMPLE
    if (polars and name == "ShapeError" and mod.startswith("polars") and any_drop(d)
            and (last == "backends/polars/base.py:drop_invalid_rows"
                 or (msg.startswith("filter's length")
                     and any(call.get(k) for k in ("head", "tail", "sample"))))):
        # check outputs of different heights (a check that does not return
        # one boolean per row, or rows validated on a head/tail/sample subset)
        # are combined into one row filter
        return K_PL_DROP_SHAPE
    if (polars and name == "AttributeError"
            and last == "backends/polars/components.py:set_default"
            and any(f["dtype"] is None and f.get("default") is not None
                    for f in fields)):
        return K_PL_NODTYPE_DEFAULT
    if (name in ("ValueError", "ComputeError") and sp.get("unique")
            and not sp.get("add_missing_columns")
            and last.endswith(":check_column_values_are_unique")):
        names = {str(c["name"]) for c in d["table"]["columns"]}
        uq = sp["unique"]
        groups = [uq] if all(isinstance(x, str) for x in uq) else uq
        if any(not [x for x in g if x in names] for g in groups):
            return K_D25
    if polars and name == "ColumnNotFoundError":
        absent = absent_declared(d)
        declared = {str(f.get("key", f["name"])) for f in fields}
        undeclared = [l for l in _labels(d) if str(l) not in declared]
        if (sp.get("add_missing_columns") and any(f.get("required", True) for f in absent)
                and (any(not f.get("required", True) for f in absent)
                     or (undeclared and sp.get("strict") == "filter"))):
            return K_PL_ADD_SELECT
        if any(f.get("coerce") or sp.get("coerce") or f.get("default") is not None
               for f in absent):
            return K_PL_ABSENT
        return None
    if (polars and mod.startswith("polars")
            and name in ("SchemaError", "InvalidOperationError", "ComputeError")
            and any(f.get("default") is not None for f in fields)
            and ("backends/polars/components.py:set_default" in fr
                 or "supertype" in msg or "'literal'" in msg)):
        return K_PL_DEFAULT_TYPE
    if (pandas and name == "TypeError" and "Invalid value" in msg
            and last.endswith((":set_defaults", ":set_default"))
            and any(f.get("default") is not None for f in fields)):
        return K_PD_DEFAULT_TYPE
    if (pandas and name == "ValueError" and "larger sample than" in msg
            and sp["kind"] == "series" and sp.get("index") and any_drop(d)
            and call.get("sample")
            and call["sample"] <= len((d["table"]["columns"] or [{"values": []}])[0]["values"])
            and "api/pandas/array.py:validate" in fr
            and last == "backends/pandas/base.py:subsample"):
        # the caller's sample size fits the series he passed; drop_invalid_rows
        # shrank it before the index was validated with the same sample size
        return K_DROP_SAMPLE
    if (pandas and name == "TypeError" and "unhashable" in msg and has_unhashable(d)
            and (sp.get("unique") or any(f.get("unique") for f in fields))
            and last in ("backends/pandas/array.py:check_unique",
                         "backends/pandas/container.py:check_column_values_are_unique")):
        return K_UNHASHABLE
    if (pandas and name == "TypeError" and "'NoneType' object is not subscriptable" in msg
            and any(f.get("drop_invalid_rows") for f in fields)
            and "backends/pandas/components.py:validate" in fr):
        return K_COL_DROP
    if (pandas and sp["kind"] == "frame"
            and any(f.get("drop_invalid_rows") and f.get("parsers") for f in fields)
            and ((name == "AssertionError" and last ==
                  "backends/pandas/container.py:run_schema_component_checks")
                 or (name == "KeyError"
                     and last == "backends/pandas/components.py:validate"))):
        # the row-dropping pass of a Column with parsers hands back the parsed
        # column; ColumnBackend.validate goes on with it in place of the frame
        return K_COL_DROP_PARSER
    if (pandas and sp.get("dtype") is not None
            and "engines/utils.py:numpy_pandas_coerce_failure_cases" in fr):
        return K_FRAME_COERCE_FC
    if (pandas and name == "ValueError" and sp.get("unique") and dup_index(d)
            and last == "backends/pandas/error_formatters.py:reshape_failure_cases"):
        return K_JOINT_DUPIDX
    # partial keys first: their ValueError comes from the container helpers,
    # the MultiIndex-schema one from components.py (a case can have both tags)
    if pandas and partial_keys(d) and last.startswith("backends/pandas/"):
        pk = {repr(k) for k in partial_keys(d)}
        if name == "KeyError" and e.args:
            a = e.args[0]
            missing = list(a) if hasattr(a, "__iter__") and not isinstance(
                a, (str, tuple)) else [a]
            if missing and all(repr(m) in pk for m in missing):
                return K_MI_COLS
        if (name == "ValueError" and "cannot reindex on an axis with duplicate labels" in msg
                and last in ("backends/pandas/container.py:_coerce_dtype_helper",
                             "backends/pandas/container.py:set_defaults")):
            # the partial key selects several (repeated) columns at once
            return K_MI_COLS
    if (pandas and mi_schema_plain_index(d) and any_coerce(d)
            and name in ("BackendNotFoundError", "ValueError")
            and any(f.endswith(":coerce_dtype") for f in fr)):
        return K_MI_SCHEMA
    if (pandas and name == "TypeError" and sp.get("unique_column_names")
            and last == "backends/pandas/container.py:check_column_names_are_unique"):
        return K_UNIQUE_COLNAMES
    return None


def not_judged(d, o):
    """Regions where an exception outside the statement's list is documented /
    pinned behaviour, so the statement does not decide them."""
    e = o.exc
    fr = frames_of(e)
    last = fr[-1] if fr else ""
    name = type(e).__name__
    mod = type(e).__module__ or ""
    call = d["call"]
    if (d["backend"] == "pandas" and name == "IndexError"
            and last == "backends/pandas/components.py:get_regex_columns"
            and regex_name_shape_mismatch(d)):
        # deliberate usage error with an explanatory message; pinned by
        # tests/core/test_schema_components.py (test_column_regex*)
        return "regex-name-shape-vs-columns-nlevels-IndexError(pinned-by-tests)"
    schema_only = call.get("depth") == "SCHEMA_ONLY" or (
        call.get("lazyframe") and not call.get("depth"))
    if (d["backend"] == "polars" and mod.startswith("polars") and schema_only
            and any_coerce(d) and name in ("InvalidOperationError", "ComputeError")
            and last in ("api/polars/container.py:validate",
                         "backends/polars/base.py:subsample")):
        # docs/source/polars.md: without data-level validation coercion is a
        # lazy cast "done without .collect()"; a cast that cannot succeed
        # surfaces as a polars error wherever the plan is materialised
        return "polars-schema-only-lazy-cast-fails-when-materialised"
    if (d["backend"] == "polars" and name == "ShapeError" and mod.startswith("polars")
            and "larger sample than the total population" in str(e)
            and call.get("sample") and all_columns_filtered(d)
            and last == "backends/polars/base.py:subsample"):
        # a polars frame without columns has no rows: once strict='filter'
        # removed every column, any sample= is larger than the population
        # (the same argument error as sample= larger than the frame)
        return "polars-sample-after-every-column-was-filtered-out"
    return None


def classify_state(d, o):
    if o.fp_diff and all(p.endswith(".name") for p, _, _ in o.fp_diff) \
            and has_regex(d) and d["backend"] == "pandas" and o.kind != "ok":
        return K_D2
    if o.fp_diff and d["backend"] == "pandas":
        paths = [p for p, _, _ in o.fp_diff]
        if all(p.startswith("$.index") and p.endswith("coerce")
               for p in paths) and d["spec"].get("index"):
            # the temporary coerce=False of run_schema_component_checks (or
            # its restoration through the MultiIndex.coerce property, which
            # reads '_coerce or any(level.coerce)' and writes '_coerce')
            return K_INDEX_COERCE
        if all(p.startswith("$.columns") and ("coerce" in p or "dtype" in p)
               for p in paths) and (
                d["spec"].get("dtype") is not None or d["spec"].get("coerce")):
            return K_COMPONENT_OVERRIDE
    return None


def drop_level(d, fired_meta):
    """Where drop_invalid_rows=True is in play for the check a fault fired in:
    on the check's own Column ('column'), on another component only
    ('other-column'), on the DataFrameSchema / SeriesSchema ('schema'), on
    both ('schema+column'); '' when nowhere."""
    sp = d["spec"]
    top = bool(sp.get("drop_invalid_rows")) or (
        sp["kind"] == "series" and bool(sp["field"].get("drop_invalid_rows")))
    if d["call"].get("component") is not None:
        top = False          # the DataFrameSchema is not part of the call
    own = bool(fired_meta.get("col_drop")) and sp["kind"] == "frame"
    if top:
        return "schema+column" if own else "schema"
    if own:
        return "column"
    return "other-column" if any_drop(d) and sp["kind"] == "frame" \
        and d["call"].get("component") is None else ""


def classify_swallowed(d, o, drop):
    """A check raised on a component / schema with drop_invalid_rows=True and
    validate returned, or raised SchemaErrors that do not mention it."""
    if d["backend"] == "polars" and drop in ("schema", "column", "schema+column"):
        # PolarsSchemaBackend.drop_invalid_rows builds the row filter from
        # the check_output of every collected error; a CHECK_ERROR has none
        # (None), contributes nothing to the filter and is dropped with the
        # error handler
        return K_PL_DROP_SWALLOW
    return None


def classify_input(d, o, mutations):
    """Caller's data changed although inplace=False: attributed to shared
    memory only when a callback of the case did edit its argument in place
    (noted by the callback itself)."""
    if d["backend"] == "pandas" and mutations and not o.kw.get("inplace"):
        return K_SHARED_BLOCKS
    return None


# ------------------------------------------------------------------ oracles
def channel(run, d, o, part, injected=None, inj_kind=None, extra=None):
    """B-CHANNEL.  Returns True when the outcome is inside the channel."""
    import pandera.errors as pe
    run.count(f"channel_evaluated:{part}:{d['backend']}")
    if o.kind in ("ok", "SchemaError", "SchemaErrors", "usage"):
        run.count(f"outcome:{o.kind}")
        if o.kind == "SchemaError" and o.kw.get("lazy"):
            run.count("undecided:lazy-call-raised-SchemaError")
        if o.kind == "SchemaErrors" and not o.kw.get("lazy"):
            run.count("undecided:eager-call-raised-SchemaErrors")
        return True
    e = o.exc
    if not o.is_frame:
        if isinstance(e, TypeError):
            run.count("outcome:TypeError-for-non-dataframe")
            return True
        if isinstance(e, pe.BackendNotFoundError):
            run.count("undecided:non-dataframe-arg-BackendNotFoundError")
            return True
    if (injected is not None and e is injected
            and inj_kind not in CF.CHECK_KINDS
            and inj_kind not in CF.REPORTED_KINDS):
        run.count(f"outcome:injected-object-propagated:{inj_kind}")
        return True
    if not isinstance(e, Exception):
        # KeyboardInterrupt etc. are not pandera's; pyo3 PanicException is
        if type(e).__name__ not in ("PanicException",):
            raise e
    if o.is_frame and not (injected is not None and e is injected):
        region = not_judged(d, o)
        if region:
            run.count("undecided:" + region)
            return True
    w = witness(d, o) | {"exception": repr(e)[:300], "site": site(e),
                         "pandera_frames": frames_of(e)[-6:],
                         "part": part, "non_dataframe_argument": not o.is_frame}
    w |= extra or {}     # k, N, callback kind, fault base: what replay needs
    if injected is not None:
        w["injected_at"] = inj_kind
        w["is_injected_object"] = e is injected
    mech = classify_leak(d, o)
    if injected is not None and e is injected:
        kind = "raising-check-propagated-instead-of-reported"
        if inj_kind in CF.REPORTED_KINDS:
            # docs/source/dtypes.md: coerce_value tells pandera which values
            # cannot be coerced; its exception is a failure case to report
            kind = f"raising-{inj_kind}-propagated-instead-of-reported"
            if frames_of(e)[-1:] == ["engines/utils.py:_coercible"]:
                mech = K_COERCE_VALUE
    else:
        kind = f"internal-exception-leaked:{site(e)}"
        if (mech is None and injected is not None
                and e is not injected
                and frames_of(e)[-1:] and frames_of(e)[-1].endswith(":run_checks")):
            # the handler that turns a raising check into a failed check
            # raised itself while describing the user's exception object
            mech = K_HANDLER
    run.violation(kind, w, mech)
    return False


def witness(d, o):
    return {"descriptor": d, "outcome": o.kind, "reasons": o.reasons[:8],
            "validate_kwargs": o.kw}


def state(run, d, o, part, extra=None, mutations=0):
    """Schema / config / caller's data afterwards == before."""
    run.count(f"state_evaluated:{part}")
    ok = True
    if o.fp_diff:
        ok = False
        run.violation("schema-changed-by-failed-call",
                      witness(d, o) | {"diffs": o.fp_diff[:6]} | (extra or {}),
                      classify_state(d, o))
    if o.cfg_diff:
        ok = False
        run.violation("config-changed-by-failed-call",
                      witness(d, o) | o.cfg_diff | (extra or {}), None)
    if o.input_diff:
        ok = False
        run.violation("callers-data-changed-by-failed-call",
                      witness(d, o) | {"diff": o.input_diff} | (extra or {})
                      | {"in_place_edits_by_callbacks_during_the_call": mutations},
                      classify_input(d, o, mutations))
    if ok:
        run.count(f"state_unchanged:{part}")
    return ok


# ------------------------------------------------------------------ part A
def part_a(run, ctx, i):
    rng = ctx.rng(PID, "A", i)
    backend = "polars" if i % 3 == 2 else "pandas"
    d = G6.hostile(rng, backend)
    try:
        o = execute(d, CF.Faults())
    except BuildError as be:
        run.count(f"build_error:{be.args[0]}")
        return
    hostile_tags = [t for t in d["tags"]]
    nontrivial = o.kind != "ok" or any(not t.startswith("mut:") for t in hostile_tags)
    run.case(canon_hash(d), nontrivial,
             sample={"part": "A", "backend": backend, "tags": d["tags"],
                     "call": d["call"], "outcome": o.kind, "reasons": o.reasons[:4],
                     "n_columns": len(d["table"]["columns"])})
    for t in d["tags"]:
        run.count("A:tag:" + t.split(":")[0])
        if t.startswith(("arg", "cells", "drop_invalid_rows", "depth")):
            run.count("A:tag:" + t)
    run.count(f"A:backend:{backend}")
    run.count(f"A:lazy={bool(d['call'].get('lazy'))}")
    for r in set(o.reasons):
        run.count(f"A:reason:{r}")
    channel(run, d, o, "A")
    # state after a plain (no user callback failed) call is C04/C05's subject
    if o.fp_diff:
        run.count("undecided:schema-changed-after-plain-call(C05)")
    if o.input_diff:
        run.count("undecided:input-changed-after-plain-call(C04)")
    if o.cfg_diff:
        run.violation("config-changed-by-call",
                      witness(d, o) | o.cfg_diff, None)


# ------------------------------------------------------------------ part B
def fault_points(n, rng):
    if n <= MAX_ALL:
        return list(range(1, n + 1)), True
    pts = set(range(1, 17)) | set(range(n - 15, n + 1))
    pts |= set(rng.sample(range(17, n - 15), min(32, n - 32)))
    return sorted(pts), False


def part_b(run, ctx, i):
    rng = ctx.rng(PID, "B", i)
    backend = "polars" if i % 3 == 2 else "pandas"
    d = G6.callbacks_case(rng, backend)
    base = rng.choice(list(CF.FAULT_BASES))
    f0 = CF.Faults()
    try:
        o0 = execute(d, f0)
    except BuildError as be:
        run.count(f"build_error:{be.args[0]}")
        return
    n = f0.count
    run.count("B:cases")
    run.count(f"B:backend:{backend}")
    for t in d["tags"]:
        if t != "callbacks":
            run.count("B:tag:" + t)
    if f0.mutations:
        run.count("B:cases_with_in_place_editing_callback")
    run.count(f"B:counting_run_outcome:{o0.kind}")
    channel(run, d, o0, "B0")
    if o0.fp_diff:
        run.count("undecided:schema-changed-after-plain-call(C05)")
    if n == 0:
        run.count("B:cases_without_callback_invocation")
        run.case(canon_hash([d, 0]), False)
        return
    pts, complete = fault_points(n, rng)
    run.count("B:cases_fully_enumerated" if complete else "B:cases_sampled")
    run.count("B:callback_invocations_counted", n)
    for k in pts:
        # every fault point twice: once with the exception class drawn for the
        # case, made the way fault injectors make exceptions (one message
        # argument), once with another *shape* of exception object (no
        # argument at all, several / non-string arguments, keyword-only
        # constructor, chained, raised by a bare assert, by a nested
        # validate ...) of a class drawn per fault point
        fault_run(run, d, f0, n, k, base, "message", backend,
                  with_sample=k == pts[0])
        shape = rng.choice(SHAPE_DRAW)
        base2 = rng.choice(list(CF.ALL_BASES))
        fault_run(run, d, f0, n, k, base2, shape, backend,
                  with_sample=k == pts[-1])


# the second run of a fault point: every shape but "message"; the shapes
# without any argument are what python code raises most often without thinking
# (bare assert / raise Class), so they are drawn three times as often
SHAPE_DRAW = [s for s in CF.ALL_SHAPES if s != "message"] \
    + 2 * list(CF.ARGLESS_SHAPES)


def shape_class(shape):
    if shape in CF.ARGLESS_SHAPES:
        return "argless"
    if shape in CF.NESTED_SHAPES:
        return "nested-validate"
    if shape in ("message", "empty_message", "markup_message"):
        return "one-str-arg"
    if shape in ("chained", "in_handler"):
        return "chained"
    return "other-args"


def fault_run(run, d, f0, n, k, base, shape, backend, with_sample=False):
    f = CF.Faults(target=k, base=base, shape=shape, backend=backend)
    o = execute(d, f)
    fired = f.fired is not None
    first = shape == "message"
    run.case(canon_hash([d, k, base] if first else [d, k, base, shape]), fired,
             sample={"part": "B", "backend": backend, "tags": d["tags"],
                     "call": d["call"], "N": n, "k": k,
                     "callback": f.fired[0] if fired else None,
                     "fault_base": base, "fault_shape": shape,
                     "raised": repr(f.fired[1])[:120] if fired else None,
                     "outcome": o.kind,
                     "reasons": o.reasons[:4]} if with_sample else None)
    if not fired:
        run.count("B:fault_not_reached")
        return o
    kind, exc = f.fired
    if k <= len(f0.log) and f0.log[k - 1] != kind:
        run.count("undecided:callback-order-not-reproducible")
        return o
    if first:
        run.count("fault_points_enumerated")
        run.count(f"fault_points:{kind}")
        run.count(f"fault_points:{backend}")
        run.count(f"fault_base:{base}")
    else:
        run.count("fault_points_second_shape")
        run.count(f"fault_shape:{shape}")
        run.count(f"fault_shape_base:{base}")
        run.count(f"fault_shape:{shape_class(shape)}:{kind}")
        run.count(f"fault_shape:{shape_class(shape)}:{backend}")
        if not exc.args:
            run.count(f"fault_without_args:{kind}")
            run.count(f"fault_without_args:{backend}")
    sfx = "" if first else ":second-shape"
    run.count(f"fault_outcome{sfx}:{kind}:{o.kind}")
    if kind in CF.OTHER_KINDS:
        run.count(f"fault_outcome{sfx}:{backend}:{kind}:{o.kind}")
    extra = {"k": k, "N": n, "callback": kind, "fault_base": base,
             "fault_shape": shape, "raised": repr(exc)[:200],
             "raised_args": repr(exc.args)[:120]}
    nested = shape in CF.NESTED_SHAPES
    if nested and kind not in CF.CHECK_KINDS:
        # a pandera error (with failure cases of its own) coming out of a
        # parser / groupby function / custom DataType method: pandera has
        # handlers for its own exception classes around these calls and the
        # statement only speaks about *checks* that raise -> the channel is
        # not judged here, the state afterwards still is
        run.count(f"undecided:nested-validate-error-from-{kind}")
        run.count(f"undecided:nested-validate-error-from-non-check:{o.kind}")
        in_channel = False
    else:
        in_channel = channel(run, d, o, "B", injected=exc, inj_kind=kind,
                             extra=extra)
    where = f.fired_meta.get("where")
    if where and d["call"].get("component") is not None:
        where = "standalone-" + where
    warn_only = bool(f.fired_meta.get("raise_warning"))
    if not first and not exc.args and kind in CF.CHECK_KINDS:
        run.count(f"fault_without_args:check@{where}:{backend}")
    drop = drop_level(d, f.fired_meta)
    if in_channel and kind in CF.CHECK_KINDS:
        run.count("check_fault_evaluated")
        if drop:
            run.count(f"check_fault_evaluated:drop_invalid_rows:{drop}:{backend}")
            run.count(f"check_fault_outcome:drop_invalid_rows:{drop}:{backend}:"
                      f"{o.kind}")
            if not nested:
                run.count("check_fault_judged:drop_invalid_rows:"
                          f"{drop}:{backend}")
        run.count(f"check_fault_evaluated@{where}:{backend}")
        if not first:
            run.count("check_fault_evaluated:" + shape_class(shape))
            run.count(f"check_fault_evaluated:second-shape@{where}:{backend}")
        if warn_only:
            # Check(raise_warning=True): a failed check is reported by a
            # SchemaWarning instead of an exception; whether that also holds
            # for a check that raises is not documented -> both accepted
            run.count("check_fault_evaluated:raise_warning-check")
        # a pandera error coming out of a validate call nested in the check
        # is also reported as an (ordinary) failed check by some backends
        failed_check = ("CHECK_ERROR", "DATAFRAME_CHECK") if nested \
            else ("CHECK_ERROR",)
        if o.kind == "SchemaErrors":
            if any(r in o.reasons for r in failed_check):
                run.count("check_fault_reported_as_CHECK_ERROR")
                if not first:
                    run.count("check_fault_reported_as_CHECK_ERROR:"
                              + shape_class(shape))
            elif nested and o.exc is exc:
                # the SchemaErrors of the nested lazy validate itself
                run.count("undecided:nested-validate-error-propagated-as-is")
            elif nested and drop:
                # the nested validate's error names rows of its own; a
                # row-dropping component may consume it by dropping rows
                # while other components' errors are raised
                run.count("undecided:drop_invalid_rows-nested-validate-error-"
                          "among-other-errors")
            else:
                run.violation("raising-check-not-reported-as-failed-check",
                              witness(d, o) | extra
                              | ({"drop_invalid_rows": drop} if drop else {}),
                              classify_swallowed(d, o, drop) if drop else None)
        elif o.kind == "SchemaError":
            if len(o.reasons) == 1 and o.reasons[0] in failed_check \
                    and o.exc is not exc:
                run.count("check_fault_reported_as_CHECK_ERROR")
                if not first:
                    run.count("check_fault_reported_as_CHECK_ERROR:"
                              + shape_class(shape))
            elif o.exc is exc:
                run.count("undecided:nested-validate-error-propagated-as-is")
            else:
                # eager mode raises the first failure of the component
                run.count("undecided:eager-raised-an-earlier-failure")
        elif o.kind == "ok":
            if drop and nested:
                # the SchemaError(s) of the nested validate carries row-shaped
                # failure cases of its own: the rows it names may be dropped
                run.count("undecided:drop_invalid_rows-nested-validate-error-"
                          "returned")
            elif warn_only and o.schema_warnings:
                # (a SchemaWarning was emitted during the call; it is not
                # attributed to this check)
                run.count("undecided:raise_warning-check-raised-and-validate-"
                          "returned-with-a-SchemaWarning")
            else:
                # also under drop_invalid_rows: an exception is not a verdict
                # about rows, there is nothing to drop in its place; a frame
                # returned as if the check had never been called is a
                # swallowed check, whichever of the (several) passes over
                # the data the raising invocation belonged to
                run.violation("raising-check-swallowed",
                              witness(d, o) | extra
                              | ({"drop_invalid_rows": drop} if drop else {}),
                              classify_swallowed(d, o, drop) if drop else None)
        else:
            run.count("undecided:check-fault-usage-error")
    elif in_channel and kind in CF.REPORTED_KINDS:
        # the fault hit the value-by-value search for coercion failure
        # cases: in the channel it can only be a reported coercion error
        run.count(f"reported_fault_evaluated:{kind}")
        if not first:
            run.count(f"reported_fault_evaluated:{kind}:second-shape")
        if "DATATYPE_COERCION" in o.reasons:
            run.count(f"reported_fault:{kind}:DATATYPE_COERCION")
        elif o.kind == "ok":
            run.count("undecided:coerce-value-fault-and-validate-returned")
        else:
            run.count("undecided:coerce-value-fault-other-reason-first")
    elif in_channel:
        run.count("other_fault_evaluated")
        if not first:
            run.count("other_fault_evaluated:second-shape")
        if o.kind == "ok":
            run.count("undecided:non-check-fault-swallowed")
    # state: which of the temporarily modified / shared things were in play
    if f.mutations and o.is_frame and not o.kw.get("inplace"):
        run.count("state_evaluated:B:after-in-place-edit-by-callback")
        for mk in f.mutated_by:
            run.count(f"state_evaluated:B:after-in-place-edit:{mk}")
        run.count("state_evaluated:B:after-in-place-edit:"
                  + d["spec"]["kind"])
    for t in d["tags"]:
        if t.startswith(("multiindex", "frame-dtype", "uncoercible",
                         "standalone-column")):
            run.count("state_evaluated:B:" + t)
    state(run, d, o, "B", extra, mutations=f.mutations)
    return o


# ------------------------------------------------------------------ driver
def run(run, ctx):
    na, nb = N_A[ctx.tier], N_B[ctx.tier]
    for i in ctx.cases(na):
        part_a(run, ctx, i)
    for i in ctx.cases(nb):
        part_b(run, ctx, i)
    run.floor("channel_evaluated:A:pandas", 20)
    run.floor("fault_points_enumerated", 20)


# floors = about a quarter of what a quick run measures on the unchanged tree
# (thorough runs ~28x the part-A cases and 25x the part-B cases of quick)
QUICK_FLOORS = {
    "channel_evaluated:A:pandas": 1100, "channel_evaluated:A:polars": 550,
    "channel_evaluated:B:pandas": 550, "channel_evaluated:B:polars": 250,
    "fault_points_enumerated": 850, "check_fault_evaluated": 520,
    "check_fault_reported_as_CHECK_ERROR": 400,
    "other_fault_evaluated": 300, "state_evaluated:B": 850,
    "B:cases_fully_enumerated": 140,
    "fault_points:pandas": 580, "fault_points:polars": 250,
    "fault_points:check_vec": 140, "fault_points:check_elem": 240,
    "fault_points:check_groupby": 23, "fault_points:check_frame": 60,
    "fault_points:check_frame_row": 40, "fault_points:groupby_fn": 20,
    "fault_points:parser": 40, "fault_points:parser_elem": 27,
    "fault_points:parser_frame": 16, "fault_points:dtype_check": 110,
    "fault_points:dtype_coerce": 55,
    "A:tag:drop_invalid_rows": 600, "A:tag:add_missing_columns": 380,
    "A:tag:coerce": 500, "A:tag:dtype=None+coerce": 200,
    "A:tag:frame-dtype": 150, "A:tag:strict=filter": 240,
    "A:tag:empty-rows": 130, "A:tag:no-columns": 60,
    "A:tag:duplicate-labels": 140, "A:tag:non-string-label": 180,
    "A:tag:regex+non-string-label": 110, "A:tag:multiindex-columns": 50,
    "A:tag:retyped-column": 500, "A:tag:cells": 170, "A:tag:LazyFrame": 300,
    "A:tag:frame-level-check": 300, "A:tag:joint-unique": 200,
    "A:tag:subsample": 250, "A:tag:depth": 190, "A:tag:arg": 65,
    "A:tag:duplicate-index-labels": 45, "A:tag:inplace": 100,
    # fault inside the value-by-value search for coercion failure cases
    "fault_points:dtype_coerce_value": 19,
    "reported_fault_evaluated:dtype_coerce_value": 19,
    "reported_fault:dtype_coerce_value:DATATYPE_COERCION": 19,
    "state_evaluated:B:uncoercible-cells": 90,
    # caller's data compared by value after callbacks that edit in place
    "B:cases_with_in_place_editing_callback": 29,
    "state_evaluated:B:after-in-place-edit-by-callback": 180,
    "state_evaluated:B:after-in-place-edit:frame": 170,
    "state_evaluated:B:after-in-place-edit:series": 9,
    "state_evaluated:B:after-in-place-edit:parser": 36,
    "state_evaluated:B:after-in-place-edit:parser_frame": 31,
    "state_evaluated:B:after-in-place-edit:check_vec": 10,
    "state_evaluated:B:after-in-place-edit:check_frame": 4,
    "state_evaluated:B:after-in-place-edit:dtype_coerce": 38,
    "state_evaluated:B:after-in-place-edit:dtype_check": 23,
    # schema components whose attributes are overridden during validate
    "state_evaluated:B:multiindex": 150,
    "state_evaluated:B:multiindex:coerce-on-some-levels": 43,
    "state_evaluated:B:multiindex:coerce=True": 20,
    "state_evaluated:B:multiindex:coerce-on-every-level": 13,
    "state_evaluated:B:multiindex:no-coerce": 15,
    "state_evaluated:B:frame-dtype": 50,
    # Column(...).validate(dataframe): a component used as a schema
    "state_evaluated:B:standalone-column": 22,
    # raising checks under drop_invalid_rows, by where the option sits
    # relative to the check the fault fired in (nested-validate shapes are
    # evaluated but not judged there)
    "B:tag:drop_invalid_rows:column": 34,
    "B:tag:drop_invalid_rows:column-with-user-check": 27,
    "check_fault_judged:drop_invalid_rows:column:pandas": 85,
    "check_fault_judged:drop_invalid_rows:column:polars": 33,
    "check_fault_judged:drop_invalid_rows:schema:pandas": 120,
    "check_fault_judged:drop_invalid_rows:schema:polars": 50,
    "check_fault_judged:drop_invalid_rows:schema+column:pandas": 15,
    "check_fault_judged:drop_invalid_rows:schema+column:polars": 5,
    "check_fault_judged:drop_invalid_rows:other-column:pandas": 55,
    "check_fault_judged:drop_invalid_rows:other-column:polars": 22,
    # every fault point a second time with another shape of exception object
    "fault_points_second_shape": 830,
    "other_fault_evaluated:second-shape": 260,
    "reported_fault_evaluated:dtype_coerce_value:second-shape": 26,
    "check_fault_evaluated:argless": 210,
    "check_fault_reported_as_CHECK_ERROR:argless": 190,
    "check_fault_evaluated:other-args": 150,
    "check_fault_reported_as_CHECK_ERROR:other-args": 130,
    "check_fault_evaluated:one-str-arg": 33,
    "check_fault_evaluated:chained": 37,
    "check_fault_evaluated:nested-validate": 37,
    "check_fault_reported_as_CHECK_ERROR:nested-validate": 33,
    "check_fault_evaluated:raise_warning-check": 90,
    "fault_shape:argless:pandas": 260, "fault_shape:argless:polars": 105,
    # exceptions without any argument, per callback kind ...
    "fault_without_args:check_vec": 63, "fault_without_args:check_elem": 95,
    "fault_without_args:check_groupby": 9, "fault_without_args:check_frame": 21,
    "fault_without_args:check_frame_row": 15, "fault_without_args:groupby_fn": 6,
    "fault_without_args:dtype_coerce": 28,
    "fault_without_args:dtype_coerce_value": 13,
    # ... and per place of the raising check (each has its own handler)
    "fault_without_args:check@column:pandas": 48,
    "fault_without_args:check@column:polars": 54,
    "fault_without_args:check@regex-column:pandas": 10,
    "fault_without_args:check@regex-column:polars": 8,
    "fault_without_args:check@frame:pandas": 23,
    "fault_without_args:check@frame:polars": 12,
    "fault_without_args:check@index:pandas": 11,
    "fault_without_args:check@multiindex-level:pandas": 14,
    "fault_without_args:check@series:pandas": 4,
    "fault_without_args:check@standalone-column:pandas": 2,
    "check_fault_evaluated:second-shape@column:pandas": 110,
    "check_fault_evaluated:second-shape@column:polars": 120,
    "check_fault_evaluated:second-shape@regex-column:pandas": 23,
    "check_fault_evaluated:second-shape@regex-column:polars": 21,
    "check_fault_evaluated:second-shape@frame:pandas": 60,
    "check_fault_evaluated:second-shape@frame:polars": 26,
    "check_fault_evaluated:second-shape@index:pandas": 26,
    "check_fault_evaluated:second-shape@multiindex-level:pandas": 32,
    "check_fault_evaluated:second-shape@series:pandas": 11,
    "check_fault_evaluated:second-shape@standalone-column:pandas": 5,
}
# every shape of exception object has to be injected (quick: >= 100 each)
QUICK_FLOORS.update({f"fault_shape:{s}": (85 if s in CF.ARGLESS_SHAPES else 25)
                     for s in CF.ALL_SHAPES if s != "message"})
QUICK_FLOORS.update({f"fault_shape_base:{b}": 44 for b in CF.ALL_BASES})


def finalize(run, ctx):
    mult = 1 if ctx.tier == "quick" else 24
    for k, v in QUICK_FLOORS.items():
        run.floors[k] = v * mult
    run.extra["fault_points_enumerated"] = int(
        run.counters.get("fault_points_enumerated", 0))
    run.extra["cases_with_all_fault_points_enumerated"] = int(
        run.counters.get("B:cases_fully_enumerated", 0))


# ------------------------------------------------------------------ replay
def replay(path):
    with open(path) as f:
        rec = json.load(f)
    w = rec["witness"]
    d = w["descriptor"]
    r = Run(PID, "fault_enumeration", "replay")
    if "k" in w:
        # every relation of a fault run (channel, raising check reported as
        # a failed check, state afterwards)
        o = fault_run(r, d, CF.Faults(), w.get("N", 0), w["k"],
                      w.get("fault_base", "Exception"),
                      w.get("fault_shape", "message"), d["backend"])
    else:
        o = execute(d, CF.Faults())
        channel(r, d, o, "A")
    print(f"outcome={o.kind} reasons={o.reasons[:6]} exc={o.exc!r}"[:400])
    for x in r.violations:
        print(f"REPLAYED {x['kind']} mechanism={x['mechanism']}")
    print(f"[{PID}] replay: {len(r.violations)} violation(s) reproduced")
    return 1 if r.violations else 0
