"""C13 — every synthesised example satisfies the schema that produced it.

Monitor: each object drawn from ``schema.strategy(size=n)`` (through
``hypothesis.given`` with an explicit seed) or returned by
``schema.example(size=n)`` is fed to the same schema's ``validate``; the only
admissible outcome is acceptance.  Schemas are satisfiable by construction
(pvm/c13_gen.py); a second family of contradictory chains must end in an
exception (``Unsatisfiable`` or any other report) and never in data.
A strategy that raises on a satisfiable schema is *not decided*.
"""
from __future__ import annotations

import json
import re
import warnings

from .. import c13_gen as G
from ..evidence import Run, canon_hash

PID = "C13"
SHARDS = {"quick": 8, "thorough": 16}
SHARD_TIMEOUT = {"quick": 170, "thorough": 1500}
N_CASES = {"quick": 560, "thorough": 9600}
N_DRAWS = {"quick": 8, "thorough": 25}


def new_run():
    return Run(
        PID, "exploration",
        "case = (schema spec, size, hypothesis seed, API strategy()/example()); "
        "schema specs come from pvm.c13_gen: a witness value is chosen per field "
        "first and every check of the 0-3 long chain is drawn among checks the "
        "witness satisfies (satisfiable by construction; unique fields are asked "
        "for at most as many rows as satisfying values are known), plus a family "
        "of contradictory chains / over-constrained unique fields. One evaluation "
        "= one case; every draw of the case is validated by the producing schema. "
        "non-trivial = at least one draw was returned and judged (or, for the "
        "contradictory family, the strategy was run to its report); distinct = "
        "canonical hash of (spec, size, mode)",
        ["pandas backend only (pandera strategies exist only for pandas)",
         "hypothesis 6.168 generate phase only, explicit seeds, no database",
         "acceptance is judged by the producing schema's own validate(lazy=True)",
         "a strategy that raises on a satisfiable schema is counted as not decided"])


# --------------------------------------------------------------------------
# drawing
# --------------------------------------------------------------------------
def _settings(n):
    import hypothesis
    from hypothesis import HealthCheck
    return hypothesis.settings(
        database=None, deadline=None, max_examples=n, derandomize=False,
        suppress_health_check=list(HealthCheck),
        phases=[hypothesis.Phase.generate], report_multiple_bugs=False,
        verbosity=hypothesis.Verbosity.quiet)


def draw_strategy(schema, case, hseed, n):
    """-> (list of draws, exception or None)"""
    import hypothesis
    out = []
    try:
        kw = {"size": case["size"]}
        if case["kind"] == "frame" and case.get("n_regex", 1) != 1:
            kw["n_regex_columns"] = case["n_regex"]
        strat = schema.strategy(**kw)

        @hypothesis.seed(hseed)
        @_settings(n)
        @hypothesis.given(strat)
        def collect(x):
            out.append(x)

        collect()
    except BaseException as e:          # noqa: BLE001
        if isinstance(e, (KeyboardInterrupt, SystemExit, MemoryError)):
            raise
        return _dedup(out), e
    return _dedup(out), None


def draw_example(schema, case, hseed, n):
    import hypothesis.core as hc
    out = []
    kw = {"size": case["size"]}
    if case["kind"] == "frame" and case.get("n_regex", 1) != 1:
        kw["n_regex_columns"] = case["n_regex"]
    old = hc.global_force_seed
    try:
        for i in range(n):
            hc.global_force_seed = hseed + i
            out.append(schema.example(**kw))
    except BaseException as e:          # noqa: BLE001
        if isinstance(e, (KeyboardInterrupt, SystemExit, MemoryError)):
            raise
        return out, e
    finally:
        hc.global_force_seed = old
    return out, None


def _dedup(objs):
    """hypothesis replays a failing example once more: drop identical repeats"""
    seen, out = set(), []
    for o in objs:
        try:
            key = (type(o).__name__, o.to_json() if hasattr(o, "to_json")
                   else repr(list(o)))
        except Exception:               # noqa: BLE001
            key = id(o)
        if key not in seen:
            seen.add(key)
            out.append(o)
    return out


# --------------------------------------------------------------------------
# judging one draw
# --------------------------------------------------------------------------
EXPECTED_TYPE = {"series": "Series", "column": "DataFrame", "index": "Index",
                 "multiindex": "MultiIndex", "frame": "DataFrame"}


def validate_draw(schema, case, d):
    """-> ("ok", None) | ("rejected", [failure dicts]) | ("exc", exception)"""
    import pandas as pd
    import pandera.errors as pe
    obj = d
    if case["kind"] in ("index", "multiindex"):
        obj = pd.DataFrame(index=d)
    try:
        schema.validate(obj, lazy=True)
        return "ok", None
    except pe.SchemaErrors as e:
        return "rejected", [_failure(x) for x in e.schema_errors]
    except pe.SchemaError as e:
        return "rejected", [_failure(e)]
    except Exception as e:              # noqa: BLE001
        return "exc", e


def _failure(err):
    import pandas as pd
    sch = err.schema
    fc = err.failure_cases
    vals = None
    if isinstance(fc, pd.DataFrame) and "failure_case" in fc.columns:
        vals = list(fc["failure_case"])[:8]
    elif not isinstance(fc, pd.DataFrame):
        vals = [fc]
    chk = err.check
    return {
        "reason": getattr(err.reason_code, "name", str(err.reason_code)),
        "schema_type": type(sch).__name__,
        "schema_name": getattr(sch, "name", None),
        "check": getattr(chk, "name", None) or (chk if isinstance(chk, str) else repr(chk)),
        "check_index": err.check_index,
        "column": getattr(err, "column_name", None),
        "values": vals,
        "message": str(err)[:300],
    }


def show(d):
    try:
        import pandas as pd
        if isinstance(d, pd.DataFrame):
            return {"type": "DataFrame", "dtypes": {str(k): str(v) for k, v in d.dtypes.items()},
                    "index": repr(d.index)[:200],
                    "data": json.loads(d.reset_index(drop=True).astype(str).to_json(orient="split"))["data"][:6]}
        if isinstance(d, pd.Series):
            return {"type": "Series", "dtype": str(d.dtype), "name": d.name,
                    "index": repr(d.index)[:200], "data": [repr(x) for x in d.tolist()[:6]]}
        return {"type": type(d).__name__, "repr": repr(d)[:400]}
    except Exception:                   # noqa: BLE001
        return {"type": type(d).__name__, "repr": repr(d)[:400]}


# --------------------------------------------------------------------------
# mechanism classifier (witness -> stable key of the defect's call site)
# --------------------------------------------------------------------------
def _field_of(case, fl):
    """the field spec a failure belongs to + where it lives"""
    name, st = fl["schema_name"], fl["schema_type"]
    pools = []
    if case["kind"] in ("series", "column", "index"):
        pools.append(("field", case["fields"]))
    elif case["kind"] == "multiindex":
        pools.append(("level", case["fields"]))
    else:
        pools.append(("column", case["fields"]))
    ix = case.get("index")
    if ix:
        pools.append(("index", ix["fields"]))
    if st == "Index":
        order = [p for p in pools if p[0] in ("index", "level", "field")]
    elif st in ("Column",):
        order = [p for p in pools if p[0] in ("column", "field")]
    elif st == "SeriesSchema":
        order = [p for p in pools if p[0] == "field"]
    else:
        order = []
    for where, fs in order:
        for f in fs:
            if f["name"] == name:
                return where, f
        for f in fs:                    # regex columns are renamed to the match
            if f.get("regex") and name is not None and re.fullmatch(f["name"], str(name)):
                return where, f
        if len(fs) == 1 and (name is None or fs[0]["name"] is None):
            return where, fs[0]
    return None, None


def _is_special(s):
    return isinstance(s, str) and re.escape(s) != s


def classify(case, fl):
    """mechanism key for ONE failure of one draw, or None"""
    where, f = _field_of(case, fl)
    reason = fl["reason"]
    return None


# --------------------------------------------------------------------------
# one case
# --------------------------------------------------------------------------
def chain_sig(f):
    return ">".join(c["k"] for c in f["checks"]) or "-"


def all_fields(case):
    return list(case["fields"]) + G._ix_fields(case.get("index"))


def count_case_classes(run, case, prefix):
    run.count(f"{prefix}kind:{case['kind']}")
    run.count(f"{prefix}size:{case['size']}")
    run.count(f"{prefix}api:{case['mode']}")
    for f in all_fields(case):
        run.count(f"{prefix}dtype:{f['dtype']}")
        run.count(f"{prefix}chain_len:{len(f['checks'])}")
        run.count(f"{prefix}flags:nullable={int(f['nullable'])},unique={int(f['unique'])}")
        for i, c in enumerate(f["checks"]):
            run.count(f"{prefix}{'base' if i == 0 else 'chained'}:{c['k']}")
            a = c["a"]
            if c["k"] == "in_range" and f["cls"] == "int" and not (
                    a["include_min"] and a["include_max"]):
                run.count(f"{prefix}int_in_range_exclusive_bound")
            if c["k"] == "str_length" and (a["min_value"] is None or a["max_value"] is None):
                run.count(f"{prefix}str_length_optional_arg_None")
            if c["k"].startswith("str_") and any(
                    _is_special(v) for v in a.values()):
                run.count(f"{prefix}regex_special_in_string_arg:{c['k']}")
        for a, b in zip(f["checks"], f["checks"][1:]):
            run.extra.setdefault("_pairs", set()).add(f"{a['k']}>{b['k']}")
        if f.get("regex"):
            run.count(f"{prefix}regex_column")
    if case.get("df_checks"):
        for c in case["df_checks"]:
            run.count(f"{prefix}df_check:{c['k']}")
    if case.get("index"):
        run.count(f"{prefix}with_index:{'multi' if case['index']['multi'] else 'single'}")
    if case.get("df_unique"):
        run.count(f"{prefix}df_unique")
    if case.get("df_dtype"):
        run.count(f"{prefix}df_dtype")


def one_case(run, case, hseed, n, verbose=False):
    import pandas as pd
    key = canon_hash([{k: v for k, v in case.items()}, "C13"])
    fam = case["family"]
    try:
        schema = G.build(case)
    except Exception as e:              # noqa: BLE001
        run.count(f"build_error:{type(e).__name__}")
        run.case(key, False)
        return
    with warnings.catch_warnings():
        warnings.simplefilter("ignore")
        if case["mode"] == "example":
            draws, exc = draw_example(schema, case, hseed, max(1, n // 4))
        else:
            draws, exc = draw_strategy(schema, case, hseed, n)
    brief = {"case": case, "hseed": hseed, "n": n}
    count_case_classes(run, case, "gen:")
    sample = {"family": fam, "kind": case["kind"], "size": case["size"],
              "api": case["mode"], "draws": len(draws),
              "strategy_exception": type(exc).__name__ if exc else None,
              "fields": [{"dtype": f["dtype"], "chain": f["checks"], "witness": f["witness"],
                          "nullable": f["nullable"], "unique": f["unique"]}
                         for f in all_fields(case)],
              "first_draw": show(draws[0]) if draws else None}

    if fam != "sat":
        # the schema has no model of the requested size: only a report is admissible
        run.case(key, True, sample=sample if run.evaluations % 7 == 3 else None)
        pat = next((f.get("pattern") for f in case["fields"] if f.get("pattern")), "?")
        run.count(f"unsat:pattern:{pat}")
        if exc is not None and not draws:
            run.count("unsat:reported")
            run.count(f"unsat:reported_as:{type(exc).__name__}")
            return
        for d in draws:
            with warnings.catch_warnings():
                warnings.simplefilter("ignore")
                verdict, info = validate_draw(schema, case, d)
            if verdict == "ok":
                run.count("unsat:GENERATOR-BUG:accepted_draw")
                run.note_inconclusive(
                    f"contradictory schema accepted a draw (generator bug): {json.dumps(case, default=repr)[:300]}")
                return
            run.count("unsat:data_emitted")
            mechs = sorted({classify(case, fl) or "" for fl in (info if verdict == "rejected" else [])})
            mech = mechs[0] if len(mechs) == 1 and mechs[0] else None
            run.violation("unsatisfiable-schema-emitted-data",
                          dict(brief, draw=show(d), verdict=verdict,
                               failures=info if verdict == "rejected" else repr(info)),
                          mech)
            if verbose:
                print("UNSAT-DATA", pat, show(d), info)
            break
        return

    # ---- satisfiable family ---------------------------------------------
    if exc is not None:
        run.count("undecided:strategy_raised")
        run.count(f"undecided:strategy_raised:{type(exc).__name__}")
        run.extra.setdefault("_raised", {}).setdefault(
            f"{type(exc).__name__}: {str(exc)[:90]}", json.dumps(
                [[f["dtype"], chain_sig(f)] for f in all_fields(case)] + [case["kind"], case["size"]]))
    run.case(key, bool(draws), sample=sample if run.evaluations % 9 == 2 else None)
    if not draws:
        run.count("undecided:no_draw")
        return
    count_case_classes(run, case, "judged:")
    run.count("cases_with_draws")
    bad_case = False
    for d in draws:
        run.count("draws_judged")
        if type(d).__name__ != EXPECTED_TYPE[case["kind"]]:
            run.count(f"observed:container_type:{type(d).__name__}_for_{case['kind']}")
        if case["size"] is not None and len(d) != case["size"]:
            run.count("observed:size_differs_from_request(not judged)")
        else:
            run.count(f"draw_size:{len(d) if len(d) < 6 else '6+'}")
        with warnings.catch_warnings():
            warnings.simplefilter("ignore")
            verdict, info = validate_draw(schema, case, d)
        if verdict == "ok":
            run.count("draw_accepted")
            continue
        bad_case = True
        if verdict == "exc":
            run.violation("validate-raised-on-own-draw",
                          dict(brief, draw=show(d), exc=repr(info)[:400]), None)
            if verbose:
                print("EXC", repr(info)[:300])
            continue
        run.count("draw_rejected")
        per = {}
        for fl in info:
            per.setdefault(classify(case, fl), []).append(fl)
        for mech, fls in per.items():
            run.violation("draw-rejected-by-own-schema",
                          dict(brief, draw=show(d), failures=fls), mech)
        if verbose:
            print("REJ", [(fl["schema_type"], fl["schema_name"], fl["reason"], fl["check"],
                           fl["check_index"], fl["values"]) for fl in info])
    run.count("cases_all_draws_accepted" if not bad_case else "cases_with_rejected_draw")


# --------------------------------------------------------------------------
# driver
# --------------------------------------------------------------------------
def run(run, ctx):
    n_cases, n_draws = N_CASES[ctx.tier], N_DRAWS[ctx.tier]
    for i in ctx.cases(n_cases):
        rng = ctx.rng(PID, i)
        case = G.gen_case(rng)
        one_case(run, case, rng.getrandbits(32), n_draws)
    _pack(run)


def _pack(run):
    pairs = run.extra.pop("_pairs", set())
    run.extra["ordered_check_pairs_seen"] = sorted(pairs)
    raised = run.extra.pop("_raised", {})
    run.extra["strategy_exceptions_seen(not decided)"] = dict(sorted(raised.items())[:60])


def finalize(run, ctx):
    pass


def replay(path):
    from ..run import Ctx
    with open(path) as f:
        w = json.load(f)["witness"]
    r = new_run()
    one_case(r, w["case"], w["hseed"], w["n"], verbose=True)
    for v in r.violations:
        print("mechanism:", v["mechanism"], "kind:", v["kind"])
    print("counters:", dict(r.counters))
    return 1 if r.violations else 0
