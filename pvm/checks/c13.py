"""C13 — every synthesised example satisfies the schema that produced it.

Monitor: each object drawn from ``schema.strategy(size=n)`` (through
``hypothesis.given`` with an explicit seed) or returned by
``schema.example(size=n)`` is fed to the same schema's ``validate``; the only
admissible outcome is acceptance.  Schemas are satisfiable by construction
(pvm/c13_gen.py); a second family of contradictory chains must end in an
exception (``Unsatisfiable`` or any other report) and never in data.
A strategy that raises on a satisfiable schema is *not decided*.
"""
from __future__ import annotations

import json
import re
import warnings

from .. import c13_gen as G
from ..evidence import Run, canon_hash

PID = "C13"
SHARDS = {"quick": 8, "thorough": 16}
# generous: the per-case limit below is CPU time, so on a heavily loaded
# machine a shard may need several times its idle wall time
SHARD_TIMEOUT = {"quick": 1800, "thorough": 10800}
N_CASES = {"quick": 560, "thorough": 3600}
N_DRAWS = {"quick": 8, "thorough": 25}
N_COLD = {"quick": 10, "thorough": 64}
N_REGEX = {"quick": 48, "thorough": 320}


def new_run():
    return Run(
        PID, "exploration",
        "case = (schema spec, size, hypothesis seed, API strategy()/example()); "
        "schema specs come from pvm.c13_gen: a witness value is chosen per field "
        "first and every check of the 0-3 long chain is drawn among checks the "
        "witness satisfies (satisfiable by construction; unique fields are asked "
        "for at most as many rows as satisfying values are known; ordered bounds "
        "are put exactly on the zero of the dtype class 30% of the time, time "
        "arguments are handed over as pandas / datetime / numpy objects; the "
        "arguments of checks on INTEGER fields are written as floats ~30% of the "
        "time - the same integer (3.0) or a number with a fraction that admits the "
        "same integers (ge 2.5, le -2.5, in_range(0.5, 9.5), ne 2.5, isin / notin "
        "lists that also hold fractions), in first and in chained position; custom "
        "checks: element-wise, vectorised, aggregates that hold for every subset "
        "(all) and aggregates whose verdict depends on WHICH elements are present "
        "(count, nunique, any, mean - also on nullable fields and frame-wide), "
        "factory-made check+strategy closures (between, multiple-of)), SEQUENCES "
        "in one process (a schema followed by 1-2 siblings made by the same "
        "factories with other parameters, or the same schema object asked for "
        "another size), plus a family "
        "of contradictory chains / over-constrained unique fields, a family of "
        "simple cases executed in FRESH interpreters (nothing validated before "
        "strategy() is called), a family of frames with REGEX columns (1-2 regex "
        "columns expanded to n_regex_columns = 1-3 generated names, next to 0-2 "
        "plain columns; the four nullable x unique combinations in equal shares, "
        "mostly dtypes that can hold nulls, mostly explicit sizes >= 2 so that the "
        "null mask is applied; variants with frame-level checks, frame-level dtype, "
        "frame-level unique=[...] and an index component); frame schemas carry the "
        "schema-wide column options ordered=True (25% / 40% in the regex family, "
        "regex columns declared ahead of, between and behind plain columns) and "
        "strict=True / 'filter'; and a fixed directed corpus (one tiny case per "
        "call site known to emit invalid data or sensitive to the order of the "
        "strategy's steps; two entries are sequences). One evaluation = one case; every "
        "draw of the case is validated by the producing schema (a rejection is "
        "confirmed on a pristine equal schema). "
        "non-trivial = at least one draw was returned and judged (or, for the "
        "contradictory family, the strategy was run to its report); distinct = "
        "canonical hash of (spec, size, mode)",
        ["pandas backend only (pandera strategies exist only for pandas)",
         "hypothesis 6.168 generate phase only, explicit seeds, no database",
         "acceptance is judged by the producing schema's own validate(lazy=True)",
         "a strategy that raises on a satisfiable schema is counted as not decided",
         "followers of a sequence are only executed when their leader produced "
         "draws; state carried between schemas is only observed within one "
         "shard process, in generation order",
         "a case whose hypothesis run exceeds 3 s (quick) / 8 s (thorough) of CPU "
         "time is cut off at the next example attempt; what was drawn until then "
         "is judged",
         "strings with NUL characters are not judged where the NUL decides: numpy "
         "'<U' arrays, which hypothesis fills, treat trailing NULs as padding and "
         "pandas' uniqueness test compares strings up to the first NUL (generated "
         "string witnesses avoid backslash-zero; one directed case visits the "
         "region; such rejections are counted as undecided); for the same reason "
         "duplicates in a unique STRING field are only judged when the chain spells "
         "the values out (isin / eq): elsewhere two stored strings may have been "
         "drawn as distinct ones that differ in trailing NULs only",
         "integer fields whose FIRST check is a bound with a fraction: the unchanged "
         "tree reports (hypothesis InvalidArgument) instead of drawing; the report is "
         "counted (ran:int_fractional_bound_as_base), only emitted data is judged"])


# --------------------------------------------------------------------------
# drawing
# --------------------------------------------------------------------------
class CaseTimeLimit(BaseException):
    """raised (synchronously, at the start of an example attempt) when the
    hypothesis run of one case takes too long: rejection sampling through
    fallback filters can take minutes. The case is then counted as not
    decided (for whatever was not drawn yet)."""


TIME_LIMIT = {"quick": 3.0, "thorough": 8.0}


def guarded(strategy, seconds):
    """the same strategy, but every example attempt first looks at the clock"""
    import time
    import hypothesis.strategies as st
    if not seconds:
        return strategy
    # CPU time of this process, not wall time: which cases are cut off must
    # not depend on how busy the machine is
    deadline = time.process_time() + seconds
    hit = []

    @st.composite
    def _guard(draw):
        if hit or time.process_time() > deadline:
            # hypothesis reports this as FlakyStrategyDefinition ("stopped
            # drawing earlier"); draw_strategy() translates it back
            hit.append(1)
            raise CaseTimeLimit(f"case exceeded {seconds}s")
        return draw(strategy)

    g = _guard()
    g._c13_hit = hit
    return g


def prewarm():
    """register the pandas backends (and with them the builtin checks'
    strategies) the way any earlier validate() call of a session would; the
    cold path is exercised separately, in fresh interpreters"""
    import pandas as pd
    import pandera as pa
    pa.SeriesSchema(int).validate(pd.Series([1]))


def _settings(n):
    import hypothesis
    from hypothesis import HealthCheck
    return hypothesis.settings(
        database=None, deadline=None, max_examples=n, derandomize=False,
        suppress_health_check=list(HealthCheck),
        phases=[hypothesis.Phase.generate], report_multiple_bugs=False,
        verbosity=hypothesis.Verbosity.quiet)


def draw_strategy(schema, case, hseed, n, limit=None):
    """-> (list of draws, exception or None)"""
    import hypothesis
    out = []
    try:
        kw = {"size": case["size"]}
        if case["kind"] == "frame" and case.get("n_regex", 1) != 1:
            kw["n_regex_columns"] = case["n_regex"]
        strat = guarded(schema.strategy(**kw), limit)

        @hypothesis.seed(hseed)
        @_settings(n)
        @hypothesis.given(strat)
        def collect(x):
            out.append(x)

        collect()
    except BaseException as e:          # noqa: BLE001
        if isinstance(e, (KeyboardInterrupt, SystemExit, MemoryError)):
            raise
        if getattr(locals().get("strat"), "_c13_hit", None):
            e = CaseTimeLimit(f"case exceeded {limit}s")
        return _dedup(out), e
    return _dedup(out), None


def draw_example(schema, case, hseed, n):
    import hypothesis.core as hc
    out = []
    kw = {"size": case["size"]}
    if case["kind"] == "frame" and case.get("n_regex", 1) != 1:
        kw["n_regex_columns"] = case["n_regex"]
    old = hc.global_force_seed
    try:
        for i in range(n):
            hc.global_force_seed = hseed + i
            out.append(schema.example(**kw))
    except BaseException as e:          # noqa: BLE001
        if isinstance(e, (KeyboardInterrupt, SystemExit, MemoryError)):
            raise
        return out, e
    finally:
        hc.global_force_seed = old
    return out, None


def _content_key(o):
    """hashable description of a draw's content. NOT via to_json(): pandas'
    ujson writer crashes the interpreter (SIGSEGV) on some generated strings
    (lone surrogates in index labels)"""
    import pandas as pd
    if isinstance(o, pd.DataFrame):
        return ("DataFrame", repr([str(t) for t in o.dtypes]), repr(list(o.columns)),
                repr(o.index.tolist()), repr(o.to_numpy(dtype=object).tolist()))
    if isinstance(o, pd.Series):
        return ("Series", str(o.dtype), repr(o.name), repr(o.index.tolist()), repr(o.tolist()))
    if isinstance(o, pd.Index):
        return (type(o).__name__, repr([str(t) for t in getattr(o, "dtypes", [o.dtype])]),
                repr(list(o.names)), repr(o.tolist()))
    return (type(o).__name__, repr(o))


def _dedup(objs):
    """hypothesis replays a failing example once more: drop identical repeats"""
    seen, out = set(), []
    for o in objs:
        try:
            key = _content_key(o)
        except Exception:               # noqa: BLE001
            key = id(o)
        if key not in seen:
            seen.add(key)
            out.append(o)
    return out


# --------------------------------------------------------------------------
# judging one draw
# --------------------------------------------------------------------------
EXPECTED_TYPE = {"series": "Series", "column": "DataFrame", "index": "Index",
                 "multiindex": "MultiIndex", "frame": "DataFrame"}


def validate_draw(schema, case, d):
    """-> ("ok", None) | ("rejected", [failure dicts]) | ("exc", exception)"""
    import pandas as pd
    import pandera.errors as pe
    obj = d
    if case["kind"] in ("index", "multiindex"):
        obj = pd.DataFrame(index=d)
    try:
        schema.validate(obj, lazy=True)
        return "ok", None
    except pe.SchemaErrors as e:
        return "rejected", [_failure(x) for x in e.schema_errors]
    except pe.SchemaError as e:
        return "rejected", [_failure(e)]
    except Exception as e:              # noqa: BLE001
        return "exc", e


def _failure(err):
    import pandas as pd
    sch = err.schema
    fc = err.failure_cases
    vals = None
    if isinstance(fc, pd.DataFrame) and "failure_case" in fc.columns:
        vals = list(fc["failure_case"])[:8]
    elif not isinstance(fc, pd.DataFrame):
        vals = [fc]
    chk = err.check
    return {
        "reason": getattr(err.reason_code, "name", str(err.reason_code)),
        "schema_type": type(sch).__name__,
        "schema_name": getattr(sch, "name", None),
        "check": getattr(chk, "name", None) or (chk if isinstance(chk, str) else repr(chk)),
        "check_index": err.check_index,
        "column": getattr(err, "column_name", None),
        "values": vals,
        "message": str(err)[:300],
    }


def show(d):
    try:
        import pandas as pd
        if isinstance(d, pd.DataFrame):
            return {"type": "DataFrame", "dtypes": {str(k): str(v) for k, v in d.dtypes.items()},
                    "index": repr(d.index)[:200],
                    "data": d.head(6).astype(str).to_numpy(dtype=object).tolist()}
        if isinstance(d, pd.Series):
            return {"type": "Series", "dtype": str(d.dtype), "name": d.name,
                    "index": repr(d.index)[:200], "data": [repr(x) for x in d.tolist()[:6]]}
        return {"type": type(d).__name__, "repr": repr(d)[:400]}
    except Exception:                   # noqa: BLE001
        return {"type": type(d).__name__, "repr": repr(d)[:400]}


# --------------------------------------------------------------------------
# mechanism classifier (witness -> stable key of the defect's call site)
# --------------------------------------------------------------------------
_NAME_IN_MSG = re.compile(r"(?:series|Column) '(.*?)'")


def locate(case, fl):
    """(where, field spec, level position) the failure belongs to.
    where: field | column | index | level | None"""
    st, name = fl["schema_type"], fl["schema_name"]
    kind = case["kind"]
    ix = case.get("index")
    if st == "MultiIndex":
        fs = case["fields"] if kind == "multiindex" else (ix["fields"] if ix and ix["multi"] else [])
        m = _NAME_IN_MSG.search(fl["message"] or "")
        if m:
            for i, f in enumerate(fs):
                if str(f["name"] if f["name"] is not None else i) == m.group(1):
                    return "level", f, i
        return "level", None, None
    if st == "Index":
        if kind == "index":
            return "field", case["fields"][0], None
        if ix and not ix["multi"]:
            return "index", ix["fields"][0], None
        return None, None, None
    if st == "SeriesSchema" and kind == "series":
        return "field", case["fields"][0], None
    if st == "Column":
        if kind == "column":
            return "field", case["fields"][0], None
        if kind == "frame":
            for f in case["fields"]:
                if not f["regex"] and f["name"] == name:
                    return "column", f, None
            for f in case["fields"]:
                if f["regex"] and name is not None and re.fullmatch(f["name"], str(name)):
                    return "column", f, None
    if st == "DataFrameSchema" and kind == "frame":
        return "frame", None, None
    return None, None, None


def field_data(case, where, f, pos, fl, d):
    """the values of the field in the draw, as a pandas Series (or None)"""
    import pandas as pd
    try:
        if where == "field":
            if case["kind"] == "series":
                return d
            if case["kind"] == "column":
                return d.iloc[:, 0]
            return d.to_series().reset_index(drop=True)
        if where == "column":
            if f.get("regex"):
                # the error carries the (shared, renamed) Column object, whose
                # name is the LAST matched column: look at the named column
                # first, the callers also try the other matches
                m = _NAME_IN_MSG.search(fl.get("message") or "")
                if m and m.group(1) in d.columns:
                    return d[m.group(1)]
            return d[fl["schema_name"]]
        if where == "index":
            return d.index.to_series().reset_index(drop=True)
        if where == "level":
            mi = d if isinstance(d, pd.MultiIndex) else d.index
            return mi.get_level_values(pos).to_series().reset_index(drop=True)
    except Exception:                   # noqa: BLE001
        return None
    return None


def _is_special(s):
    return isinstance(s, str) and re.escape(s) != s


def _same(a, b):
    try:
        r = a == b
        return bool(r)
    except Exception:                   # noqa: BLE001
        return False


def _pyval(v, cls):
    """failure-case value -> python value comparable with check arguments"""
    import numpy as np
    import pandas as pd
    if cls == "int" and isinstance(v, (float, np.floating)) and float(v).is_integer():
        return int(v)
    if isinstance(v, np.generic):
        return v.item()
    if cls == "td" and not isinstance(v, pd.Timedelta):
        try:
            return pd.Timedelta(v)
        except Exception:               # noqa: BLE001
            return v
    return v


NOT_JUDGED_NUL = "numpy-str-array-drops-trailing-NUL-characters"
HAS_STRATEGY = {"eq", "ne", "gt", "ge", "lt", "le", "in_range", "isin", "notin",
                "str_matches", "str_contains", "str_startswith", "str_endswith",
                "str_length", "c_strat"}
ROW_STRATEGY_DF_CHECKS = HAS_STRATEGY | {"c_dfew"}


def classify(case, fl, d):
    """mechanism key for ONE failure of one rejected draw, or None (unknown)"""
    import pandas as pd
    where, f, pos = locate(case, fl)
    reason = fl["reason"]
    kind = case["kind"]

    # SeriesSchema.strategy never looks at schema.index
    if kind == "series" and case.get("index") and fl["schema_type"] in ("Index", "MultiIndex"):
        if isinstance(d, pd.Series) and isinstance(d.index, pd.RangeIndex):
            return "series_strategy-ignores-index-component"
        # an index was attached: whatever is wrong with it is classified like
        # any other index component below
    if where == "frame" and reason == "DUPLICATES" and _joint_unique_null_duplicates(case, d):
        return "null-mask-after-unique-emits-duplicate-nulls"
    if where == "frame" and reason == "DUPLICATES" and case.get("df_unique"):
        try:
            strs = [d[c] for c in case["df_unique"] if any(
                f["name"] == c and f["cls"] == "str" for f in case["fields"])]
            if any(_nul_explains_duplicates(x) for x in strs):
                return NOT_JUDGED_NUL
            if any(f["name"] in case["df_unique"] and f["cls"] == "str"
                   and _trailing_nul_possible(f) for f in case["fields"]):
                return NOT_JUDGED_NUL
        except Exception:               # noqa: BLE001
            pass
    if f is None:
        if (where == "frame" and reason == "WRONG_DATATYPE" and case.get("df_dtype")):
            col = fl.get("column")
            ff = next((x for x in case["fields"] if x["name"] == col), None)
            if ff is not None:
                return _dtype_rule(case, "column", ff, None, dict(fl, schema_name=col), d)
        return None
    cls = f["cls"]
    data = field_data(case, where, f, pos, fl, d)
    chain = f["checks"]
    in_index = where in ("index", "level") or kind == "index"
    via_numpy_column = (where in ("column", "index", "level") or kind in ("index", "column")
                        ) and not (kind == "column")   # Column.strategy uses series_strategy

    if reason == "WRONG_DATATYPE":
        return _dtype_rule(case, where, f, pos, fl, d)

    if reason == "SERIES_CONTAINS_DUPLICATES":
        datas = [data]
        if where == "column" and f.get("regex"):
            datas += [d[c] for c in d.columns if re.fullmatch(f["name"], str(c))]
        for x in datas:
            if (f["unique"] and f["nullable"] and x is not None and not x.is_unique
                    and int(x.isna().sum()) >= 2 and x.dropna().is_unique):
                if where == "column" and f.get("regex"):
                    # the list of unique columns handed to the null mask has
                    # to name the generated columns
                    return "null-mask-after-unique-emits-duplicate-nulls:regex-expanded-column"
                return "null-mask-after-unique-emits-duplicate-nulls"
        if cls == "str" and any(x is not None and _nul_explains_duplicates(x) for x in datas):
            return NOT_JUDGED_NUL
        if cls == "str" and _trailing_nul_possible(f):
            return NOT_JUDGED_NUL
        return None

    if reason != "DATAFRAME_CHECK" or fl["check_index"] is None:
        return None
    i = fl["check_index"]
    if not (0 <= i < len(chain)):
        return None
    chk = chain[i]
    k, a = chk["k"], {n: G.dec(x) for n, x in chk["a"].items()}
    vals = [_pyval(v, cls) for v in (fl["values"] or [])]
    if not vals and data is not None:
        # null index labels make pandera's failure_cases frame come out empty:
        # recompute the offending values from the draw (classification only)
        for v in data.dropna().tolist()[:50]:
            try:
                if not G.holds(chk, _pyval(v, cls)):
                    vals.append(_pyval(v, cls))
            except Exception:           # noqa: BLE001
                pass
        vals = vals[:8]
    if not vals:
        return None

    # Index.strategy / MultiIndex.strategy do not register the backends, so in
    # a fresh interpreter STRATEGY_DISPATCHER is empty and builtin checks are
    # skipped as "vectorised checks without strategy"
    if (case.get("cold_dispatcher_empty") and kind in ("index", "multiindex")
            and k in HAS_STRATEGY and k != "c_strat"):
        return "index_strategy-builtin-check-strategies-not-registered-yet"

    # NaN in a numpy int column -> float64: integers beyond 2**53 are rounded
    if (cls == "int" and f["nullable"] and f["dtype"][0].islower() and data is not None
            and str(data.dtype) == "float64" and int(data.isna().sum()) >= 1
            and all(isinstance(v, (int, float)) and abs(v) > 2 ** 53 for v in vals)):
        return "null-mask-upcasts-numpy-int-or-bool"

    # vectorised custom checks without a strategy: no fallback filter for
    # Index / MultiIndex strategies
    if k in ("c_vec", "c_agg") and in_index:
        return "index_strategy-no-fallback-for-vectorised-check"
    if k == "c_aggn":
        # the "failure case" of an aggregate is the scalar False: none of the
        # value-based rules below applies
        return None

    # ne / notin filter the elements (numpy scalars) with python's != / not in
    # against the values as the user wrote them; a datetime.datetime /
    # datetime.timedelta never compares equal to a numpy [ns] scalar
    if k in ("ne", "notin") and chk.get("as") == "py" and cls in ("dt", "td"):
        if all(any(_same(v, e) for e in _args_of(chk)) for v in vals):
            return f"{k}_strategy-python-time-value-never-equals-numpy-element"

    # isin_strategy maps the allowed values to the field's numpy type: a value
    # with a fraction in the list of an INTEGER field is emitted truncated
    # (2.5 -> 2), a value the list does not contain
    if k == "isin" and cls == "int":
        fr = [x for x in a["allowed_values"] if G.is_fractional(x)]
        if fr and all(any(_same(v, int(x)) for x in fr) for v in vals):
            return "isin_strategy-casts-non-integral-allowed-value-to-integer-dtype"

    shifted = cls == "dt" and G.tz_of(f["dtype"]) not in (None, "UTC") and via_numpy_column

    def matches(v, e):
        """v is e - possibly after the known value distortions of time data"""
        if _same(v, e) or _trunc_equal(v, e, cls):
            return True
        if shifted:
            try:
                x = v.tz_localize(None).tz_localize("UTC").tz_convert(v.tz)
                return _same(x, e) or _trunc_equal(x, e, cls)
            except Exception:           # noqa: BLE001
                return False
        return False

    # a later eq() throws away everything before it
    for j in range(i + 1, len(chain)):
        if chain[j]["k"] == "eq":
            ev = G.dec(chain[j]["a"]["value"])
            if all(matches(v, ev) for v in vals):
                return "eq_strategy-replaces-preceding-chain"

    # literal interpolated into a regular expression: every offending value
    # matches the string read as a regular expression
    if k in ("str_startswith", "str_endswith") and _is_special(a["string"]):
        pat = rf"\A(?:{a['string']})" if k == "str_startswith" else rf"(?:{a['string']})\Z"
        try:
            # (numpy '<U' storage drops trailing NULs: the value that matched
            # may have been v + NULs)
            if all(isinstance(v, str) and any(re.search(pat, v + "\x00" * n) for n in range(4))
                   for v in vals):
                return f"{k}_strategy-literal-not-escaped"
        except re.error:
            pass

    effective_base = all(c["k"] not in HAS_STRATEGY and c["k"] != "c_ew" for c in chain[:i])
    # exclusive bounds are only passed on to float strategies
    if k == "in_range" and cls != "float" and effective_base:
        excluded = ([a["min_value"]] if not a["include_min"] else []) + \
                   ([a["max_value"]] if not a["include_max"] else [])
        if excluded and all(any(matches(v, e) for e in excluded) for v in vals):
            return "in_range_strategy-exclusive-bounds-ignored-for-non-float"

    # frame-level checks switch hypothesis to rows=...; column element
    # strategies (hence column-level checks) are then dropped
    if (kind == "frame" and where == "column" and
            any(c["k"] in ROW_STRATEGY_DF_CHECKS for c in case.get("df_checks") or [])):
        return "dataframe_strategy-row-strategy-drops-column-checks"

    if shifted:
        # naive UTC values are tz_localize()d: every value is off by the offset
        try:
            fixed = [v.tz_localize(None).tz_localize("UTC").tz_convert(v.tz) for v in vals]
            if all(G.holds(chk, x) or _trunc_ok(chk, x) for x in fixed):
                return "convert_dtype-tz_localize-shifts-non-UTC-datetimes"
        except Exception:               # noqa: BLE001
            pass

    if cls in ("dt", "td"):
        if all(_trunc_ok(chk, v) for v in vals):
            return "time-values-truncated-to-microseconds"

    # elements are mapped to numpy str_ and stored in '<U' arrays, where
    # trailing NUL characters are padding: "ab\x00" comes back as "ab"
    if cls == "str" and all(isinstance(v, str) for v in vals):
        def with_nuls(v):
            for n in (1, 2, 3):
                try:
                    if G.holds(chk, v + "\x00" * n):
                        return True
                except Exception:       # noqa: BLE001
                    return False
            return False
        if all(with_nuls(v) for v in vals):
            return "numpy-str-array-drops-trailing-NUL-characters"
    return None


def _nul_explains_duplicates(x):
    """the values pandas calls duplicates are strings with NUL characters:
    numpy '<U' storage drops trailing NULs and pandas' string hash table
    compares C strings (everything after the first NUL is ignored), so values
    hypothesis drew as distinct come out as duplicates - an artefact of
    numpy / pandas, not judged"""
    try:
        vals = [v for v in x[x.duplicated(keep=False)].tolist() if isinstance(v, str)]
        if len(vals) < 2:
            return False
        groups = {}
        for v in vals:
            groups.setdefault(v.split("\x00")[0], []).append(v)
        return all(any("\x00" in v for v in g) for g in groups.values())
    except Exception:                   # noqa: BLE001
        return False


def _trailing_nul_possible(f):
    """the strategy of the string field draws from an alphabet that contains
    NUL (no isin / eq in the chain, which spell the values out): hypothesis
    makes the elements unique BEFORE they are stored in a numpy '<U' array,
    where "x" and "x" + NULs become the same string - duplicates among the
    stored strings carry no trace of that and cannot be judged"""
    return not any(c["k"] in ("isin", "eq") for c in f["checks"])


def _joint_unique_null_duplicates(case, d):
    """frame-level unique=[...]: the duplicated rows all carry a null that the
    null mask put there after uniqueness had been established"""
    cols = case.get("df_unique")
    try:
        if not cols or not any(f["nullable"] for f in case["fields"] if f["name"] in cols):
            return False
        sub = d[cols]
        dup = sub[sub.duplicated(keep=False)]
        return len(dup) >= 2 and bool(dup.isna().any(axis=1).all())
    except Exception:                   # noqa: BLE001
        return False


def classify_exc(case, exc, d):
    """validate() raised something that is not a SchemaError(s) on its own draw"""
    if (case["kind"] == "frame" and isinstance(exc, ValueError)
            and "duplicate values are not supported in stack" in str(exc)
            and _joint_unique_null_duplicates(case, d)):
        # reporting the DUPLICATES error trips over the (also null-masked,
        # hence duplicated) index labels
        return "null-mask-after-unique-emits-duplicate-nulls"
    return None


def _args_of(chk):
    out = []
    for x in chk["a"].values():
        x = G.dec(x)
        out.extend(x if isinstance(x, list) else [x])
    return out


def _trunc_equal(v, e, cls):
    """v is e with the sub-microsecond part cut off"""
    if cls not in ("dt", "td"):
        return False
    try:
        return v != e and v == e.floor("us")
    except Exception:                   # noqa: BLE001
        return False


def _trunc_ok(chk, v):
    """the failing time value lost its nanoseconds: it has none, and some
    value within the same microsecond satisfies the check"""
    import pandas as pd
    try:
        ns = v.value % 1000
        if ns != 0:
            return False
        for a in _args_of(chk):
            if hasattr(a, "floor") and a.floor("us") == v and a != v:
                return True
        for k in (1, 500, 999):
            if G.holds(chk, v + pd.Timedelta(k, unit="ns")):
                return True
    except Exception:                   # noqa: BLE001
        return False
    return False


NUMPY_NO_NULL = {"int", "bool"}


def _dtype_rule(case, where, f, pos, fl, d):
    data = field_data(case, where, f, pos, fl, d)
    got = str((fl["values"] or [None])[0])
    numpy_dtype = f["dtype"][0].islower()
    if (f["nullable"] and f["cls"] in NUMPY_NO_NULL and numpy_dtype and data is not None
            and int(data.isna().sum()) >= 1 and got in ("float64", "object")):
        return "null-mask-upcasts-numpy-int-or-bool"
    if (f["dtype"] == "string" and got == "object" and
            (where == "level")):
        return "multiindex_strategy-string-level-cast-back-to-object"
    return None


# --------------------------------------------------------------------------
# one case
# --------------------------------------------------------------------------
def chain_sig(f):
    return ">".join(c["k"] for c in f["checks"]) or "-"


def all_fields(case):
    return list(case["fields"]) + G._ix_fields(case.get("index"))


def count_case_classes(run, case, prefix):
    run.count(f"{prefix}kind:{case['kind']}")
    run.count(f"{prefix}size:{case['size']}")
    run.count(f"{prefix}api:{case['mode']}")
    for f in all_fields(case):
        run.count(f"{prefix}dtype:{f['dtype']}")
        run.count(f"{prefix}chain_len:{len(f['checks'])}")
        run.count(f"{prefix}flags:nullable={int(f['nullable'])},unique={int(f['unique'])}")
        for i, c in enumerate(f["checks"]):
            run.count(f"{prefix}{'base' if i == 0 else 'chained'}:{c['k']}")
            a = c["a"]
            if c["k"] == "in_range" and f["cls"] == "int" and not (
                    a["include_min"] and a["include_max"]):
                run.count(f"{prefix}int_in_range_exclusive_bound")
            if f["cls"] == "int" and c["k"] in ("gt", "ge", "lt", "le", "in_range"):
                bs = [a[n] for n in ("min_value", "max_value") if isinstance(a.get(n), float)]
                if bs:
                    how = "fractional" if any(G.is_fractional(x) for x in bs) else "integral"
                    run.count(f"{prefix}int_bound_given_as_float:{how}")
                    run.count(f"{prefix}int_bound_given_as_float:{how}:"
                              f"{'base' if i == 0 else 'chained'}:{c['k']}")
            if f["cls"] == "int" and c["k"] in ("eq", "ne", "isin", "notin"):
                xs = list(a.values())[0]
                xs = [x for x in (xs if isinstance(xs, list) else [xs]) if isinstance(x, float)]
                if xs:
                    how = "fractional" if any(G.is_fractional(x) for x in xs) else "integral"
                    run.count(f"{prefix}int_value_given_as_float:{how}")
                    run.count(f"{prefix}int_value_given_as_float:{how}:"
                              f"{'base' if i == 0 else 'chained'}:{c['k']}")
            if c["k"] == "str_length" and (a["min_value"] is None or a["max_value"] is None):
                run.count(f"{prefix}str_length_optional_arg_None")
            if c["k"].startswith("str_") and any(
                    _is_special(v) for v in a.values()):
                run.count(f"{prefix}regex_special_in_string_arg:{c['k']}")
        if prefix == "judged:":
            for a, b in zip(f["checks"], f["checks"][1:]):
                run.count(f"order:{a['k']}>{b['k']}")
        if f.get("regex"):
            run.count(f"{prefix}regex_column")
            run.count(f"{prefix}regex_column:nullable={int(f['nullable'])},"
                      f"unique={int(f['unique'])}")
            run.count(f"{prefix}regex_column:n_regex_columns={case.get('n_regex', 1)}")
            run.count(f"{prefix}regex_column:dtype_class:{f['cls']}")
            if f["nullable"] and G.supports_nulls(f) and (case["size"] or 0) >= 2:
                # the null mask is applied (explicit size) and can put several
                # nulls into one generated column
                run.count(f"{prefix}regex_column:null_mask_applies:unique={int(f['unique'])}")
            if any(c["k"] in G.FALLBACK_ONLY for c in f["checks"]):
                run.count(f"{prefix}regex_column:with_fallback_filter_check")
            for what in ("df_checks", "df_dtype", "df_unique", "index"):
                if case.get(what):
                    run.count(f"{prefix}regex_column:frame_has:{what}")
        for c in f["checks"]:
            if c.get("as"):
                run.count(f"{prefix}time_argument_given_as:{c['as']}:{c['k']}")
            if c["k"] in ("gt", "ge", "lt", "le", "in_range") and f["cls"] in G.ORDERED:
                z = G.zero_of(f["cls"], f["dtype"])
                if any(_same(G.dec(x), z) for n, x in c["a"].items()
                       if n in ("min_value", "max_value")):
                    run.count(f"{prefix}bound_on_zero:{f['cls']}")
                    run.count(f"{prefix}bound_on_zero:{f['cls']}:{c['k']}")
            if c["k"] == "c_strat":
                run.count(f"{prefix}factory_check_with_strategy:{c['a']['fn']}:"
                          f"{'element_wise' if c['a'].get('ew') else 'vectorised'}")
            if c["k"] == "c_aggn":
                run.count(f"{prefix}aggregate:{c['a']['fn']}")
                if f["nullable"] and G.supports_nulls(f) and case["size"] != 0:
                    run.count(f"{prefix}aggregate_over_nullable_field")
                    run.count(f"{prefix}aggregate_over_nullable_field:{case['kind']}")
    if case.get("focus"):
        run.count(f"{prefix}family:{case['focus']}")
    if case.get("follows"):
        run.count(f"{prefix}follower:{case['follows']}")
    if case.get("df_checks"):
        run.count(f"{prefix}with_df_checks")
        for c in case["df_checks"]:
            run.count(f"{prefix}df_check:{c['k']}")
    if case.get("index"):
        run.count(f"{prefix}with_index:{'multi' if case['index']['multi'] else 'single'}")
    if case.get("df_unique"):
        run.count(f"{prefix}df_unique")
    if case.get("df_dtype"):
        run.count(f"{prefix}df_dtype")
    if case["kind"] == "frame":
        if case.get("ordered"):
            run.count(f"{prefix}frame_option:ordered")
            if any(f.get("regex") for f in case["fields"]):
                run.count(f"{prefix}frame_option:ordered:with_regex_column")
            if G.regex_before_plain(case):
                run.count(f"{prefix}frame_option:ordered:regex_column_before_plain_column")
            if len(case["fields"]) >= 2:
                run.count(f"{prefix}frame_option:ordered:2+_declared_columns")
        if case.get("strict"):
            run.count(f"{prefix}frame_option:strict={case['strict']}")
            if any(f.get("regex") for f in case["fields"]):
                run.count(f"{prefix}frame_option:strict:with_regex_column")


def fractional_base_bound(case):
    """an integer field whose FIRST check is an ordered bound with a fraction"""
    for f in all_fields(case):
        if f["cls"] == "int" and f["checks"]:
            c = f["checks"][0]
            if c["k"] in ("gt", "ge", "lt", "le", "in_range") and any(
                    G.is_fractional(c["a"].get(n)) for n in ("min_value", "max_value")):
                return True
    return False


def run_sequence(run, cases, hseeds, n, verbose=False, limit=None, replaying=None):
    """the cases one after the other in this process; a follower of kind
    "resize" asks the SAME schema object again, the others build their own.
    replaying: Run that receives the LAST case only (the others go to ``run``)"""
    prelude, schema = [], None
    for j, (case, hseed) in enumerate(zip(cases, hseeds)):
        if prelude and not LAST.get("draws") and replaying is None:
            # the leader gave nothing to look at (raised / ran out of time):
            # its followers would only repeat that
            run.count("sequences:followers_skipped(leader_without_draws)")
            break
        last = replaying is not None and j == len(cases) - 1
        reuse = schema if case.get("follows") == "resize" else None
        LAST.clear()
        schema = one_case(replaying if last else run, case, hseed, n,
                          verbose=verbose and (last or replaying is None), limit=limit,
                          schema=reuse, prelude=list(prelude))
        prelude.append([case, hseed])


LAST = {}       # what the most recent one_case() of this process saw


def one_case(run, case, hseed, n, verbose=False, limit=None, cold=False, schema=None,
             prelude=None):
    """-> the schema object the case was executed with (None: not built)"""
    _one_case(run, case, hseed, n, verbose, limit, cold, schema, prelude, out := [])
    return out[0] if out else None


def _one_case(run, case, hseed, n, verbose, limit, cold, schema, prelude, out):
    key = canon_hash([case, "C13", cold])
    fam = case["family"]
    P = "cold:" if cold else ""
    try:
        if schema is None:
            schema = G.build(case)
        out.append(schema)
    except Exception as e:              # noqa: BLE001
        run.count(f"build_error:{type(e).__name__}")
        run.case(key, False)
        return
    if cold:
        from pandera.strategies.base_strategies import STRATEGY_DISPATCHER
        case = dict(case, cold_dispatcher_empty=len(STRATEGY_DISPATCHER) == 0)
        run.count(f"cold:dispatcher_empty_before_strategy={case['cold_dispatcher_empty']}")
    with warnings.catch_warnings():
        warnings.simplefilter("ignore")
        if case["mode"] == "example":
            draws, exc = draw_example(schema, case, hseed, max(1, n // 4))
        else:
            draws, exc = draw_strategy(schema, case, hseed, n, limit)
    brief = {"case": case, "hseed": hseed, "n": n, "cold": cold}
    if prelude:
        # what was executed in this process right before (replay repeats it)
        brief["prelude"] = prelude
    count_case_classes(run, case, P + "gen:")
    sample = {"family": fam, "kind": case["kind"], "size": case["size"],
              "api": case["mode"], "draws": len(draws), "fresh_interpreter": cold,
              "strategy_exception": type(exc).__name__ if exc else None,
              "fields": [{"dtype": f["dtype"], "chain": f["checks"], "witness": f["witness"],
                          "nullable": f["nullable"], "unique": f["unique"]}
                         for f in all_fields(case)],
              "first_draw": show(draws[0]) if draws else None}
    timed_out = isinstance(exc, CaseTimeLimit)
    LAST.update(draws=0 if timed_out else len(draws))

    if fam != "sat":
        # the schema has no model of the requested size: only a report is admissible
        pat = next((f.get("pattern") for f in case["fields"] if f.get("pattern")), "?")
        run.count(f"unsat:pattern:{pat}")
        if not draws:
            run.case(key, not timed_out, sample=sample if run.evaluations % 7 == 3 else None)
            if timed_out or exc is None:
                run.count("undecided:unsat_case_without_report_or_data")
            else:
                run.count("unsat:reported")
                run.count(f"unsat:reported_as:{type(exc).__name__}")
            return
        run.case(key, True, sample=sample)
        d = draws[0]
        with warnings.catch_warnings():
            warnings.simplefilter("ignore")
            verdict, info = validate_draw(schema, case, d)
        if verdict == "ok":
            run.count("unsat:GENERATOR-BUG:accepted_draw")
            run.note_inconclusive("contradictory schema accepted a draw (generator bug): "
                                  + json.dumps(case, default=repr)[:300])
            return
        run.count("unsat:data_emitted")
        report(run, "unsatisfiable-schema-emitted-data", case, brief, d, verdict, info, verbose)
        return

    # ---- satisfiable family ---------------------------------------------
    if fractional_base_bound(case):
        # the base strategy has to turn the fraction into an integer bound on
        # the admitted side - or report that it cannot; both are counted, only
        # emitted data is judged (below)
        run.count(P + "ran:int_fractional_bound_as_base")
        run.count(P + "ran:int_fractional_bound_as_base:" + (
            "draws_returned(judged)" if draws else
            "strategy_reported(not judged)" if exc is not None else "nothing"))
    if exc is not None:
        run.count(P + "undecided:strategy_raised")
        run.count(P + f"undecided:strategy_raised:{type(exc).__name__}")
        run.count(P + "undecided:raised_msg:" + _norm_msg(exc))
    run.case(key, bool(draws), sample=sample if (cold or run.evaluations % 9 == 2) else None)
    if not draws:
        run.count(P + "undecided:no_draw")
        return
    count_case_classes(run, case, P + "judged:")
    run.count(P + "cases_with_draws")
    bad_case = False
    for d in draws:
        run.count(P + "draws_judged")
        if type(d).__name__ != EXPECTED_TYPE[case["kind"]]:
            run.count(f"observed:container_type:{type(d).__name__}_for_{case['kind']}")
        if case["size"] is not None and len(d) != case["size"]:
            run.count("observed:size_differs_from_request(not judged)")
        else:
            run.count(f"{P}draw_size:{len(d) if len(d) < 6 else '6+'}")
        observe_regex(run, case, d, P)
        with warnings.catch_warnings():
            warnings.simplefilter("ignore")
            verdict, info = validate_draw(schema, case, d)
            if verdict != "ok":
                # confirm on a pristine, equal schema: a validate() that leaves
                # state behind on the schema object (C05's subject) must not be
                # booked as a strategy defect
                v2, info2 = validate_draw(G.build(case), case, d)
                if v2 == "ok":
                    run.count("observed:rejected_only_by_the_reused_schema_object(C05,not judged)")
                    verdict = "ok"
                else:
                    verdict, info = v2, info2
        if verdict == "ok":
            run.count(P + "draw_accepted")
            continue
        if report(run, "draw-rejected-by-own-schema", case, brief, d, verdict, info, verbose):
            bad_case = True
            run.count(P + "draw_rejected")
        else:
            run.count(P + "draw_not_judged")
    run.count(P + ("cases_all_draws_accepted" if not bad_case else "cases_with_rejected_draw"))


def observe_regex(run, case, d, P=""):
    """what the draws of a frame with regex columns looked like (evidence that
    the null mask really reached the generated columns; nothing is judged here)"""
    if case["kind"] != "frame" or not any(f.get("regex") for f in case["fields"]):
        return
    try:
        for f in case["fields"]:
            if not f.get("regex"):
                continue
            cols = [c for c in d.columns if isinstance(c, str) and re.fullmatch(f["name"], c)]
            want = case.get("n_regex", 1)
            run.count(P + ("observed:regex:generated_columns==n_regex_columns" if len(cols) == want
                           else "observed:regex:generated_columns!=n_regex_columns(not judged)"))
            if not (f["nullable"] and G.supports_nulls(f)) or len(d) < 2:
                continue
            for c in cols:
                col = d[c]
                if getattr(col, "ndim", 1) != 1:
                    continue
                nn = int(col.isna().sum())
                tag = f"unique={int(f['unique'])}"
                run.count(f"{P}observed:regex:nullable_column_drawn:{tag}")
                if nn >= 1:
                    run.count(f"{P}observed:regex:nullable_column_with_null:{tag}")
                if nn >= 2:
                    run.count(f"{P}observed:regex:nullable_column_with_2+_nulls:{tag}")
    except Exception as e:              # noqa: BLE001
        run.count(f"observed:regex:observer_error:{type(e).__name__}")


def report(run, kind, case, brief, d, verdict, info, verbose):
    """one violation per mechanism seen in this rejected draw; -> number of
    violations recorded (0: the rejection lies in a region that is not judged)"""
    if verdict == "exc":
        mech = classify_exc(case, info, d)
        run.violation("validate-raised-on-own-draw" if kind.startswith("draw") else kind,
                      dict(brief, draw=show(d), exc=repr(info)[:400]), mech)
        if verbose:
            print("EXC", mech, repr(info)[:300])
        return 1
    per = {}
    for fl in info:
        per.setdefault(classify(case, fl, d), []).append(fl)
    if NOT_JUDGED_NUL in per:
        # numpy '<U' arrays (the container hypothesis fills) treat trailing NUL
        # characters as padding and pandas' string hash table stops at the
        # first NUL; a value that only fails because its trailing NULs are
        # gone, or strings that are only "duplicates" in that reading, are
        # artefacts of numpy / pandas, not judged
        run.count("undecided:strings_with_NUL_characters(numpy/pandas artefact, not judged)",
                  len(per.pop(NOT_JUDGED_NUL)))
    for mech, fls in per.items():
        run.violation(kind, dict(brief, draw=show(d), failures=fls), mech)
    if verbose:
        print("REJECTED", show(d))
        for mech, fls in per.items():
            for fl in fls:
                print("  ", mech, "|", fl["schema_type"], fl["schema_name"], fl["reason"],
                      fl["check"], fl["check_index"], fl["values"])
    return len(per)


# --------------------------------------------------------------------------
# driver
# --------------------------------------------------------------------------
def run(run, ctx):
    import faulthandler
    import sys
    faulthandler.enable(file=sys.stderr)     # a crashing worker names its frame
    n_cases, n_draws, n_cold = N_CASES[ctx.tier], N_DRAWS[ctx.tier], N_COLD[ctx.tier]
    prewarm()
    directed = G.directed_cases()
    n_fixed = n_cases + n_cold + len(directed)
    for i in ctx.cases(n_fixed + N_REGEX[ctx.tier]):
        rng = ctx.rng(PID, i)
        if i < n_cases:
            case = G.gen_case(rng)
            seq = [case] + G.gen_followers(rng, case)
            if len(seq) > 1:
                run.count(f"sequences:{seq[1]['follows']}")
            run_sequence(run, seq, [rng.getrandbits(32) for _ in seq], n_draws,
                         limit=TIME_LIMIT[ctx.tier])
        elif i < n_cases + n_cold:
            case = G.gen_cold_case(rng, i - n_cases)
            cold_case(run, case, rng.getrandbits(32), n_draws)
        elif i >= n_fixed:
            # family "regex": frames with regex columns x flags x frame options
            case = G.gen_regex_case(rng, i - n_fixed)
            run_sequence(run, [case], [rng.getrandbits(32)], n_draws,
                         limit=TIME_LIMIT[ctx.tier])
        else:
            run.count("directed_corpus_cases")
            seq = directed[i - n_cases - n_cold]
            seq = seq if isinstance(seq, list) else [seq]
            seq = [seq[0]] + [dict(c, follows="params") for c in seq[1:]]
            run_sequence(run, seq, [rng.getrandbits(32) for _ in seq], n_draws,
                         limit=TIME_LIMIT[ctx.tier])


def cold_case(run, case, hseed, n, verbose=False):
    """run one case in a FRESH interpreter (nothing validated before the
    strategy is built): pvm.c13_cold executes one_case(cold=True) there and
    hands back its partial Run"""
    import os
    import subprocess
    import sys
    from .. import env
    try:
        p = subprocess.run(
            [env.PY, "-m", "pvm.c13_cold"], cwd=env.VERIF, timeout=600,
            input=json.dumps({"case": case, "hseed": hseed, "n": n, "verbose": verbose}),
            capture_output=True, text=True, env=dict(os.environ))
    except subprocess.TimeoutExpired:
        run.count("cold:undecided:subprocess_timeout")
        return
    if p.returncode != 0:
        run.count("cold:undecided:subprocess_failed")
        run.note_inconclusive(f"cold subprocess failed: {p.stderr[-400:]}")
        return
    if verbose:
        sys.stdout.write(p.stderr)
    run.merge(json.loads(p.stdout.splitlines()[-1]))


def _norm_msg(exc):
    m = str(exc).split("\n")[0][:70]
    m = re.sub(r"'[^']*'|\"[^\"]*\"", "S", m)
    m = re.sub(r"-?\d[\d.e+-]*", "N", m)
    return f"{type(exc).__name__}: {m}"


# floors: about 1/4 of what a quick run observes on the unchanged tree (seeds
# 0,1,2,3,12345, machine heavily loaded, so with many time-limited cases);
# thorough runs ~17x the cases with 3x the draws
FLOORS_QUICK = {
    "draws_judged": 450, "cases_with_draws": 90, "draw_accepted": 300,
    "unsat:reported": 8, "cold:draws_judged": 12, "cold:cases_with_draws": 3,
    "judged:kind:series": 20, "judged:kind:column": 15, "judged:kind:index": 10,
    "judged:kind:multiindex": 5, "judged:kind:frame": 30,
    "judged:api:example": 10, "judged:api:strategy": 70,
    "judged:flags:nullable=1,unique=1": 18, "judged:flags:nullable=1,unique=0": 25,
    "judged:flags:nullable=0,unique=1": 18,
    "judged:int_in_range_exclusive_bound": 5,
    "judged:regex_special_in_string_arg:str_startswith": 2,
    "judged:regex_column": 16, "judged:with_df_checks": 6,
    "judged:with_index:single": 6, "judged:with_index:multi": 2,
    "judged:chain_len:1": 40, "judged:chain_len:2": 40, "judged:chain_len:3": 20,
    "distinct_ordered_check_pairs_judged": 50,
    "dtypes_judged": len(G.ALL_DTYPES) - 2, "directed_corpus_cases": 44,
    "sizes_judged": 7,
    # classes added for the order of the strategy's steps, state carried from
    # one schema's strategy to the next, and falsy / foreign-typed arguments
    "judged:aggregate_over_nullable_field": 10,
    "judged:aggregate_over_nullable_series_or_column": 4,
    "judged:aggregate_over_nullable_frame_or_index": 4,
    "judged:df_check:c_dfaggn": 1,
    "judged:bound_on_zero:int": 8, "judged:bound_on_zero:float": 3,
    "judged:bound_on_zero:time": 2,
    "judged:follower:params": 10, "judged:follower:resize": 3,
    "judged:factory_check_with_strategy": 14,
    "judged:time_argument_not_pandas": 5,
    # family "regex": per-column work of dataframe_strategy on generated names
    # (minimum over seeds 0,1,2,3,12345 of a quick run / 4; the regex_column
    # counters include the regex columns of the general frame family)
    "judged:family:regex": 9,
    "judged:regex_column:nullable=1,unique=1": 3, "judged:regex_column:nullable=1,unique=0": 3,
    "judged:regex_column:nullable=0,unique=1": 3, "judged:regex_column:nullable=0,unique=0": 4,
    "judged:regex_column:null_mask_applies:unique=1": 2,
    "judged:regex_column:null_mask_applies:unique=0": 2,
    "judged:regex_column:n_regex_columns>1": 9,
    "judged:regex_column:frame_has:df_checks": 1, "judged:regex_column:frame_has:df_dtype": 1,
    "judged:regex_column:frame_has:df_unique": 1, "judged:regex_column:frame_has:index": 2,
    # schema-wide column order / column set options; arguments of checks on
    # integer fields written as floats (minimum over seeds 0,1,2,3,12345 / 4)
    "judged:frame_option:ordered": 11,
    "judged:frame_option:ordered:regex_column_before_plain_column": 2,
    "judged:frame_option:strict=True": 13, "judged:frame_option:strict=filter": 6,
    "judged:int_bound_given_as_float:fractional": 4,
    "judged:int_bound_given_as_float:integral": 4,
    "judged:int_value_given_as_float:fractional": 2,
    "judged:int_value_given_as_float:integral": 2,
    "ran:int_fractional_bound_as_base": 11,
    # draws in which the null mask was seen at work in generated columns
    "observed:regex:nullable_column_with_null:unique=1": 25,
    "observed:regex:nullable_column_with_2+_nulls:unique=0": 13,
}


def finalize(run, ctx):
    c = run.counters
    c["distinct_ordered_check_pairs_judged"] = sum(1 for k in c if k.startswith("order:"))
    c["dtypes_judged"] = sum(1 for d in G.ALL_DTYPES if c.get(f"judged:dtype:{d}", 0) > 0)
    c["sizes_judged"] = sum(1 for z in G.SIZES if c.get(f"judged:size:{z}", 0) > 0)
    agg = "judged:aggregate_over_nullable_field:"
    c["judged:aggregate_over_nullable_series_or_column"] = (
        c.get(agg + "series", 0) + c.get(agg + "column", 0))
    c["judged:aggregate_over_nullable_frame_or_index"] = (
        c.get(agg + "frame", 0) + c.get(agg + "index", 0) + c.get(agg + "multiindex", 0))
    c["judged:bound_on_zero:time"] = (c.get("judged:bound_on_zero:dt", 0)
                                      + c.get("judged:bound_on_zero:td", 0))
    c["judged:factory_check_with_strategy"] = sum(
        v for k, v in c.items() if k.startswith("judged:factory_check_with_strategy:"))
    c["judged:time_argument_not_pandas"] = sum(
        v for k, v in c.items() if k.startswith("judged:time_argument_given_as:"))
    c["judged:regex_column:n_regex_columns>1"] = (
        c.get("judged:regex_column:n_regex_columns=2", 0)
        + c.get("judged:regex_column:n_regex_columns=3", 0))
    mult = 1 if ctx.tier == "quick" else 8
    for name, m in FLOORS_QUICK.items():
        run.floors[name] = m if name in ("dtypes_judged", "sizes_judged",
                                         "directed_corpus_cases") else m * mult
    if ctx.tier == "thorough":
        run.floors["dtypes_judged"] = len(G.ALL_DTYPES)
        run.floors["distinct_ordered_check_pairs_judged"] = 150
    run.extra["supported_dtypes_generated"] = list(G.ALL_DTYPES)
    run.extra["draws_per_case"] = N_DRAWS[ctx.tier]


def replay(path):
    with open(path) as f:
        w = json.load(f)["witness"]
    r = new_run()
    case = {k: v for k, v in w["case"].items() if k != "cold_dispatcher_empty"}
    if w.get("cold"):
        cold_case(r, case, w["hseed"], w["n"], verbose=True)
    else:
        prewarm()
        pre = w.get("prelude") or []
        run_sequence(new_run(), [c for c, _ in pre] + [case], [h for _, h in pre] + [w["hseed"]],
                     w["n"], verbose=True, replaying=r)
    for v in r.violations:
        print("mechanism:", v["mechanism"], "kind:", v["kind"])
    print("counters:", {k: v for k, v in r.counters.items()
                        if not k.startswith(("gen:", "judged:", "cold:gen:", "cold:judged:"))})
    return 1 if r.violations else 0
