"""C04 — validation never modifies the caller's data unless inplace=True;
the result has the container kind of the input."""
from __future__ import annotations

import numpy as np
import pandas as pd

from .. import harness as H, snap as S
from ..evidence import Run, canon_hash
from ..gen import build as B, parse as P, spec as G
from . import common as C

PID = "C04"
SHARDS = {"quick": 4, "thorough": 16}
N = {"quick": 3000, "thorough": 100000}


def new_run():
    return Run(PID, "exploration",
               "cases = (schema spec with random parsing options, table, schema kind in "
               "{DataFrameSchema, SeriesSchema, Column, Index, MultiIndex, polars DataFrameSchema "
               "on DataFrame / LazyFrame, polars Column}, lazy flag, input aliasing in {fresh, "
               "column-subset view, row-slice view, series taken from a frame}); the argument is "
               "deep-snapshotted before and after the real validate(inplace=False); non-trivial = "
               "a parsing option is active or validation fails; distinct = canonical hash",
               ["snapshot = labels, dtypes, raw value bytes / typed cell reprs, index, names"])


def alias(rng, data, run):
    """Return (object to validate, owner to keep alive, aliasing kind)."""
    r = rng.random()
    if isinstance(data, pd.DataFrame):
        if r < 0.25 and data.shape[1] >= 1:
            wide = data.copy()
            wide["__pad"] = 0
            return wide[list(data.columns)], wide, "column_subset"
        if r < 0.45 and len(data) >= 1:
            tall = pd.concat([data, data]) if data.index.is_unique is False else \
                pd.concat([data, data.iloc[:0]])
            return tall.iloc[: len(data)], tall, "row_slice"
        return data, None, "fresh"
    if isinstance(data, pd.Series):
        if r < 0.4:
            fr = data.to_frame(name=data.name if data.name is not None else "s")
            s = fr.iloc[:, 0]
            s.name = data.name
            return s, fr, "series_of_frame"
        return data, None, "fresh"
    return data, None, "fresh"


def classify(kindname, spec, d, inplace_kind):
    return None


def observe(run, schema, obj, kw, what, spec, table, owner=None):
    before = S.snap(obj)
    owner_before = S.snap(owner) if owner is not None else None
    kind_in = S.kind(obj)
    out = H.run_validate(schema, obj, **kw)
    after = S.snap(obj)
    run.count(f"outcome:{what}:{out.kind}")
    run.count("input_snapshot_compared")
    d = S.diff(before, after)
    if d:
        run.violation("caller-data-modified",
                      C.brief(spec, table, {"schema_kind": what, "kwargs": kw, "diff": d,
                                            "outcome": out.kind}),
                      classify_mut(what, spec, d, out))
    if owner is not None:
        d2 = S.diff(owner_before, S.snap(owner))
        run.count("owner_snapshot_compared")
        if d2:
            run.violation("caller-owned-parent-modified",
                          C.brief(spec, table, {"schema_kind": what, "kwargs": kw, "diff": d2}),
                          None)
    if out.accepted:
        run.count("kind_compared")
        if S.kind(out.result) != kind_in:
            run.violation("result-kind-differs",
                          C.brief(spec, table, {"schema_kind": what, "in": kind_in,
                                                "out": S.kind(out.result)}),
                          classify_kind(what, kind_in, S.kind(out.result)))
    return out


def classify_mut(what, spec, d, out):
    return None


def classify_kind(what, kin, kout):
    if what == "polars.Column" and kin == "pl.DataFrame" and kout == "pl.LazyFrame":
        return "polars-column-validate-returns-lazyframe-for-dataframe"
    return None


def pandas_case(run, rng, i):
    spec, table, opts, muts = P.gen_parse_case(rng, mutate_p=0.5)
    try:
        data = B.pandas_table(spec, table)
        schema = B.pandas_schema(spec)
    except Exception as e:
        run.count("build_error:" + type(e).__name__)
        return
    lazy = bool(spec.get("drop_invalid_rows")) or rng.random() < 0.4
    obj, owner, how = alias(rng, data, run)
    run.case(canon_hash(["pandas", spec, table, lazy, how]), bool(opts) or bool(muts),
             sample={"spec": spec, "table": table, "options": opts, "lazy": lazy, "alias": how})
    run.count(f"alias:{how}")
    for o in opts:
        run.count(f"option:{o}")
    kw = {"lazy": lazy}
    what = "SeriesSchema" if spec["kind"] == "series" else "DataFrameSchema"
    observe(run, schema, obj, kw, what, spec, table, owner)
    # head/tail/sample do not change the obligation
    if rng.random() < 0.3 and len(data):
        kw2 = {"lazy": lazy}
        for name in rng.sample(["head", "tail", "sample"], rng.randint(1, 2)):
            kw2[name] = rng.randint(0, len(data))
        if "sample" in kw2:
            kw2["random_state"] = rng.choice([0, 1, 7])
        observe(run, B.pandas_schema(spec), obj, kw2, what + "+subsample", spec, table, owner)
    if spec["kind"] != "frame":
        return
    # component schemas validated directly against the frame
    schema = B.pandas_schema(spec)
    comps = []
    for name, col in schema.columns.items():
        if not col.regex and name in data.columns and not C.has_dup_labels(table):
            comps.append(("Column", col))
    if schema.index is not None:
        comps.append((type(schema.index).__name__, schema.index))
    for what, comp in comps[:3]:
        if what in ("Index", "MultiIndex") and getattr(comp, "coerce", False) is False and rng.random() < 0.5:
            comp.coerce = True
        observe(run, comp, obj, {"lazy": rng.random() < 0.5}, what, spec, table, owner)


def polars_case(run, rng, i):
    import polars as pl
    spec, table, opts, muts = P.gen_parse_case(rng, neutral=True, mutate_p=0.5, neutral_regex=True)
    if C.has_dup_labels(table):
        return
    lazyframe = rng.random() < 0.5
    try:
        data = B.polars_table(table, lazy=lazyframe)
        schema = B.polars_schema(spec)
    except Exception as e:
        run.count("build_error_polars:" + type(e).__name__)
        return
    lazy = bool(spec.get("drop_invalid_rows")) or rng.random() < 0.4
    run.case(canon_hash(["polars", lazyframe, spec, table, lazy]), bool(opts) or bool(muts), sample=None)
    what = "polars.DataFrameSchema/" + ("LazyFrame" if lazyframe else "DataFrame")
    observe(run, schema, data, {"lazy": lazy}, what, spec, table)
    n = len(table["columns"][0]["values"]) if table["columns"] else 0
    if n and rng.random() < 0.4:
        kw = {"lazy": lazy}
        for name in rng.sample(["head", "tail", "sample"], rng.randint(1, 2)):
            kw[name] = rng.randint(0, n)
        if "sample" in kw:
            kw["random_state"] = rng.choice([0, 1, 7])
        observe(run, B.polars_schema(spec), data, kw, what + "+subsample", spec, table)
    present = [n for n in schema.columns if n in [c["name"] for c in table["columns"]]]
    for n in present[:2]:
        observe(run, schema.columns[n], data, {"lazy": rng.random() < 0.5}, "polars.Column", spec, table)


def run(run, ctx):
    for i in ctx.cases(N[ctx.tier]):
        rng = ctx.rng(PID, i)
        if i % 3 == 2:
            polars_case(run, rng, i)
        else:
            pandas_case(run, rng, i)


def finalize(run, ctx):
    for name, m in [("input_snapshot_compared", 1500), ("kind_compared", 600),
                    ("owner_snapshot_compared", 150), ("outcome:Column:ok", 100),
                    ("outcome:Index:ok", 30), ("outcome:SeriesSchema:ok", 30),
                    ("outcome:polars.Column:ok", 100), ("alias:column_subset", 50),
                    ("alias:row_slice", 50)]:
        run.floors[name] = m
