"""C04 — validation never modifies the caller's data unless inplace=True;
the result has the container kind of the input."""
from __future__ import annotations

import numpy as np
import pandas as pd

from .. import harness as H, snap as S
from ..evidence import Run, canon_hash
from ..gen import build as B, parse as P, spec as G
from . import common as C

PID = "C04"
SHARDS = {"quick": 4, "thorough": 16}
N = {"quick": 3500, "thorough": 115000}


def new_run():
    return Run(PID, "exploration",
               "cases = (schema spec with random parsing options - incl. the forced combinations of C03: "
               "parser column failing lazily, two errors of one component, MultiIndex(ordered=False) with "
               "coercing levels on reordered level data -, table, schema kind in "
               "{DataFrameSchema, SeriesSchema, Column, Index, MultiIndex, polars DataFrameSchema "
               "on DataFrame / LazyFrame, polars Column}, lazy flag, input aliasing in {fresh, "
               "column-subset view, row-slice view, series taken from a frame}); one case in seven "
               "is a multi-step ownership sequence: 2-3 validations with the SAME schema object "
               "(or the same DataFrameModel) of objects derived from earlier results, which the "
               "caller edits in place in between (raw column / NaN cell / added column / retyped "
               "column / raw index), also after a failing first validation; the argument is "
               "deep-snapshotted before and after the real validate(inplace=False); non-trivial = "
               "a parsing option is active or validation fails; distinct = canonical hash",
               ["snapshot = labels, dtypes, raw value bytes / typed cell reprs, index, names"])


def alias(rng, data, run):
    """Return (object to validate, owner to keep alive, aliasing kind)."""
    r = rng.random()
    if isinstance(data, pd.DataFrame):
        if r < 0.25 and data.shape[1] >= 1:
            wide = data.copy()
            wide["__pad"] = 0
            # positional: a list of labels holding False / True would be read as a mask
            return wide.iloc[:, : data.shape[1]], wide, "column_subset"
        if r < 0.45 and len(data) >= 1:
            tall = pd.concat([data, data]) if data.index.is_unique is False else \
                pd.concat([data, data.iloc[:0]])
            return tall.iloc[: len(data)], tall, "row_slice"
        return data, None, "fresh"
    if isinstance(data, pd.Series):
        if r < 0.4:
            fr = data.to_frame(name=data.name if data.name is not None else "s")
            s = fr.iloc[:, 0]
            s.name = data.name
            return s, fr, "series_of_frame"
        return data, None, "fresh"
    return data, None, "fresh"


def classify(kindname, spec, d, inplace_kind):
    return None


def observe(run, schema, obj, kw, what, spec, table, owner=None):
    before = S.snap(obj)
    owner_before = S.snap(owner) if owner is not None else None
    kind_in = S.kind(obj)
    out = H.run_validate(schema, obj, **kw)
    after = S.snap(obj)
    run.count(f"outcome:{what}:{out.kind}")
    run.count("input_snapshot_compared")
    d = S.diff(before, after)
    if d:
        run.violation("caller-data-modified",
                      C.brief(spec, table, {"schema_kind": what, "kwargs": kw, "diff": d,
                                            "outcome": out.kind}),
                      classify_mut(what, spec, d, out))
    if owner is not None:
        d2 = S.diff(owner_before, S.snap(owner))
        run.count("owner_snapshot_compared")
        if d2:
            run.violation("caller-owned-parent-modified",
                          C.brief(spec, table, {"schema_kind": what, "kwargs": kw, "diff": d2}),
                          None)
    if out.accepted:
        run.count("kind_compared")
        if S.kind(out.result) != kind_in:
            run.violation("result-kind-differs",
                          C.brief(spec, table, {"schema_kind": what, "in": kind_in,
                                                "out": S.kind(out.result)}),
                          classify_kind(what, kind_in, S.kind(out.result)))
    return out


def classify_mut(what, spec, d, out):
    return None


def classify_kind(what, kin, kout):
    if what == "polars.Column" and kin == "pl.DataFrame" and kout == "pl.LazyFrame":
        return "polars-column-validate-returns-lazyframe-for-dataframe"
    return None


def pandas_case(run, rng, i):
    spec, table, opts, muts = P.gen_parse_case(rng, mutate_p=0.5, parser_combo_p=0.04,
                                               same_component_p=0.03, unordered_mi_p=0.05)
    try:
        data = B.pandas_table(spec, table)
        schema = B.pandas_schema(spec)
    except Exception as e:
        run.count("build_error:" + type(e).__name__)
        return
    lazy = bool(spec.get("drop_invalid_rows")) or rng.random() < 0.4
    obj, owner, how = alias(rng, data, run)
    run.case(canon_hash(["pandas", spec, table, lazy, how]), bool(opts) or bool(muts),
             sample={"spec": spec, "table": table, "options": opts, "lazy": lazy, "alias": how})
    run.count(f"alias:{how}")
    for o in opts:
        run.count(f"option:{o}")
    kw = {"lazy": lazy}
    what = "SeriesSchema" if spec["kind"] == "series" else "DataFrameSchema"
    observe(run, schema, obj, kw, what, spec, table, owner)
    # head/tail/sample do not change the obligation
    if rng.random() < 0.3 and len(data):
        kw2 = {"lazy": lazy}
        for name in rng.sample(["head", "tail", "sample"], rng.randint(1, 2)):
            kw2[name] = rng.randint(0, len(data))
        if "sample" in kw2:
            kw2["random_state"] = rng.choice([0, 1, 7])
        observe(run, B.pandas_schema(spec), obj, kw2, what + "+subsample", spec, table, owner)
    if spec["kind"] != "frame":
        return
    # component schemas validated directly against the frame
    schema = B.pandas_schema(spec)
    comps = []
    for name, col in schema.columns.items():
        if not col.regex and name in data.columns and not C.has_dup_labels(table):
            comps.append(("Column", col))
    if schema.index is not None:
        comps.append((type(schema.index).__name__, schema.index))
    for what, comp in comps[:3]:
        if what in ("Index", "MultiIndex") and getattr(comp, "coerce", False) is False and rng.random() < 0.5:
            comp.coerce = True
        observe(run, comp, obj, {"lazy": rng.random() < 0.5}, what, spec, table, owner)


def polars_case(run, rng, i):
    import polars as pl
    spec, table, opts, muts = P.gen_parse_case(rng, neutral=True, mutate_p=0.5, neutral_regex=True)
    if C.has_dup_labels(table):
        return
    lazyframe = rng.random() < 0.5
    try:
        data = B.polars_table(table, lazy=lazyframe)
        schema = B.polars_schema(spec)
    except Exception as e:
        run.count("build_error_polars:" + type(e).__name__)
        return
    lazy = bool(spec.get("drop_invalid_rows")) or rng.random() < 0.4
    run.case(canon_hash(["polars", lazyframe, spec, table, lazy]), bool(opts) or bool(muts), sample=None)
    what = "polars.DataFrameSchema/" + ("LazyFrame" if lazyframe else "DataFrame")
    observe(run, schema, data, {"lazy": lazy}, what, spec, table)
    n = len(table["columns"][0]["values"]) if table["columns"] else 0
    if n and rng.random() < 0.4:
        kw = {"lazy": lazy}
        for name in rng.sample(["head", "tail", "sample"], rng.randint(1, 2)):
            kw[name] = rng.randint(0, n)
        if "sample" in kw:
            kw["random_state"] = rng.choice([0, 1, 7])
        observe(run, B.polars_schema(spec), data, kw, what + "+subsample", spec, table)
    present = [n for n in schema.columns if n in [c["name"] for c in table["columns"]]]
    for n in present[:2]:
        observe(run, schema.columns[n], data, {"lazy": rng.random() < 0.5}, "polars.Column", spec, table)


_MODEL_SEQ = [0]


def lossy_model(spec):
    """A DataFrameModel carrying the parsing options of ``spec`` (dtype,
    nullable, unique, coerce, default, regex, required, the first check of each
    kind; strict / ordered / coerce / add_missing_columns / drop_invalid_rows).
    It does not have to mean the same as the spec: C04 only watches the
    argument of validate.  ``Model.to_schema()`` is cached, so every
    ``Model.validate`` goes through the same schema object."""
    import typing
    import pandera as pa
    ann = {"int64": int, "float64": float, "str": str, "bool": bool, "datetime": pa.DateTime}
    ns, annotations = {}, {}
    for k, fs in enumerate(spec["columns"]):
        kw = dict(nullable=fs.get("nullable", False), unique=fs.get("unique", False),
                  coerce=fs.get("coerce", False), regex=fs.get("regex", False), alias=fs["name"])
        if fs.get("default") is not None:
            kw["default"] = B._val(fs["dtype"], fs["default"])
        for c in fs.get("checks", []):
            a = B._args(fs["dtype"], c["args"])
            if c["kind"] in kw:
                continue
            if c["kind"] in ("eq", "ne", "gt", "ge", "lt", "le", "isin", "notin", "str_matches",
                             "str_contains", "str_startswith", "str_endswith"):
                kw[c["kind"]] = list(a.values())[0]
            else:
                kw[c["kind"]] = a
        t = ann[fs["dtype"]]
        annotations[f"f{k}"] = t if fs.get("required", True) else typing.Optional[t]
        ns[f"f{k}"] = pa.Field(**kw)
    cfg = {"strict": spec.get("strict", False), "ordered": spec.get("ordered", False),
           "coerce": spec.get("coerce", False),
           "add_missing_columns": spec.get("add_missing_columns", False),
           "drop_invalid_rows": spec.get("drop_invalid_rows", False)}
    ns["Config"] = type("Config", (), cfg)
    ns["__annotations__"] = annotations
    ns["__module__"] = __name__
    _MODEL_SEQ[0] += 1
    return type(f"SeqModel{_MODEL_SEQ[0]}", (pa.DataFrameModel,), ns)


def edit_in_place(rng, cur, raw, table):
    """The caller edits the frame he owns, in place (the Python object and
    whatever is attached to it stay).  Returns the names of the edits."""
    done = []
    if isinstance(cur, pd.Series):
        for how in rng.sample(["nan_cell", "raw_values", "raw_index"], rng.randint(1, 2)):
            try:
                if how == "nan_cell" and len(cur):
                    cur.iloc[rng.randrange(len(cur))] = np.nan
                elif how == "raw_values" and len(cur) == len(raw) and cur.dtype == object:
                    cur[:] = raw.to_numpy()
                elif how == "raw_index" and len(cur) == len(raw):
                    cur.index = raw.index.copy()
                else:
                    continue
            except Exception as e:
                done.append(f"{how}:refused:{type(e).__name__}")
                continue
            done.append("series_" + how)
        return done
    dup = C.has_dup_labels(table) or not cur.columns.is_unique
    common = [c for c in cur.columns if c in raw.columns] if not dup else []
    for how in rng.sample(["raw_column", "nan_cell", "add_column", "retype", "raw_index", "extra_column"],
                          rng.randint(1, 3)):
        try:
            if how == "raw_column" and common and len(cur) == len(raw):
                name = rng.choice(common)
                cur[name] = raw[name].to_numpy()
            elif how == "nan_cell" and common and len(cur):
                name = rng.choice(common)
                cur.loc[cur.index[rng.randrange(len(cur))], name] = np.nan
            elif how == "add_column":
                cur["__new"] = 0
            elif how == "extra_column" and len(cur.columns) and not dup:
                cur["extra1"] = 1.5
            elif how == "retype" and common:
                name = rng.choice(common)
                cur[name] = cur[name].astype(object)
            elif how == "raw_index" and len(cur) == len(raw):
                cur.index = raw.index.copy()
            else:
                continue
        except Exception as e:      # an edit pandas refuses is no edit
            done.append(f"{how}:refused:{type(e).__name__}")
            continue
        done.append(how)
    return done


def sequence_case(run, rng, i):
    """Multi-step ownership: ``out = schema.validate(df)``; the caller edits
    ``out`` in place; ``schema.validate(out)`` (same schema object, or the same
    DataFrameModel) must leave ``out`` untouched.  2-3 validations of objects
    derived from earlier results; after a failing validation the (edited)
    input is validated again."""
    spec, table, opts, muts = P.gen_parse_case(rng, kind="frame" if rng.random() < 0.8 else "series",
                                               mutate_p=0.3)
    try:
        data = B.pandas_table(spec, table)
        schema = B.pandas_schema(spec)
    except Exception as e:
        run.count("build_error:" + type(e).__name__)
        return
    via = "schema" if spec["kind"] == "frame" else "series_schema"
    validator = schema
    if spec["kind"] == "frame" and not spec.get("index") and rng.random() < 0.35 \
            and all(isinstance(fs["name"], str) for fs in spec["columns"]):
        try:
            validator = lossy_model(spec)
            validator.to_schema()
            via = "model"
        except Exception as e:
            run.count("sequence:model_build_error:" + type(e).__name__)
            validator = schema
    raw = data.copy(deep=True)
    lazy = bool(spec.get("drop_invalid_rows")) or rng.random() < 0.4
    steps = rng.choice([2, 2, 3])
    run.case(canon_hash(["sequence", via, spec, table, lazy, steps]), True,
             sample={"sequence": True, "via": via, "spec": spec, "table": table, "options": opts,
                     "lazy": lazy, "steps": steps})
    run.count(f"sequence:via:{via}")
    cur, first_failed = data, False
    for step in range(steps):
        what = f"sequence:{via}:step{step}"
        out = observe(run, validator, cur, {"lazy": lazy}, what, spec, table)
        if step > 0:
            run.count("sequence:derived_object_snapshot_compared")
            run.count("sequence:after_" + ("failed" if first_failed else "passed") + "_first_validation")
        if step == 0:
            first_failed = not out.accepted
        if out.accepted and isinstance(out.result, (pd.DataFrame, pd.Series)):
            cur = out.result          # the caller owns what validate returned
        if step + 1 < steps:
            for e in edit_in_place(rng, cur, raw, table):
                run.count(f"sequence:edit:{e.split(':')[0]}")


def run(run, ctx):
    for i in ctx.cases(N[ctx.tier]):
        rng = ctx.rng(PID, i)
        if i % 7 == 3:
            sequence_case(run, rng, i)
        elif i % 3 == 2:
            polars_case(run, rng, i)
        else:
            pandas_case(run, rng, i)
        C.report_context_leaks(run, {"case": i})
    C.finish_context_monitor(run)


def finalize(run, ctx):
    for name, m in [("input_snapshot_compared", 1500), ("kind_compared", 600),
                    ("owner_snapshot_compared", 150), ("outcome:Column:ok", 100),
                    ("outcome:Index:ok", 30), ("outcome:SeriesSchema:ok", 30),
                    ("outcome:polars.Column:ok", 100), ("alias:column_subset", 50),
                    ("alias:row_slice", 50),
                    # multi-step ownership sequences
                    ("sequence:derived_object_snapshot_compared", 160),
                    ("sequence:after_failed_first_validation", 35),
                    ("sequence:after_passed_first_validation", 120),
                    ("sequence:via:model", 18), ("sequence:via:series_schema", 20),
                    ("sequence:edit:raw_column", 35), ("sequence:edit:nan_cell", 30),
                    ("sequence:edit:add_column", 40), ("option:falsy_labels", 100),
                    ("config_monitor:validate_calls_bracketed", 2300)]:
        run.floors[name] = m
