"""C09 — data type resolution is coherent in every engine.

Runtime monitoring of the real ``Engine.dtype`` / ``==`` / ``hash`` / ``str`` /
``DataType.check`` of the numpy, pandas (+pyarrow), polars and pyspark dtype
engines.  The registries (equivalents table, singledispatch table, registered
classes) are read at run time and enumerated completely; parameterisations
are sampled.  Oracle clauses (one counter per engine and clause):

  resolve     every registry key / registered class / dispatch native /
              documented spelling resolves to a DataType of the engine
  idem        E.dtype(E.dtype(k)) == E.dtype(k), equal hash
  family      spellings documented as equivalent resolve to equal, equally
              hashed objects
  alias       every numpy alias (np.sctypeDict + type codes) keeps its
              (kind, signedness, width)  [numpy, pandas]
  roundtrip   E.dtype(str(t)) == t for primitive t [numpy, pandas, pyspark]
  selfcheck   t.check(t)
  pairs       t1.check(t2) => same (kind, signedness, width) for all ordered
              pairs of physical numeric / bool / temporal types
  stable      a spelling resolves to an equal object before and after the
              other resolutions of the run (a resolution must not re-register
              types: the pandas engine used to import the duplicate module
              pandera.engines.pyarrow_engine lazily); param-stable: the same
              for the first 600 sampled parameterisations per engine and
              shard, re-resolved in reverse order (caches keyed on a native
              dtype whose equality is coarser than the type's)
  construct   a pandera data type built with valid parameters (A.Make thunks:
              the monitor builds them, a constructor that raises is a family
              member that does not resolve, never a harness crash)
  native      a native spelling that is not a registry key and so reaches the
              engine's fallback path (np.dtype(x).type / pandas_dtype(x) /
              polars' parser) resolves and keeps what it names.  numpy:
              everything numpy reads as a dtype - type codes with item size
              and byte order ('<U5', 'S3', '>i8', '=f4', 'M8[25s]'), dtype
              instances of those, the dtype of real arrays (strings, bytes,
              numbers, dates), scalar classes (np.longlong, np.str_), dtype
              class instances: str / bytes / object / numeric / bool /
              temporal spellings must resolve, keep (kind, signedness, width)
              and a str / bytes / object dtype stays one at any item size.
              pandas: the same catalog, judged for the numeric / bool /
              temporal spellings pandas itself reads; every extension dtype
              class pandas builds without arguments, as class and instance
              (the instance is boxed).  polars: every data type class polars
              exports, its argument-free instance and the dtype of a Series
              built with it ("supports all of the polars data types"): resolves
              and boxes it, registered or not (Int128, UInt128, Float16)
  boxes       a parameterised native dtype instance resolves to a type whose
              ``type`` is that native dtype, compared order-sensitively for
              categories and by tzinfo object for time zones (reference:
              "type: native dtype boxed by the data type")

Sampled input classes (counters ``paramclass:*``, all floored): decimal
(precision, scale) with the corners scale == precision, scale == 0,
precision == 1, precision == max drawn as often as the interior (pandas,
pyarrow, polars, pyspark, and the abstract pandera.dtypes.Decimal instance
where the engine registers that class); tz arguments of every kind of object
pandas accepts (zone name, canonical pytz zone, non-canonical pytz tzinfo
taken from a localized Timestamp / localize() / an aware datetime, zoneinfo,
dateutil zone / offset / utc, datetime.timezone, pytz.FixedOffset, int seconds,
offset string, the UTC singletons), two objects for one zone in one family
when pandas standardises them to the same tzinfo; categories as listed,
subset, permuted, reversed, empty, None, list and tuple; polars Array width 0
and 1-3 dimensional shapes, nested inner types; pyarrow list size 0 / binary
length 0 / negative decimal scale; pandas string aliases of period / sparse /
interval natives; the engine-type constructors of every Arrow class.

Not judged (counted under ``undecided:*``): numpy void / structured /
sub-array dtypes and numpy's 'T' StringDType in the numpy engine (they only get
the fallback box whose "support is not guaranteed"; resolved, per-type clauses
applied when they resolve); whether a sized '<U5' / 'S3' equals the unsized
'str' / 'bytes' type (counted: it does); flexible / structured / 'T' numpy
spellings in the pandas engine (a pandas object never carries such a dtype -
pandas stores the data as object - the engine rejects the sized ones with
numpy's own "data type 'str160' not understood"); python types beyond the
built-in str / int / float / bool in the polars engine (decimal.Decimal, list,
tuple, NoneType, generics: which parameters polars fills in); polars' abstract
DataType / Extension bases and Unknown; equality of an extension dtype class
and its argument-free instance; whether a printed time-zone name
resolves back to the same *tzinfo implementation* (pandas reads
'datetime64[ns, UTC]' as datetime.timezone.utc and calls it equal to pytz.utc
/ ZoneInfo('UTC'); decided on the native dtype's own name, never on what
pandera prints); whether an engine type built with a parameter in another
form (Period(freq="M") vs the offset object, Sparse / Interval given a dtype
name) equals the resolution of the native dtype; a time-zone-agnostic
DateTime asked to check another type without data (raises); tz arguments
pandas itself rejects; print/resolve round trip of
Decimal, parameterised Category, Period / Sparse / Interval / pydantic /
python-generic types, pyarrow nested / binary / decimal / dictionary types and
of names pandas itself cannot parse back; datetime units other than "ns" in the
pandas engine (documented as unsupported); which numpy unit a
"datetime64[<unit>]" alias keeps (kind only).
"""
from __future__ import annotations

import sys

import numpy as np

from .. import c09_engines as A
from ..evidence import Run

PID = "C09"
REPLAY_RERUNS_TIER = True   # exhaustive registry enumeration, ~1 s
SHARDS = {"quick": 1, "thorough": 4}
N_PARAM = {"quick": 16000, "thorough": 160000}
PARAM_SNAPSHOT = 600        # spellings re-resolved at the end, per engine/shard


def new_run():
    return Run(
        PID, "exploration",
        "case = one spelling (registry key, registered class, dispatch native, "
        "documented family, numpy alias, native spelling outside the registry "
        "[numpy type code with item size / byte order, dtype instance, dtype of a "
        "real array, scalar class, structured dtype; pandas extension dtype class "
        "/ instance; polars data type class / instance / Series dtype], "
        "sampled parameterisation with all its "
        "spellings: native instance, engine-type constructor, abstract pandera "
        "instance, pandas string alias) or one "
        "ordered pair of physical types, per engine; non-trivial = the spelling "
        "resolved to a DataType and at least one clause was judged on it (pairs: "
        "always); distinct = hash of (engine, clause group, address-free repr "
        "of the spelling / pair)",
        ["native (kind, signedness, width) taken from numpy / pandas / pyarrow "
         "/ polars / pyspark themselves",
         "a parameterisation is valid when the native library builds it "
         "(pd.DatetimeTZDtype(tz=..), pyarrow.decimal128, pl.Decimal, "
         "pst.DecimalType; python decimal: 1 <= precision, 0 <= scale <= "
         "precision); which tzinfo objects are one zone is pandas' own "
         "standardisation (same tzinfo object after DatetimeTZDtype)",
         "documented-equivalence table transcribed by hand from "
         "docs/source/dtype_validation.md, polars.md, pyspark_sql.md, "
         "reference/dtypes.rst (pvm/c09_engines.py)",
         "print/resolve round trip judged for unparameterised primitives, "
         "time zones / units and string storages only; Decimal and "
         "parameterised Category names are counted as undecided",
         "linux: builtin int == int64"])


# ---------------------------------------------------------------------------
def truthy(r):
    if isinstance(r, (bool, np.bool_)):
        return bool(r)
    try:
        return bool(np.all(np.asarray(list(r) if not hasattr(r, "__array__") else r)))
    except Exception:
        return bool(r)


def safe(f, *a):
    try:
        return True, f(*a)
    except Exception as e:  # noqa
        return False, e


def exc_s(e):
    return f"{type(e).__name__}: {str(e)[:160]}"


class Ctx9:
    def __init__(self, run, ad):
        self.run, self.ad = run, ad
        self.seen_types = {}       # tdesc -> t   (type-level clauses once)
        self.physical = {}         # tdesc -> (t, class)
        self.snapshot = {}         # desc(k) -> (k, t)
        self.param_snapshot = {}   # same for sampled parameterisations
        self.pa_at_start = "pandera.engines.pyarrow_engine" in sys.modules
        self._sampled = set()

    def c(self, name, n=1):
        self.run.count(f"{self.ad.name}:{name}", n)

    def sample(self, tag, make):
        """One written-out sample per engine and clause group (evidence.Run
        keeps the first few only, so they are spread over engines/clauses)."""
        if tag not in SAMPLE_TAGS.get(self.ad.name, ()) or tag in self._sampled:
            return None
        self._sampled.add(tag)
        return make()


# which clause groups are written out as samples, per engine
SAMPLE_TAGS = {"numpy": ("key", "native"), "pandas": ("family", "param", "pair"),
               "polars": ("param", "native"), "pyspark": ("key",)}


def observed(cx, k, t):
    """What the monitors saw for one resolved spelling (sample text)."""
    ad = cx.ad
    ok_s, s = safe(str, t)
    ok_i, t2 = safe(ad.E.dtype, t)
    ok_c, r = safe(t.check, t)
    out = {"engine": ad.name, "spelling": A.desc(k), "resolved": A.tdesc(t),
           "printed": s if ok_s else exc_s(s),
           "resolved_again_equal_and_same_hash": _eqh(t2, t) if ok_i else exc_s(t2),
           "recognises_itself": truthy(r) if ok_c else exc_s(r)}
    if ad.roundtrip and ok_s:
        p = ad.primitive(t)
        if p == "judge":
            ok_b, t3 = safe(ad.E.dtype, s)
            out["printed_name_resolves_back_equal"] = _eqh(t3, t) if ok_b else exc_s(t3)
        else:
            out["printed_name_resolves_back_equal"] = "not judged: " + p
    return out


BY_CLASS = [
    # (engine, kinds, predicate on the printed resolved type, mechanism)
    ("polars", ("self-check-raises", "self-check-false"),
     lambda r: r.startswith("polars_engine.Enum(") and "categories=[]" in r,
     "polars-enum-without-categories-self-check"),
    ("polars", ("unhashable", "eq-raises", "resolution-changed-during-run",
                "not-idempotent", "idem-raises", "unequal-to-itself-rebuilt"),
     lambda r: r.startswith("polars_engine.Enum("),
     "polars-enum-categories-eq-hash-raise"),
    ("pandas", ("unhashable",),
     lambda r: r.split(".", 1)[-1].startswith("ArrowStruct("),
     "arrow-struct-fields-list-unhashable"),
    ("pandas", ("unhashable",),
     lambda r: r.startswith("pandas_engine.DateTime(") and
     any(x in r for x in ("tzfile(", "tzutc(", "tzoffset(", "tzlocal(",
                          "tzrange(", "tzstr(")),
     "pandas-datetime-dateutil-tzinfo-unhashable"),
    ("pandas", ("self-check-false",),
     lambda r: r.startswith("pandas_engine.Python"),
     "pandas-python-generic-self-check-false"),
    ("pandas", ("resolution-changed-during-run", "unequal-to-itself-rebuilt"),
     lambda r: r.startswith("pandas_engine.Decimal("),
     "pandas-decimal-context-compared-by-identity"),
    ("pandas", ("resolution-changed-during-run", "unequal-to-itself-rebuilt"),
     lambda r: r.startswith(("pandas_engine.PythonTypedDict(",
                             "pandas_engine.PythonNamedTuple(")),
     "pandas-typeddict-namedtuple-type-binds-as-method"),
    ("pandas", ("resolution-changed-during-run", "unequal-to-itself-rebuilt"),
     lambda r: r.startswith("pandas_engine.Python"),
     "pandas-python-generic-coercion-model-compared-by-identity"),
]


def _is_bare_arrow(d):
    return d.startswith("pyarrow.lib.")


def _is_arrow_alias(d):
    return d.startswith("str:") and d.endswith("[pyarrow]'")


def _polars_array_outer_dim_changed(d, r):
    """native pl.Array with more than one dimension whose resolution prints
    another outermost shape"""
    import re
    if not d.startswith("polars.datatypes.classes.Array:"):
        return False
    a = re.search(r"shape=\(([^)]*)\)", d)
    b = re.search(r"shape=\(([^)]*)\)", r)
    if not a or not b:
        return False
    da = [x for x in a.group(1).split(",") if x.strip()]
    db = [x for x in b.group(1).split(",") if x.strip()]
    return len(da) > 1 and len(da) == len(db) and da != db and da[1:] == db[1:]


# hypotheses for family-like violations: (mechanism, engine, member predicate)
# a member is (desc, printed result, unresolved?)
FAMILY_HYP = [
    ("numpy-abstract-number-instance-registered-for-every-width", "numpy",
     lambda d, r, u, w: d.startswith("pandera.dtypes.") and
     w.get("family", "").startswith(("number:", "roundtrip"))),
    ("numpy-python-datetime-registered-under-timedelta", "numpy",
     lambda d, r, u, w: d in ("class:datetime.datetime", "class:datetime.timedelta")),
    ("pandas-bare-pyarrow-instance-misresolved", "pandas",
     lambda d, r, u, w: _is_bare_arrow(d)),
    ("pandas-string-pyarrow-alias-resolves-to-arrowdtype", "pandas",
     lambda d, r, u, w: d == "str:'string[pyarrow]'" and "ArrowString" in r),
    ("pandas-arrow-parameterised-string-alias-not-resolved", "pandas",
     lambda d, r, u, w: _is_arrow_alias(d) and u),
    ("abstract-instance-fields-fed-to-engine-constructor", "pandas",
     lambda d, r, u, w: d.startswith("pandera.dtypes.Decimal:") and u and
     "ConstructionRaised" not in r),
    ("abstract-instance-fields-fed-to-engine-constructor", "polars",
     lambda d, r, u, w: d.startswith("pandera.dtypes.Decimal:") and u and
     "ConstructionRaised" not in r),
    ("abstract-instance-fields-fed-to-engine-constructor", "polars",
     lambda d, r, u, w: d.startswith("pandera.dtypes.Category:") and u and
     "ConstructionRaised" not in r),
    ("polars-array-multidim-outer-dimension-replaced", "polars",
     lambda d, r, u, w: _polars_array_outer_dim_changed(d, r)),
    ("pyarrow-engine-import-reregisters-arrow-dtypes", "pandas",
     lambda d, r, u, w: r.startswith("pyarrow_engine.") and
     w.get("pyarrow_engine_imported_during_run")),
]


def mechs(engine, kind, w):
    """Mechanism classifier: stable names of the call sites that explain the
    witness; [None] when something stays unexplained."""
    res = w.get("resolved", w.get("before", ""))
    if res.startswith("pandera.engines."):
        res = res.split(".", 3)[-1]
    for eng, kinds, pred, name in BY_CLASS:
        if eng == engine and kind in kinds and pred(res):
            return [name]
    if kind == "resolution-changed-during-run" and engine == "pandas" and \
            w.get("pyarrow_engine_imported_during_run") and \
            ".pandas_engine.Arrow" in w.get("before", "") and \
            ".pyarrow_engine.Arrow" in w.get("after", ""):
        return ["pyarrow-engine-import-reregisters-arrow-dtypes"]
    if kind == "resolved-type-does-not-box-the-native-dtype" and engine == "pandas":
        import re
        a = re.fullmatch(r".*IntervalDtype:interval\[(.*), (left|right|both|neither)\]",
                         w.get("expected_native", ""))
        b = re.fullmatch(r".*IntervalDtype:interval\[(.*)\]", w.get("boxed") or "")
        if a and b and a.group(1) == b.group(1):
            return ["pandas-interval-closed-side-dropped"]
    if kind == "native-spelling-does-not-resolve" and engine == "polars" and \
            w.get("input_class", "").startswith("unregistered:") and \
            w.get("form") in ("instance", "series-dtype") and \
            w.get("exc", "").startswith("TypeError: cannot parse input of type"):
        # the *class* goes through convert_py_dtype_to_polars_dtype unchanged
        # (DataTypeClass) and gets the fallback box; the instance is handed to
        # polars' python-type parser, which raises
        return ["polars-unregistered-native-instance-not-resolved"]
    groups = w.get("_groups")
    if groups is None:
        return [None]
    # family-like: remove the members each hypothesis explains until at most
    # one group of mutually equal results (and nothing unresolved) is left
    live = [[m for m in g] for g in groups]
    used = []
    # same class, same printed value, still unequal: equality of the class
    flat = [m for g in live for m in g]
    if len(groups) > 1 and len({m[1] for m in flat}) == 1 and not any(m[2] for m in flat):
        for eng, kinds, pred, name in BY_CLASS:
            if eng == engine and "unequal-to-itself-rebuilt" in kinds and pred(flat[0][1]):
                return [name]

    def consistent():
        gs = [g for g in live if g]
        return len([g for g in gs if not all(m[2] for m in g)]) <= 1 and \
            not any(m[2] for g in gs for m in g)
    def measure():
        gs = [g for g in live if g]
        return (len(gs), sum(1 for g in gs for m in g if m[2]))
    for name, eng, pred in FAMILY_HYP:
        if consistent():
            break
        if eng != engine:
            continue
        before, saved = measure(), [list(g) for g in live]
        for g in live:
            for m in list(g):
                if pred(m[0], m[1], m[2], w):
                    g.remove(m)
        if measure() != before:
            used.append(name)      # it removed a whole dissenting group
        else:
            live = saved
    if consistent() and used:
        return used
    return used + [None]


def viol(cx, kind, w):
    w = dict(w, engine=cx.ad.name)
    w["pyarrow_engine_imported_during_run"] = (
        "pandera.engines.pyarrow_engine" in sys.modules and not cx.pa_at_start)
    pub = {k: v for k, v in w.items() if not k.startswith("_")}
    for m in mechs(cx.ad.name, kind, w):
        cx.run.violation(kind, pub, m)


# ---------------------------------------------------------------------------
# clauses
# ---------------------------------------------------------------------------
def resolve(cx, k, group):
    """Build the spelling when pandera builds it (A.Make), then resolve it.
    Returns the DataType or the exception (never raises)."""
    if isinstance(k, A.Make):
        cx.c("construct")
        ok, k = A.unwrap(k)
        if not ok:
            cx.c("construct_raised")
            return k
    ok, t = safe(cx.ad.E.dtype, k)
    from pandera.dtypes import DataType
    if ok and isinstance(t, DataType):
        cx.c(f"resolve:{group}")
        return t
    return t if not ok else TypeError(f"resolved to non-DataType {t!r}")


def _eqh(a, b):
    """a == b both ways with equal hashes; None when the comparison raises."""
    ok, r = safe(lambda: bool(a == b) and bool(b == a))
    if not ok:
        return None
    if not r:
        return False
    okh, rh = safe(lambda: hash(a) == hash(b))
    return bool(rh) if okh else True      # unhashable is reported on its own


def boxes_clause(cx, k, t):
    """A *parameterised* native dtype instance resolves to a type that boxes
    that very native dtype (same parameters: category order, tzinfo, shape,
    precision/scale, unit).  Not applied to the keys of the equivalents
    table: an engine may declare one native an alias of another there
    (pyspark TimestampNTZType -> Timestamp)."""
    ok, k = A.unwrap(k)
    if not ok:
        return
    ok, want = safe(cx.ad.boxed_native, k)
    if not ok or want is None:
        return
    cx.c("boxes")
    got = getattr(t, "type", None)
    if not A.same_native(got, want):
        viol(cx, "resolved-type-does-not-box-the-native-dtype",
             {"spelling": A.desc(k), "resolved": A.tdesc(t),
              "boxed": A.desc(got) if got is not None else None,
              "expected_native": A.desc(want),
              "_groups": [[("<the native dtype>", A.desc(want), False)],
                          [(A.desc(k), A.tdesc(t), False)]]})


def type_clauses(cx, t, origin):
    """hash / idem / str / selfcheck / roundtrip, once per distinct type."""
    ad = cx.ad
    key = type(t).__module__ + A.tdesc(t) + "|" + repr(getattr(t, "__dict__", None))[:300]
    if key in cx.seen_types:
        return
    cx.seen_types[key] = t
    td = A.tdesc(t)
    ok, h = safe(hash, t)
    cx.c("hash")
    if not ok:
        viol(cx, "unhashable", {"resolved": td, "origin": origin, "exc": exc_s(h)})
    ok, t2 = safe(ad.E.dtype, t)
    cx.c("idem")
    if not ok:
        viol(cx, "idem-raises", {"resolved": td, "origin": origin, "exc": exc_s(t2)})
    else:
        e = _eqh(t2, t)
        if e is None:
            viol(cx, "eq-raises", {"resolved": td, "origin": origin})
        elif not e:
            viol(cx, "not-idempotent", {"resolved": td, "again": A.tdesc(t2),
                                        "origin": origin})
    ok, s = safe(str, t)
    cx.c("str")
    if not ok:
        viol(cx, "str-raises", {"resolved": td, "origin": origin, "exc": exc_s(s)})
    ok, r = safe(t.check, t)
    cx.c("selfcheck")
    if not ok:
        viol(cx, "self-check-raises", {"resolved": td, "origin": origin,
                                       "exc": exc_s(r)})
    elif not truthy(r):
        viol(cx, "self-check-false", {"resolved": td, "origin": origin})
    cls = ad.native_class(t)
    if cls is not None:
        cx.physical.setdefault(td, (t, cls))
    if ad.roundtrip and isinstance(s, str):
        p = ad.primitive(t)
        if p != "judge":
            cx.c(p if p.startswith("undecided") else f"undecided:{p}")
            return
        cx.c("roundtrip")
        ok, t3 = safe(ad.E.dtype, s)
        sd = A.desc(s)
        w = {"resolved": td, "printed": s, "origin": origin, "family": "roundtrip"}
        if not ok:
            viol(cx, "roundtrip-does-not-resolve",
                 dict(w, exc=exc_s(t3),
                      _groups=[[("<the type itself>", td, False)],
                               [(sd, "EXC " + exc_s(t3), True)]]))
        else:
            e = _eqh(t3, t)
            if not e:
                viol(cx, "roundtrip-unequal",
                     dict(w, back=A.tdesc(t3),
                          _groups=[[("<the type itself>", td, False)],
                                   [(sd, A.tdesc(t3), False)]]))


def family_clause(cx, label, spellings, expect_class=None, group="family"):
    ad = cx.ad
    res = [(k, resolve(cx, k, group)) for k in spellings]
    good = [(A.unwrap(k)[1], t) for k, t in res if not isinstance(t, Exception)]
    unres = [(k, t) for k, t in res if isinstance(t, Exception)]
    cx.c(group)
    members = [[A.desc(k), (A.tdesc(t) if not isinstance(t, Exception)
                            else "EXC " + exc_s(t))] for k, t in res]
    for k, t in good:
        type_clauses(cx, t, f"{group}:{label}")
        if group == "param-family":
            boxes_clause(cx, k, t)
    groups = []
    for k, t in good:
        for g in groups:
            if _eqh(g[0][1], t):
                g.append((k, t))
                break
        else:
            groups.append([(k, t)])
    if unres or len(groups) > 1:
        groups.sort(key=len, reverse=True)
        wg = [[(A.desc(k), A.tdesc(t), False) for k, t in g] for g in groups]
        wg += [[(A.desc(k), "EXC " + exc_s(t), True)] for k, t in unres]
        viol(cx, "family-member-does-not-resolve" if len(groups) <= 1
             else "family-members-resolve-unequal",
             {"family": label, "members": members,
              "groups_of_equal_results": [[m[0] for m in g] for g in wg],
              "_groups": wg})
    if expect_class is not None:
        for k, t in good:
            cx.c("param-class")
            got = ad.native_class(t)
            if got != expect_class:
                viol(cx, "param-class-changed",
                     {"family": label, "spelling": A.desc(k),
                      "resolved": A.tdesc(t), "expected_class": expect_class,
                      "got_class": got, "members": members,
                      "_groups": [[("<expected class>", str(expect_class), False)],
                                  [(A.desc(k), A.tdesc(t), False)]]})
    return good


def family_sample(cx, label, spellings, good):
    return {"engine": cx.ad.name, "family_of_equivalent_spellings": label,
            "spellings": [A.desc(k) for k in spellings],
            "resolved": sorted({A.tdesc(t) for _, t in good}),
            "all_resolved": len(good) == len(spellings),
            "all_pairwise_equal_and_same_hash": all(
                _eqh(good[0][1], t) for _, t in good[1:]) if good else None}


def registry_phase(cx):
    """Exhaustive enumeration of the engine's registry. Returns completeness."""
    from pandera.engines import engine as eng
    ad, run = cx.ad, cx.run
    reg = eng.Engine._registry[ad.E]
    complete = True

    # 1. equivalents table: every key
    items = list(reg.equivalents.items())
    cx.c("registry_equivalents_keys", len(items))
    for k, v in items:
        kd = A.desc(k)
        kk = "str" if isinstance(k, str) else "class" if isinstance(k, type) \
            else "callable" if callable(k) and hasattr(k, "__name__") \
            else "instance"
        t = resolve(cx, k, f"equivalents:{kk}")
        judged = not isinstance(t, Exception)
        run.case(["key", ad.name, kd], judged,
                 sample=cx.sample("key", lambda: observed(cx, k, t))
                 if judged else None)
        if not judged:
            viol(cx, "registry-key-does-not-resolve",
                 {"spelling": kd, "exc": exc_s(t), "bad": [kd]})
            continue
        cx.snapshot[kd] = (k, t)
        type_clauses(cx, t, f"equivalents:{kd}")

    # 2. registered classes
    classes = sorted(ad.E._registered_dtypes, key=lambda c: (c.__module__, c.__qualname__))
    cx.c("registry_classes", len(classes))
    ok, cp = safe(ad.class_params)
    if not ok:
        complete, cp = False, {}
        run.note_inconclusive(f"{ad.name}: adapter class_params raised {exc_s(cp)}")
    for C in classes:
        cd = A.desc(C)
        ok, t = safe(ad.E.dtype, C)
        if ok:
            cx.c("resolve:registered-class")
            run.case(["class", ad.name, cd], True)
            cx.snapshot[cd] = (C, t)
            type_clauses(cx, t, f"class:{cd}")
            if type(t) is not C:
                viol(cx, "class-resolves-to-other-class",
                     {"spelling": cd, "resolved": A.tdesc(t)})
        elif isinstance(t, TypeError) and not safe(C)[0]:
            # the class itself cannot be built without arguments: not a spelling
            cx.c("class-needs-parameters")
            insts = cp.get(C)
            if not insts:
                complete = False
                cx.c(f"not_enumerated:class:{C.__name__}")
                run.note_inconclusive(
                    f"{ad.name}: registered class {cd} needs parameters and the "
                    "adapter has no sample for it")
                continue
            for x in insts:
                run.case(["class-inst", ad.name, A.desc(x)], True)
                t2 = resolve(cx, x, "registered-class-instance")
                if isinstance(t2, Exception):
                    viol(cx, "instance-does-not-resolve",
                         {"spelling": A.desc(x), "exc": exc_s(t2)})
                else:
                    type_clauses(cx, t2, f"class-inst:{cd}")
        else:
            run.case(["class", ad.name, cd], False)
            viol(cx, "registered-class-does-not-resolve",
                 {"spelling": cd, "exc": exc_s(t)})

    # 3. dispatch table: every registered native class, sampled instances
    natives = [c for c in reg.dispatch.registry if c is not object]
    cx.c("registry_dispatch_classes", len(natives))
    ok, ds = safe(ad.dispatch_samples)
    if not ok:
        run.note_inconclusive(f"{ad.name}: adapter dispatch_samples raised {exc_s(ds)}")
        ds = {}
    for D in natives:
        insts = ds.get(D)
        if not insts:
            complete = False
            cx.c(f"not_enumerated:dispatch:{D.__name__}")
            run.note_inconclusive(
                f"{ad.name}: dispatch class {A.desc(D)} has no sample in the adapter")
            continue
        for x in insts:
            xd = A.desc(x)
            t = resolve(cx, x, "dispatch-native")
            judged = not isinstance(t, Exception)
            run.case(["dispatch", ad.name, xd], judged)
            if not judged:
                viol(cx, "dispatch-native-does-not-resolve",
                     {"spelling": xd, "exc": exc_s(t), "bad": [xd]})
                continue
            cx.snapshot[xd] = (A.unwrap(x)[1], t)
            type_clauses(cx, t, f"dispatch:{xd}")
            boxes_clause(cx, x, t)
    return complete


def families_phase(cx):
    ok, fams = safe(cx.ad.families)
    if not ok:
        cx.run.note_inconclusive(
            f"{cx.ad.name}: adapter families raised {exc_s(fams)}")
        return
    for label, spellings in fams:
        good = family_clause(cx, label, spellings)
        cx.run.case(["family", cx.ad.name, label,
                     [A.desc(k) for k in spellings]], True,
                    sample=cx.sample("family", lambda: family_sample(
                        cx, label, spellings, good)))
        for k, t in good:
            cx.snapshot.setdefault(A.desc(k), (k, t))


def alias_phase(cx):
    ok, probes = safe(cx.ad.alias_probes)
    if not ok:
        cx.run.note_inconclusive(
            f"{cx.ad.name}: adapter alias_probes raised {exc_s(probes)}")
        return
    for a, want in probes:
        t = resolve(cx, a, "numpy-alias")
        judged = not isinstance(t, Exception)
        cx.run.case(["alias", cx.ad.name, a], judged)
        cx.c("alias")
        if not judged:
            viol(cx, "numpy-alias-does-not-resolve",
                 {"spelling": A.desc(a), "exc": exc_s(t)})
            continue
        got = cx.ad.native_class(t)
        if got != want:
            viol(cx, "alias-class-changed",
                 {"spelling": A.desc(a), "resolved": A.tdesc(t),
                  "expected_class": want, "got_class": got})
        type_clauses(cx, t, f"alias:{a}")


def native_clause(cx, k, ref, how, origin):
    """One native spelling that need not be a registry key (it may reach the
    engine's fallback path): a numpy type code / dtype instance / array dtype
    / scalar class [numpy, pandas] or a polars data type class / instance
    [polars].  ``ref`` is what the native library itself reads it as.  Judged
    where the adapter says the engine promises it: resolves; keeps (kind,
    signedness, width); a str / bytes / object dtype stays one (any item
    size, any byte order); boxes the native type.  Returns the resolved type
    or None."""
    ad = cx.ad
    g = ad.native_group(ref)
    pol = ad.native_policy(k, ref)
    judged = pol.get("judged", False)
    cx.c("native")
    cx.c(f"native:{g}")
    cx.c(f"native-how:{how}")
    if isinstance(ref, np.dtype) and (
            ref.byteorder == ">" or (isinstance(k, str) and k[:1] == ">")):
        cx.c("native:non-native-byte-order")
    if judged:
        cx.c("native-judged")
        cx.c(f"native-judged:{g}")
    t = resolve(cx, k, "native")
    w = {"spelling": A.desc(k), "native_library_reads_it_as": A.desc(ref),
         "form": how, "input_class": g, "origin": origin}
    if isinstance(t, Exception):
        if judged:
            viol(cx, "native-spelling-does-not-resolve", dict(w, exc=exc_s(t)))
        else:
            cx.c(f"undecided:native-spelling-rejected:{g}")
        return None
    if not judged:
        cx.c(f"undecided:native-spelling-resolved-without-promise:{g}")
    else:
        if pol.get("cls", None) != "skip":
            got = ad.native_class(t)
            cx.c("native-class")
            if got != pol.get("cls"):
                viol(cx, "native-class-changed",
                     dict(w, resolved=A.tdesc(t), expected_class=pol.get("cls"),
                          got_class=got))
        want_kind = pol.get("kind")
        if want_kind is not None:
            cx.c("native-kind")
            tt = getattr(t, "type", None)
            if not (isinstance(tt, np.dtype) and tt.kind == want_kind):
                viol(cx, "native-kind-changed",
                     dict(w, resolved=A.tdesc(t), expected_kind=want_kind,
                          boxed=A.desc(tt) if tt is not None else None))
            if ref.itemsize and want_kind in "US":
                # equal to the resolution of the unsized spelling?  Promised
                # nowhere (the item size may legitimately be kept): counted
                ok, un = safe(ad.E.dtype, np.dtype(want_kind))
                if ok and _eqh(un, t):
                    cx.c("native-sized-equals-unsized")
                else:
                    cx.c("undecided:sized-flexible-unequal-to-unsized")
        if pol.get("box") is not None:
            cx.c("native-box")
            got = getattr(t, "type", None)
            if not A.same_native(got, pol["box"]):
                viol(cx, "native-spelling-not-boxed",
                     dict(w, resolved=A.tdesc(t),
                          boxed=A.desc(got) if got is not None else None))
    type_clauses(cx, t, origin)
    return t


def native_phase(cx):
    ok, cat = safe(cx.ad.native_spellings)
    if not ok:
        cx.run.note_inconclusive(
            f"{cx.ad.name}: adapter native_spellings raised {exc_s(cat)}")
        return
    for k, ref, how in cat:
        kd = A.desc(k)
        t = native_clause(cx, k, ref, how, f"native:{kd}")
        show = t is not None and (
            (isinstance(ref, np.dtype) and ref.itemsize and ref.kind in "US")
            or (not isinstance(ref, np.dtype) and how == "instance"))
        cx.run.case(["native", cx.ad.name, kd, how], t is not None,
                    sample=cx.sample("native", lambda: dict(
                        observed(cx, k, t),
                        native_library_reads_it_as=A.desc(ref), form=how))
                    if show else None)
        if t is not None:
            cx.snapshot.setdefault("native:" + kd, (k, t))


def pairs_phase(cx):
    phys = sorted(cx.physical.items())
    cx.c("physical_types", len(phys))
    for d1, (t1, c1) in phys:
        for d2, (t2, c2) in phys:
            ok, r = safe(t1.check, t2)
            cx.c("pairs")
            cx.run.case(["pair", cx.ad.name, d1, d2], True,
                        sample=cx.sample("pair", lambda: {
                            "engine": cx.ad.name, "ordered_pairs_of": d1,
                            "kind_sign_width": c1,
                            "recognises": sorted(
                                d for d, (t, _) in phys
                                if safe(t1.check, t)[0] and truthy(safe(t1.check, t)[1])),
                            "out_of": len(phys)}) if c1[0] == "int" else None)
            if not ok:
                if getattr(t1, "time_zone_agnostic", False):
                    # what such a type recognises depends on the data, which
                    # a type-to-type check does not have: not judged
                    cx.c("undecided:pair-check-raises:time-zone-agnostic-"
                         "datetime-without-data")
                elif d1 != d2:
                    viol(cx, "pair-check-raises",
                         {"t1": d1, "t2": d2, "exc": exc_s(r)})
                continue
            if truthy(r):
                cx.c("pairs_recognised")
                if c1 != c2:
                    viol(cx, "check-recognises-other-kind-sign-or-width",
                         {"t1": d1, "class1": c1, "t2": d2, "class2": c2})
            elif c1 != c2:
                cx.c("pairs_rejected_other_class")


def stable_phase(cx):
    """Every spelling recorded earlier is resolved again after everything
    else, registry spellings in sorted order and the sampled
    parameterisations in the reverse of the order they were first met: a
    resolution must not depend on what was resolved before it (caches keyed
    on a native dtype, lazy re-registration)."""
    todo = [("stable", kd, k, t0) for kd, (k, t0) in sorted(cx.snapshot.items())]
    todo += [("param-stable", kd, k, t0)
             for kd, (k, t0) in reversed(list(cx.param_snapshot.items()))]
    for counter, kd, k, t0 in todo:
        ok, t1 = safe(cx.ad.E.dtype, k)
        cx.c(counter)
        w = {"spelling": kd, "before": type(t0).__module__ + "." + A.tdesc(t0)}
        if not ok:
            viol(cx, "resolution-changed-during-run",
                 dict(w, after="EXC " + exc_s(t1)))
            continue
        e = _eqh(t0, t1)
        if not e:
            viol(cx, "resolution-changed-during-run",
                 dict(w, after=type(t1).__module__ + "." + A.tdesc(t1),
                      comparison="raises" if e is None else "unequal"))


def params_phase(cx, ctx, idxs):
    for i in idxs:
        rng = ctx.rng(PID, cx.ad.name, i)
        ok, fam = safe(cx.ad.param_family, rng)
        if not ok:
            # the generator only calls the native libraries (pandera calls are
            # A.Make thunks): not an observation of pandera, no verdict
            cx.c("generator_raised")
            cx.run.note_inconclusive(
                f"{cx.ad.name}: parameter generator raised {exc_s(fam)} (case {i})")
            continue
        if fam is None:
            return
        cx.c("param_cases")
        cx.c("param:" + fam["label"].split("[")[0])
        for cl in fam.get("classes", ()):
            cx.c(cl if cl.startswith("undecided:") else "paramclass:" + cl)
        if not fam["spellings"]:
            cx.run.case(["param", cx.ad.name, fam["label"], []], False)
            continue
        if fam.get("native"):
            k = fam["spellings"][0]
            t = native_clause(cx, k, fam["nd"], fam["how"],
                              f"param-native:{A.desc(k)}")
            cx.run.case(["param-native", cx.ad.name, A.desc(k), fam["how"]],
                        t is not None)
            if t is not None and len(cx.param_snapshot) < PARAM_SNAPSHOT:
                cx.param_snapshot.setdefault("native:" + A.desc(k), (k, t))
            continue
        if fam.get("class_only"):
            cx.run.case(["param", cx.ad.name, fam["label"],
                         [A.desc(k) for k in fam["spellings"]]], True)
            for k in fam["spellings"]:
                t = resolve(cx, k, "param")
                cx.c("param-class")
                if isinstance(t, Exception):
                    viol(cx, "param-does-not-resolve",
                         {"spelling": A.desc(k), "exc": exc_s(t)})
                elif cx.ad.native_class(t) != fam["expect_class"]:
                    viol(cx, "param-class-changed",
                         {"spelling": A.desc(k), "resolved": A.tdesc(t),
                          "expected_class": fam["expect_class"],
                          "got_class": cx.ad.native_class(t)})
            continue
        good = family_clause(cx, fam["label"], fam["spellings"],
                             fam.get("expect_class"), group="param-family")
        if len(cx.param_snapshot) < PARAM_SNAPSHOT:
            for k, t in good:
                cx.param_snapshot.setdefault(A.desc(k), (k, t))
        for k in fam.get("also", ()):
            # an engine type built with a parameter in another form (a name
            # instead of the object pandas makes of it): must resolve and obey
            # the per-type clauses; equality with the family is not promised
            t = resolve(cx, k, "param-also")
            if isinstance(t, Exception):
                viol(cx, "param-does-not-resolve",
                     {"spelling": A.desc(k), "exc": exc_s(t),
                      "family": fam["label"]})
                continue
            type_clauses(cx, t, f"param-also:{fam['label']}")
            if good and not _eqh(good[0][1], t):
                cx.c("undecided:built-with-unnormalised-parameter-unequal-to-"
                     "native-resolution")
            else:
                cx.c("also-equal-to-family")
        cx.run.case(["param", cx.ad.name, fam["label"],
                     [A.desc(k) for k in fam["spellings"]]], True,
                    sample=cx.sample("param", lambda: dict(
                        family_sample(cx, fam["label"], fam["spellings"], good),
                        first=observed(cx, *good[0]) if good else None)))


# ---------------------------------------------------------------------------
def run(run, ctx):
    pa_at_start = "pandera.engines.pyarrow_engine" in sys.modules
    ads = A.adapters()
    exhaustive = True
    n_param = N_PARAM[ctx.tier]
    for ad in ads:
        if isinstance(ad, Exception):
            run.note_inconclusive(f"pyspark dtype engine not importable: {ad!r}")
            exhaustive = False
            continue
        cx = Ctx9(run, ad)
        cx.pa_at_start = pa_at_start
        if ctx.shard == 0:
            complete = registry_phase(cx)
            exhaustive = exhaustive and complete
            if complete:
                cx.c("registry_fully_enumerated")
            families_phase(cx)
            alias_phase(cx)
            native_phase(cx)
        per = n_param // len(ads)
        params_phase(cx, ctx, ctx.cases(per))
        if ctx.shard == 0:
            pairs_phase(cx)
            stable_phase(cx)
    if ctx.shard == 0:
        run.extra["exhaustive"] = bool(exhaustive)
        run.extra["exhaustive_over"] = (
            "every key of Engine._registry[E].equivalents, every class of "
            "E._registered_dtypes, every class of the dispatch table (sample "
            "instances), all ordered pairs of the physical types met; "
            "parameterisations are sampled")
    if ctx.nshards == 1:
        _floors(run, ctx)


def _floors(run, ctx):
    """Floors at about a quarter of what is observed on the repaired tree
    (quick, seed 0): keys / selfcheck / pairs / family / stable / roundtrip."""
    table = {
        #          keys selfcheck pairs family stable roundtrip alias
        "numpy":   (20,  6,        100,  5,     35,    5,        15),
        "pandas":  (50,  35,       1000, 15,    100,   18,       15),
        "polars":  (23,  25,       200,  6,     36,    None,     None),
        "pyspark": (19,  20,       20,   3,     23,    3,        None),
    }
    for eng, (keys, selfc, pairs, fam, stable, rt, alias) in table.items():
        run.floors[f"{eng}:registry_fully_enumerated"] = 1
        run.floors[f"{eng}:registry_equivalents_keys"] = keys
        run.floors[f"{eng}:selfcheck"] = selfc
        run.floors[f"{eng}:idem"] = selfc
        run.floors[f"{eng}:hash"] = selfc
        run.floors[f"{eng}:pairs"] = pairs
        run.floors[f"{eng}:family"] = fam
        run.floors[f"{eng}:stable"] = stable
        run.floors[f"{eng}:param_cases"] = (N_PARAM[ctx.tier] // 4) // 4
        if rt is not None:
            run.floors[f"{eng}:roundtrip"] = rt
        if alias is not None:
            run.floors[f"{eng}:alias"] = alias
    # input classes of the sampled parameterisations (quick tier, seeds 0 and
    # 3, about a quarter of the smaller observation)
    classes = {
        "numpy": {
            # native spellings outside the registry (catalog + sampled)
            "native": 750, "native-judged": 570, "native-class": 570,
            "native-kind": 250,
            "native-judged:flex-sized:U": 120, "native-judged:flex-sized:S": 110,
            "native-judged:flex-unsized:U": 3, "native-judged:flex-unsized:S": 3,
            "native-judged:numeric": 160, "native-judged:temporal": 160,
            "native-judged:object": 2,
            "native-how:code": 330, "native-how:instance": 300,
            "native-how:array-dtype": 80, "native-how:scalar-class": 6,
            "native:non-native-byte-order": 95,
            "native:structured": 100, "native:flex-sized:V": 60,
        },
        "pandas": {
            "native": 220, "native-judged": 130, "native-class": 125,
            "native-judged:numeric": 45, "native-judged:temporal": 75,
            "native-box": 3, "native-how:extension-class": 3,
            "native-how:extension-instance": 3,
            "boxes": 1300, "construct": 1500, "param-stable": 150,
            "resolve:param-also": 90,
            "paramclass:decimal:scale==precision": 20,
            "paramclass:decimal:scale==0": 20,
            "paramclass:decimal:precision==1": 5,
            "paramclass:decimal:precision==max": 5,
            "paramclass:abstract-parameterised-instance": 75,
            "paramclass:tzclass:name": 15,
            "paramclass:tzclass:pytz-zone": 15,
            "paramclass:tzclass:pytz-from-timestamp": 15,
            "paramclass:tzclass:pytz-from-localize": 12,
            "paramclass:tzclass:pytz-from-aware-datetime": 15,
            "paramclass:tzclass:pytz-utc": 10,
            "paramclass:tzclass:pytz-fixed": 10,
            "paramclass:tzclass:zoneinfo": 20,
            "paramclass:tzclass:dateutil-zone": 10,
            "paramclass:tzclass:fixed-datetime": 15,
            "paramclass:tzclass:int-seconds": 10,
            "paramclass:tzclass:offset-string": 15,
            "paramclass:tz-two-objects-one-zone": 60,
            "paramclass:tz-printed-name-in-family": 55,
            "paramclass:cat:permuted": 25, "paramclass:cat:reversed": 10,
            "paramclass:cat:none": 10, "paramclass:cat:empty": 5,
            "paramclass:cat:ordered=True": 30,
        },
        "polars": {
            "native": 25, "native-judged": 17, "native-box": 17,
            "native-how:class": 8, "native-how:instance": 6,
            "native-how:series-dtype": 6,
            "boxes": 850, "construct": 1400, "param-stable": 150,
            "paramclass:decimal:scale==precision": 15,
            "paramclass:decimal:scale==0": 15,
            "paramclass:decimal:precision==1": 5,
            "paramclass:abstract-parameterised-instance": 170,
            "paramclass:array:unequal-dimensions": 28,
            "paramclass:array:width==0": 6,
            "paramclass:enum:empty": 5, "paramclass:cat:permuted": 25,
        },
        "pyspark": {
            "boxes": 1000, "construct": 1000, "param-stable": 150,
            "paramclass:decimal:scale==precision": 90,
            "paramclass:decimal:scale==0": 90,
            "paramclass:decimal:precision==1": 25,
            "paramclass:decimal:precision==max": 25,
        },
    }
    for eng, d in classes.items():
        for name, n in d.items():
            run.floors[f"{eng}:{name}"] = n


def finalize(run, ctx):
    _floors(run, ctx)
