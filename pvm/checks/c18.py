"""C18 — configuration is scoped and honoured; validation depth only removes
checks (pandas + polars).

Four work lists, all indexed so that they shard:
  A  scoping, exhaustive: every nesting of depth <= 2 over the 108 keyword
     settings of ``config_context`` x 5 exception shapes (58 536 programs)
  B  scoping, sampled: random programs of depth 3-4 with sibling contexts,
     ``Exception`` / ``BaseException`` exits, ``reset_config_context`` and real
     validate calls as leaf ops
  C  environment: fresh interpreters over the PANDERA_* matrix
     (quick: covering sample of 16, thorough: all 108)
  D  depth: generated (schema, data) without nulls, relations R1-R5 of
     pvm/c18_depth.py on pandas, polars DataFrame and polars LazyFrame
"""
from __future__ import annotations

from .. import c18_depth as D, c18_env as E, c18_scope as SC, model as M, snap as S
from ..evidence import Run, canon_hash
from ..gen import build as B

PID = "C18"
SHARDS = {"quick": 8, "thorough": 16}
SHARD_TIMEOUT = {"quick": 600, "thorough": 1700}
N_SAMPLED = {"quick": 400, "thorough": 12000}
N_DEPTH = {"quick": 1200, "thorough": 24000}
N_ENV = {"quick": 16, "thorough": 108}


def new_run():
    return Run(
        PID, "exploration",
        "A: one case per program = (outer setting, inner setting, exception "
        "shape), all 108 keyword settings per level, exhaustive for nesting "
        "<= 2; B: seeded random programs of depth 3-4; C: one case per "
        "environment setting run in a fresh interpreter; D: one case per "
        "(schema spec, null-free table, lazy flag, backend). non-trivial = A/B: "
        "at least one option is overridden somewhere in the program; C: at "
        "least one variable set; D: the schema has at least one schema-level "
        "and one data-level constraint. distinct = canonical hash of the case",
        ["schema-level = column names / presence / order / strictness / "
         "dtypes, data-level = Checks and uniqueness: read from "
         "docs/source/configuration.md, error_report.md, polars.md",
         "tables contain no nulls (the level of nullability is documented "
         "inconsistently); no coercion/defaults in the depth relations",
         "documented env spellings only: 'True' / 'False' / ValidationDepth "
         "member names",
         "single-threaded (interleavings are C07)"])


# ================================================================ A + B
def _has_override(prog):
    def f(item):
        if isinstance(item, str):
            return False
        return any(v is not None for v in item["kw"].values()) or \
            any(f(b) for b in item["body"])
    return any(f(i) for i in prog)


_sampled = set()


def _sample(ctx_shard, part, shard, payload):
    """At most one sample per part, each from a designated shard, so that the
    merged evidence shows every part."""
    if ctx_shard % 8 != shard or part in _sampled:
        return None
    _sampled.add(part)
    return payload


def _scope_program(run, mon, probes, key, prog, tag, shard=0):
    probes.violations.clear()
    m = SC.run_program(prog, mon, leaf=probes)
    smp = None
    if tag == "A2" and key[2] == 61 and key[3] == "inner_caught_then_outer":
        smp = _sample(shard, "A2", 0, {"part": "A (exhaustive nesting)",
                                       "id": key, "program": prog})
    elif tag == "B":
        smp = _sample(shard, "B", 1, {"part": "B (sampled depth 3-4)",
                                      "program": prog})
    run.case(["scope", key], _has_override(prog), sample=smp)
    run.count(f"scope:program:{tag}")
    if m is None:
        run.count("scope:program_restored")
    else:
        run.violation("config-context-not-restored",
                      {"program": prog, "mismatch": m, "id": key}, None)
    for v in probes.violations:
        mech = None
        if (v["kind"].endswith("expected-accept") and v["op"] == "pd_check"
                and v["config_in_force"]["validation_depth"] == "SCHEMA_ONLY"
                and v["config_reported_by_pandera"] == v["config_in_force"]
                and v["reason"] in ("DATAFRAME_CHECK", "CHECK_ERROR")):
            mech = "pandas-ColumnBackend.run_checks-ignores-validation-depth"
        run.violation(v["kind"], dict(v, program=prog), mech)
    if m is not None or probes.violations:
        import pandera.config as c
        c.reset_config_context()


def part_scope(run, ctx):
    mon = SC.Monitor(run)
    probes = SC.Probes(run)
    outers = list(ctx.cases(len(SC.SETTINGS)))
    for key, prog in SC.depth1_programs(outers):
        _scope_program(run, mon, probes, key, prog, "A1", ctx.shard)
    for key, prog in SC.depth2_programs(outers):
        _scope_program(run, mon, probes, key, prog, "A2", ctx.shard)
        run.count(f"scope:shape:{key[3]}")
    for i in ctx.cases(N_SAMPLED[ctx.tier]):
        rng = ctx.rng(PID, "B", i)
        depth = 3 if rng.random() < 0.5 else 4
        prog = SC.random_program(rng, depth)
        _scope_program(run, mon, probes, ("B", i, depth, ""), prog, "B",
                       ctx.shard)
        run.count(f"scope:sampled_depth:{SC.prog_depth(prog)}")


# ================================================================ C
def part_env(run, ctx):
    n = N_ENV[ctx.tier]
    if n >= len(E.MATRIX):
        todo = list(range(len(E.MATRIX)))
    else:
        todo = E.quick_sample(ctx.rng(PID, "env-sample"), n)
    mine = [todo[k] for k in ctx.cases(len(todo))]
    for idx, (obs, err) in E.run_matrix(mine, workers=2):
        setting = E.MATRIX[idx]
        if err:
            run.note_inconclusive(f"env child {idx}: {err}")
            continue
        if obs.get("import_error"):
            run.violation("import-fails-under-documented-env",
                          {"env": setting, "error": obs["import_error"]}, None)
            continue
        if not obs["pandera_path"].startswith(E.env.REPO):
            run.note_inconclusive("env child imported another pandera")
            continue
        nset = sum(v is not None for v in setting.values())
        run.case(["env", idx], nset > 0,
                 sample=_sample(ctx.shard, "C", 2, {
                     "part": "C (fresh interpreter)", "env": setting,
                     "CONFIG": obs["CONFIG"],
                     "probes": [[p["name"], p["outcome"]]
                                for p in obs["probes"][:8]]})
                 if nset >= 2 else None)
        run.count("env:interpreter")
        for k, v in setting.items():
            run.count(f"env:{k}={v}")
        viols, counts = E.judge(setting, obs)
        for cn in counts:
            run.count(cn)
        if not viols:
            run.count("env:setting_honoured")
        for kind, wit, mech in viols:
            run.violation(kind, wit, mech)


# ================================================================ D
def _objs(backend, spec, table):
    if backend == "pandas":
        return {"pandas": B.pandas_table(spec, table)}
    return {"polars.DataFrame": B.polars_table(table),
            "polars.LazyFrame": B.polars_table(table, lazy=True)}


def _build(backend, spec, **kw):
    return (D.pandas_schema if backend == "pandas" else D.polars_schema)(spec, **kw)


def _relations(run, backend, kind, spec, table, muts, lazy, schemas, obj,
               vkw=None):
    import pandera.config as c
    # a fresh schema object for every validate call: a failing validate may
    # leave a schema component modified (that is C05/C06's finding, D2) and
    # must not leak into the next verdict of this case
    S_full, S_schema, S_data = schemas
    before = S.snap(obj)
    got = {d: D.verdict(S_full(), obj, d, lazy, vkw)[0] for d in D.DEPTHS}
    vs = D.verdict(S_schema(), obj, "SCHEMA_AND_DATA", lazy, vkw)[0]
    vd = D.verdict(S_data(), obj, "SCHEMA_AND_DATA", lazy, vkw)[0]
    default = D.verdict(S_full(), obj, None, lazy, vkw)[0]
    if c.get_config_context(validation_depth_default=None) != \
            c.get_config_global():
        run.violation("config-not-restored-after-validate",
                      {"backend": kind, "spec": spec, "table": table}, None)
        c.reset_config_context()
    if S.diff(before, S.snap(obj)):
        run.count("undecided:argument-mutated-by-validate(C04)")
        return
    wit = {"backend": kind, "spec": spec, "table": table, "mutations": muts,
           "lazy": lazy, "verdicts": got, "schema_part": vs, "data_part": vd,
           "default": default, "validate_kwargs": vkw}
    if "exc" in (vs, vd) or "exc" in got.values() or default == "exc":
        # an internal exception is C06's business; no depth verdict to compare
        run.count(f"undecided:internal-exception:{kind}")
        return
    run.count(f"depth:{kind}:class:schema_{vs}/data_{vd}")
    if kind == "pandas":
        # cross-check (evidence only, never a verdict of this property): the
        # reference model's reading of schema_part(S) against full validation
        try:
            mv = M.evaluate(D.schema_part(spec), table).accept
        except Exception:  # noqa: BLE001
            mv = None
        if mv is None:
            run.count("depth:model:undecided")
        elif mv == (vs == "accept"):
            run.count("depth:model:agrees-with-schema_part-verdict")
        else:
            run.count("undecided:model-disagrees-with-full-validation(C01)")

    def rel(name, holds, depth_for_errors, mech_backend):
        run.count(f"depth:{name}:evaluated")
        run.count(f"depth:{name}:{kind}:evaluated")
        if holds:
            return
        errs = D.all_errors(S_full(), obj, depth_for_errors) \
            if depth_for_errors else []
        for mech in D.classify(mech_backend, name, errs):
            run.violation(f"depth-{name}-violated",
                          dict(wit, relation=name, errors_raised=errs), mech)
        c.reset_config_context()

    bk = "pandas" if kind == "pandas" else "polars"
    if vkw:
        # nulls + subsampling: the level of nullability is not documented
        # consistently -> only R3/R4 are judged
        run.count("undecided:R1-R2-nullability-level-under-depth")
        run.count(f"depth:subsample-family:{kind}")
        for k in vkw:
            run.count(f"depth:subsample-family:option:{k}")
        run.count("depth:subsample-family:full_" + got["SCHEMA_AND_DATA"])
    elif spec.get("strict") == "filter":
        # the level of a parser is not documented: only R3/R4 are judged
        run.count("undecided:R1-R2-parser-level-under-depth")
        run.count(f"depth:filter-family:{kind}")
    else:
        rel("R1", got["SCHEMA_ONLY"] == vs, "SCHEMA_ONLY", bk)
        rel("R2", got["DATA_ONLY"] == vd, "DATA_ONLY", bk)
    rel("R3", (got["SCHEMA_AND_DATA"] == "accept") ==
        (got["SCHEMA_ONLY"] == "accept" and got["DATA_ONLY"] == "accept"),
        None, bk)
    if kind == "polars.LazyFrame":
        if vkw:
            # compares with schema_part(S) at full depth, which depends on the
            # level of nullability: the default must equal explicit SCHEMA_ONLY
            rel("R4-lazyframe-default-equals-explicit-schema-only",
                default == got["SCHEMA_ONLY"], None, bk)
        else:
            rel("R4-lazyframe-default-schema-only", default == vs, None, bk)
    else:
        # pandas and polars DataFrame: the default is full depth
        rel("R4-dataframe-default-full", default == got["SCHEMA_AND_DATA"],
            None, bk)


def _disabled(run, backend, kind, spec, table, obj, rng):
    """R5: validation disabled -> validate returns the very argument."""
    import pandera.config as c
    import pandera.errors as pe
    force = rng.random() < 0.5
    targets = [("schema", _build(backend, spec, force_coerce=force))]
    if backend == "pandas" and spec["kind"] == "frame":
        schema = targets[0][1]
        names = [n for n, col in schema.columns.items()
                 if not col.regex and n in obj.columns]
        if names:
            targets.append(("Column.validate", schema.columns[rng.choice(names)]))
        if schema.index is not None:
            targets.append((type(schema.index).__name__ + ".validate",
                            schema.index))
    for what, sch in targets:
        before = S.snap(obj)
        res, exc = None, None
        with c.config_context(validation_enabled=False):
            try:
                res = sch.validate(obj)
            except (pe.SchemaError, pe.SchemaErrors) as e:
                exc = e
            except Exception as e:  # noqa: BLE001
                exc = e
        run.count("depth:R5:evaluated")
        run.count(f"depth:R5:{kind}:{what}")
        problem = None
        if exc is not None:
            problem = "raised:" + type(exc).__name__
        elif res is not obj:
            problem = "returned-another-object"
        elif S.diff(before, S.snap(obj)):
            problem = "argument-modified"
        if problem:
            mech = None
            if backend == "pandas" and what in ("Column.validate",
                                                "Index.validate"):
                mech = "pandas-component-validate-ignores-validation_enabled"
            run.violation("validation-disabled-but-argument-not-returned",
                          {"backend": kind, "entry": what, "problem": problem,
                           "coerce": force, "spec": spec, "table": table}, mech)
            c.reset_config_context()


def depth_case(run, rng, i, shard=0):
    neutral = rng.random() < 0.5
    spec, table, muts = D.gen_case(rng, neutral)
    lazy = rng.random() < 0.5
    vkw = None
    if spec["kind"] == "frame" and spec.get("strict") != "filter" \
            and rng.random() < 0.15:
        vkw = D.add_subsample_family(rng, spec, table)
        if vkw:
            muts = list(muts) + [("subsample_family", sorted(vkw))]
    nontrivial = D.n_schema_constraints(spec) > 0 and \
        D.n_data_constraints(spec) > 0
    parts = (spec, D.schema_part(spec), D.data_part(spec))
    for backend in ["pandas"] + (["polars"] if neutral else []):
        try:
            for p in parts:
                _build(backend, p)
            schemas = tuple((lambda p=p: _build(backend, p)) for p in parts)
            objs = _objs(backend, spec, table)
        except Exception as e:  # noqa: BLE001
            run.count(f"build_error:{backend}:{type(e).__name__}")
            continue
        for kind, obj in objs.items():
            run.case(canon_hash([kind, spec, table, lazy]), nontrivial,
                     sample=_sample(shard, "D:" + kind,
                                    3 if backend == "pandas" else 4,
                                    {"part": "D (depth)", "backend": kind,
                                     "spec": spec, "table": table,
                                     "mutations": muts, "lazy": lazy})
                     if nontrivial and muts else None)
            run.count(f"depth:case:{kind}")
            run.count(f"depth:spec_kind:{spec['kind']}")
            _relations(run, backend, kind, spec, table, muts, lazy, schemas, obj,
                       vkw)
            if not vkw:
                _disabled(run, backend, kind, spec, table, obj, rng)
    for m in muts:
        run.count(f"depth:mutation:{m[0]}")


def part_depth(run, ctx):
    for i in ctx.cases(N_DEPTH[ctx.tier]):
        depth_case(run, ctx.rng(PID, "D", i), i, ctx.shard)


# ================================================================ driver
def run(run, ctx):
    import pandera.config as c
    import os
    if c.CONFIG != c.PanderaConfig():
        harness_env = sorted(k for k in os.environ if k.startswith("PANDERA_"))
        if harness_env:
            # the harness itself was started with PANDERA_* set: expectations
            # of parts A/B/D assume the documented defaults
            run.note_inconclusive(
                f"harness started with PANDERA_* variables set: {harness_env}")
            return
        # no variable is set and the global configuration is still not the
        # documented default: the environment is not read as documented.
        # Part C (fresh interpreters over the env matrix) gives the witnesses.
        if ctx.shard == 0:
            run.case(["no-env-defaults"], True)
            run.violation("defaults-not-in-force-without-env-vars",
                          {"CONFIG": repr(c.CONFIG),
                           "documented_default": repr(c.PanderaConfig())}, None)
        part_env(run, ctx)
        return
    part_scope(run, ctx)
    c.reset_config_context()
    part_depth(run, ctx)
    c.reset_config_context()
    part_env(run, ctx)
    run.extra["exhaustive_nesting_depth_le_2"] = True
    run.extra["settings_per_level"] = len(SC.SETTINGS)


def finalize(run, ctx):
    q = ctx.tier == "quick"
    floors = {
        "scope:program:A1": 216, "scope:program:A2": 58320,
        "scope:program:B": 100 if q else 3000,
        "scope:observation": 250000,     # A alone makes 292 k observations
        "scope:probe_evaluated": 350 if q else 10000,
        "scope:probe_under_validation_disabled": 120 if q else 3500,
        "env:interpreter": 12 if q else 100,
        "env:config_compared": 24 if q else 200,
        "env:PANDERA_VALIDATION_ENABLED=False": 1,
        "env:PANDERA_VALIDATION_ENABLED=True": 1,
        "depth:R1:evaluated": 600 if q else 20000,
        "depth:R2:evaluated": 600 if q else 20000,
        "depth:R3:evaluated": 600 if q else 20000,
        "depth:filter-family:pandas": 18 if q else 350,
        "depth:subsample-family:pandas": 12 if q else 250,
        "depth:subsample-family:polars.DataFrame": 6 if q else 120,
        "depth:subsample-family:full_accept": 12 if q else 250,
        "depth:subsample-family:full_reject": 10 if q else 200,
        "depth:filter-family:polars.DataFrame": 8 if q else 150,
        "env:ctx_probe:reject": 70 if q else 450,
        "env:ctx_probe:accept": 90 if q else 550,
        "env:ctx_probe:same": 130 if q else 850,
        "depth:R4-lazyframe-default-schema-only:evaluated": 140 if q else 4500,
        "depth:R4-dataframe-default-full:evaluated": 450 if q else 15000,
        "depth:R5:evaluated": 900 if q else 30000,
        "depth:R5:pandas:Column.validate": 250 if q else 8000,
        "depth:R5:pandas:Index.validate": 30 if q else 1000,
    }
    for kind in ("pandas", "polars.DataFrame", "polars.LazyFrame"):
        for cls in ("schema_accept/data_accept", "schema_accept/data_reject",
                    "schema_reject/data_accept", "schema_reject/data_reject"):
            floors[f"depth:{kind}:class:{cls}"] = 8 if q else 250
    for k, v in floors.items():
        run.floors[k] = v


# ================================================================ replay
def replay(path):
    """Re-execute the witness of a replay file against the current tree.
    Exit 1 when the violation reproduces, 0 when it does not."""
    import json
    import random
    import pandera.config as c
    with open(path) as f:
        d = json.load(f)
    w = d["witness"]
    r = new_run()
    if "program" in w and "mismatch" in w:
        mon, probes = SC.Monitor(r), SC.Probes(r)
        m = SC.run_program(w["program"], mon, leaf=probes)
        print("mismatch:", m, "probe violations:", probes.violations)
        bad = bool(m or probes.violations)
    elif "program" in w:
        mon, probes = SC.Monitor(r), SC.Probes(r)
        SC.run_program(w["program"], mon, leaf=probes)
        print("probe violations:", probes.violations)
        bad = bool(probes.violations or mon.mismatch)
    elif "env" in w and "spec" not in w:
        setting = {k: w["env"].get(k) for k in E.VARS}
        obs, err = E.run_child(setting)
        if err:
            print("child failed:", err)
            return 2
        viols, _ = E.judge(setting, obs)
        for v in viols:
            print(v[0], v[2], json.dumps(v[1])[:300])
        bad = bool(viols)
    else:
        spec, table = w["spec"], w["table"]
        kind = w["backend"]
        backend = "pandas" if kind == "pandas" else "polars"
        obj = _objs(backend, spec, table)[kind]
        if "entry" in w:
            rng = random.Random(0)
            for _ in range(6):       # both coerce variants / column choices
                _disabled(r, backend, kind, spec, table, obj, rng)
        else:
            parts = (spec, D.schema_part(spec), D.data_part(spec))
            schemas = tuple((lambda p=p: _build(backend, p)) for p in parts)
            _relations(r, backend, kind, spec, table, w.get("mutations"),
                       w.get("lazy", False), schemas, obj)
        for v in r.violations:
            print(v["kind"], v["mechanism"],
                  json.dumps({k: v["witness"].get(k) for k in
                              ("verdicts", "schema_part", "data_part",
                               "default", "errors_raised", "problem",
                               "entry")}))
        bad = bool(r.violations)
    c.reset_config_context()
    print("REPRODUCED" if bad else "NOT REPRODUCED")
    return 1 if bad else 0
