"""C08 — one schema definition means the same on pandas and on polars."""
from __future__ import annotations

from .. import harness as H, model as M
from ..evidence import Run, canon_hash
from ..gen import build as B, parse as P, spec as G
from . import common as C

PID = "C08"
SHARDS = {"quick": 4, "thorough": 16}
N = {"quick": 3000, "thorough": 105000}
ROW = {"SERIES_CONTAINS_NULLS", "SERIES_CONTAINS_DUPLICATES", "DATAFRAME_CHECK", "DUPLICATES"}


def new_run():
    return Run(PID, "exploration",
               "cases = backend-neutral (schema spec, table) pairs in the vocabulary both backends "
               "support (int/float/str/bool/datetime, nullable, unique, required, strict incl. "
               "'filter', ordered, joint unique, add_missing_columns, defaults, coercion, every "
               "built-in check with adversarial arguments); built for pandas and for polars and "
               "validated lazily by both real backends; verdicts, failing cells (column, row "
               "position) and parsed outputs are compared with each other and the verdict with the "
               "reference model; one case in six is a sequence of 2-4 tables (valid / mutated, any "
               "order) validated by ONE pandas and ONE polars schema object: the backends are "
               "compared at every step and each with a freshly built twin of the schema on the "
               "same input; non-trivial = a constraint is violated or a parsing option changes "
               "the table; distinct = canonical hash of (spec, table)",
               ["index schemas, report_duplicates != 'all', unique_column_names, groupby checks are "
                "excluded: the polars docs declare them unsupported",
                "checks on wrongly typed columns are not compared (only the dtype error is)"])


def cells_pd(out):
    rows, frame, dtype_cols, coerce_cols = set(), set(), set(), set()
    for e in out.errors:
        if e.reason == "WRONG_DATATYPE":
            dtype_cols.add(e.column)
        elif e.reason == "DATATYPE_COERCION":
            coerce_cols.add(e.column)
        elif e.cells is not None and e.reason in ROW:
            for label, val, col in e.cells:
                rows.add((e.column if e.reason != "DUPLICATES" else col, label,
                          "DUP" if "DUPLICATES" in e.reason else e.reason))
        else:
            frame.add((e.reason, e.scalar if e.reason in ("COLUMN_NOT_IN_DATAFRAME", "COLUMN_NOT_IN_SCHEMA") else None))
    return rows, frame, dtype_cols, coerce_cols


def cells_pl(out):
    import polars as pl
    rows, frame, dtype_cols, coerce_cols = set(), set(), set(), set()
    for e in out.errors:
        if e.reason == "WRONG_DATATYPE":
            dtype_cols.add(e.column)
        elif e.reason == "DATATYPE_COERCION":
            coerce_cols.add(e.column)
        elif e.reason in ROW:
            pass
        else:
            frame.add((e.reason, e.scalar if e.reason in ("COLUMN_NOT_IN_DATAFRAME", "COLUMN_NOT_IN_SCHEMA") else None))
    fc = out.failure_cases
    errs = out.exc.schema_errors if out.exc is not None and hasattr(out.exc, "schema_errors") else []
    # row positions come from each error's check_output
    from pandera.constants import CHECK_OUTPUT_KEY
    for err in errs:
        r = err.reason_code.name
        if r not in ROW or not isinstance(err.check_output, pl.DataFrame):
            continue
        bad = [i for i, ok in enumerate(err.check_output[CHECK_OUTPUT_KEY].to_list()) if ok is False]
        if r == "DUPLICATES":
            for col in err.failure_cases.columns:
                for i in bad:
                    rows.add((col, i, "DUP"))
        else:
            for i in bad:
                rows.add((err.schema.name, i, "DUP" if "DUPLICATES" in r else r))
    return rows, frame, dtype_cols, coerce_cols


def table_pd(df):
    out = []
    for i, c in enumerate(df.columns):
        s = df.iloc[:, i]
        k = str(s.dtype)
        logical = {"int64": "int64", "Int64": "int64", "float64": "float64", "bool": "bool",
                   "object": "str", "datetime64[ns]": "datetime", "string": "str", "str": "str"}.get(k, k)
        out.append((c, logical, [H.norm(x) for x in s.tolist()]))
    return out


def table_pl(df):
    out = []
    for c in df.columns:
        s = df[c]
        k = str(s.dtype)
        logical = {"Int64": "int64", "Float64": "float64", "Boolean": "bool", "String": "str",
                   "Datetime(time_unit='us', time_zone=None)": "datetime"}.get(k, k)
        out.append((c, logical, [H.norm(x) for x in s.to_list()]))
    return out


def classify(spec, table, kind, detail):
    if kind in ("dtype-or-coercion-errors-differ", "verdict-differs-between-backends"):
        cols = {c["name"]: c for c in table["columns"]}
        only_pd = set(detail.get("pandas_dtype", [])) - set(detail.get("polars_dtype", []))
        if kind == "verdict-differs-between-backends" and "WRONG_DATATYPE" in detail.get("pandas_reasons", []) \
                and detail.get("polars") == "ok":
            # every pandas error sits on a str column with a default whose
            # physical type is float64
            only_pd = set(detail.get("pandas_error_columns", []))
        if only_pd and not (set(detail.get("polars_dtype", [])) - set(detail.get("pandas_dtype", []))) \
                and not detail.get("pandas_coercion") and not detail.get("polars_coercion") \
                and all(any(fs["name"] == n and fs.get("default") is not None
                            and cols.get(n, {}).get("phys") not in (None, G.PHYS_OF[fs["dtype"]])
                            for fs in spec["columns"]) for n in only_pd):
            # fill_null / fill_nan with a literal of the declared type up-casts
            # the mistyped column, so the dtype check passes on polars
            return "polars-default-fill-casts-wrongly-typed-column"
    if kind == "parsed-output-differs" and spec.get("add_missing_columns"):
        pd_cols, pl_cols = detail.get("pandas_columns"), detail.get("polars_columns")
        declared = [c["name"] for c in spec["columns"]]
        if pd_cols is not None and pl_cols == [c for c in declared if c in pl_cols] \
                and set(pl_cols) <= set(pd_cols) and (set(pd_cols) - set(pl_cols)) \
                and not (set(pd_cols) - set(pl_cols)) & set(declared):
            return "polars-add_missing_columns-drops-undeclared-columns"
        if pd_cols is not None and sorted(pd_cols) == sorted(pl_cols) and pd_cols != pl_cols:
            return "polars-add_missing_columns-reorders-columns"
    return None


def one(run, rng):
    spec, table, opts, muts = P.gen_parse_case(rng, neutral=True, allow_drop=False, mutate_p=0.5)
    judge(run, spec, table, opts, muts)


def outcome_sig(out, table_of):
    """What a validation did, for comparing the SAME backend on the same input."""
    if out.kind == "exc":
        return ("exc", type(out.exc).__name__)
    if out.accepted:
        return ("ok", table_of(out.result))
    return (out.kind, tuple(sorted((e.reason, str(e.column), str(e.check_index),
                                    repr(sorted(map(repr, e.cells))) if e.cells is not None else None)
                                   for e in out.errors)))


def sequence(run, rng):
    """ONE pandas schema object and ONE polars schema object validate a short
    sequence of tables (valid / invalid / valid ..., in random order).  At every
    step the two backends are compared as in a single case, and each backend is
    compared with a freshly built twin of the schema on the same input: what a
    schema means must not depend on what it validated before."""
    import copy
    spec, table, opts, muts = P.gen_parse_case(rng, neutral=True, allow_drop=False, mutate_p=0.0)
    if C.has_dup_labels(table):
        return
    table["index"] = None
    steps = [("valid", table, [])]
    for _ in range(rng.randint(1, 3)):
        t = copy.deepcopy(table)
        if rng.random() < 0.65:
            s2 = copy.deepcopy(spec)     # mutate may relax nothing in the shared spec
            m = G.mutate(rng, s2, t, k=rng.choice([1, 1, 2]))
            if s2 != spec or C.has_dup_labels(t):
                continue
            steps.append(("mutated", t, m))
        else:
            steps.append(("valid", t, []))
    rng.shuffle(steps)
    try:
        s_pd, s_pl = B.pandas_schema(spec), B.polars_schema(spec)
    except Exception as e:
        run.count("build_error:" + type(e).__name__)
        return
    run.count(f"sequence:length:{len(steps)}")
    failed_before = False
    for k, (what, t, m) in enumerate(steps):
        o_pd, o_pl = judge(run, spec, t, opts, m, s_pd=s_pd, s_pl=s_pl, tag=f"sequence:step{min(k, 3)}:")
        if o_pd is None:
            continue
        try:
            f_pd = H.run_validate(B.pandas_schema(spec), B.pandas_table(spec, t), lazy=True)
            f_pl = H.run_validate(B.polars_schema(spec), B.polars_table(t), lazy=True)
        except Exception as e:
            run.count("build_error:" + type(e).__name__)
            continue
        run.count("sequence:shared_vs_fresh_schema_compared")
        if failed_before:
            run.count("sequence:shared_vs_fresh_schema_compared:after_a_failed_validation")
        for backend, shared, fresh, tab in (("pandas", o_pd, f_pd, table_pd), ("polars", o_pl, f_pl, table_pl)):
            a, b = outcome_sig(shared, tab), outcome_sig(fresh, tab)
            if a != b:
                run.violation("schema-object-history-changes-outcome",
                              C.brief(spec, t, {"backend": backend, "step": k,
                                                "history": [w for w, _, _ in steps[:k]],
                                                "shared_schema_object": shared.kind,
                                                "shared_reasons": shared.reasons(),
                                                "fresh_schema_object": fresh.kind,
                                                "fresh_reasons": fresh.reasons(), "options": opts}), None)
        failed_before = failed_before or not o_pd.accepted or not o_pl.accepted


def judge(run, spec, table, opts, muts, s_pd=None, s_pl=None, tag=""):
    """Validates (spec, table) on both backends and compares them.  Returns the
    two outcomes (None, None when nothing was validated)."""
    if C.has_dup_labels(table):
        return None, None
    table["index"] = None            # row positions are the identity on both backends
    verdict_only = False
    undecided = None
    present = {c["name"]: c for c in table["columns"]}
    for fs in spec["columns"]:
        col = present.get(fs["name"])
        if col is not None and fs["dtype"] in ("int64", "bool") and None in col["values"]:
            # numpy int64 / bool cannot hold nulls, polars Int64 / Boolean can
            undecided = undecided or "undecided:null_in_int_or_bool_column(engine representation)"
            break
        if col is None and spec.get("add_missing_columns") and fs.get("default") is None \
                and fs["nullable"] and (fs["dtype"] in ("int64", "bool") or fs["unique"]):
            undecided = undecided or "undecided:added_all_null_column_of_int_bool_or_unique"
            break
        coerced = fs.get("coerce") or spec.get("coerce")
        if col is not None and coerced and fs["dtype"] in ("datetime", "bool") \
                and col["phys"] != G.PHYS_OF[fs["dtype"]]:
            # what a cast from text to datetime / bool accepts is engine specific
            undecided = undecided or "undecided:engine_specific_cast_to_datetime_or_bool"
            break
        if col is not None and col["phys"] != G.PHYS_OF[fs["dtype"]] \
                and all(x is None for x in col["values"]):
            # an empty / all-null column of another physical type: what its
            # type "is" differs between the engines
            undecided = undecided or "undecided:empty_or_all_null_foreign_column"
            break
        if col is not None and fs["unique"] and sum(1 for x in col["values"] if x is None) >= 2:
            # the docs do not say whether nulls are duplicates of each other, but
            # the two backends must still agree: verdicts are compared, cells not
            run.count("two_nulls_in_unique_column:verdict_only")
            verdict_only = True
    if spec.get("unique"):
        for n in spec["unique"]:
            col = present.get(n)
            if col is None or None in col["values"]:
                undecided = undecided or "undecided:joint_unique_over_nulls_or_added_column"
                break
    if undecided and s_pd is None:
        run.count(undecided)
        return None, None
    v = M.evaluate(spec, table) if not opts else None
    try:
        d_pd, d_pl = B.pandas_table(spec, table), B.polars_table(table)
        if s_pd is None:
            s_pd, s_pl = B.pandas_schema(spec), B.polars_schema(spec)
    except Exception as e:
        run.count("build_error:" + type(e).__name__)
        return None, None
    o_pd = H.run_validate(s_pd, d_pd, lazy=True)
    o_pl = H.run_validate(s_pl, d_pl, lazy=True)
    run.case(canon_hash([tag, spec, table]), bool(opts) or bool(muts),
             sample={"spec": spec, "table": table, "options": opts, "mutations": muts,
                     "pandas": o_pd.kind, "polars": o_pl.kind} if not tag else None)
    if undecided:
        # part of a sequence: validated for its effect on the shared schema
        # objects, the cross-backend comparison of this step is not judged
        run.count(tag + undecided)
        return o_pd, o_pl
    compare(run, spec, table, opts, muts, v, o_pd, o_pl, verdict_only, tag)
    return o_pd, o_pl


def compare(run, spec, table, opts, muts, v, o_pd, o_pl, verdict_only, tag=""):
    if not tag:
        for o in opts:
            run.count(f"option:{o}")
        for fs in spec["columns"]:
            for c in fs["checks"]:
                run.count(f"check:{c['kind']}")
    if "exc" in (o_pd.kind, o_pl.kind):
        run.count(f"undecided:internal_exception(C06):pandas={o_pd.kind},polars={o_pl.kind}")
        return
    run.count(tag + "verdict_compared")
    if v is not None and v.accept is not None:
        run.count(tag + "verdict_compared_with_model")
    if o_pd.accepted != o_pl.accepted:
        detail = {"pandas": o_pd.kind, "pandas_reasons": o_pd.reasons(),
                  "polars": o_pl.kind, "polars_reasons": o_pl.reasons(), "options": opts,
                  "pandas_error_columns": sorted({str(e.column) for e in o_pd.errors}),
                  "model_accept": None if v is None else v.accept}
        run.violation("verdict-differs-between-backends", C.brief(spec, table, detail),
                      classify(spec, table, "verdict-differs-between-backends", detail))
        return
    if v is not None and v.accept is not None and v.accept != o_pd.accepted:
        run.violation("both-backends-disagree-with-documented-semantics",
                      C.brief(spec, table, {"model_accept": v.accept, "model_reasons": v.reasons(),
                                            "pandas_reasons": o_pd.reasons()}), None)
        return
    if verdict_only:
        return
    if not o_pd.accepted:
        r1, f1, d1, c1 = cells_pd(o_pd)
        r2, f2, d2, c2 = cells_pl(o_pl)
        run.count(tag + "failing_cells_compared")
        if d1 != d2 or c1 != c2:
            run.violation("dtype-or-coercion-errors-differ",
                          C.brief(spec, table, {"pandas_dtype": sorted(map(str, d1)), "polars_dtype": sorted(map(str, d2)),
                                                "pandas_coercion": sorted(map(str, c1)), "polars_coercion": sorted(map(str, c2)),
                                                "options": opts}),
                          classify(spec, table, "dtype-or-coercion-errors-differ",
                                   {"pandas_dtype": sorted(map(str, d1)), "polars_dtype": sorted(map(str, d2)),
                                    "pandas_coercion": sorted(map(str, c1)), "polars_coercion": sorted(map(str, c2))}))
            return
        if d1 or c1:
            run.count("undecided:checks_on_wrongly_typed_columns")
            return
        if f1 != f2:
            run.violation("frame-level-errors-differ",
                          C.brief(spec, table, {"pandas": sorted(map(repr, f1)), "polars": sorted(map(repr, f2)),
                                                "options": opts}), None)
            return
        if r1 != r2:
            run.violation("failing-cells-differ",
                          C.brief(spec, table, {"only_pandas": sorted(map(repr, r1 - r2)),
                                                "only_polars": sorted(map(repr, r2 - r1)), "options": opts}),
                          None)
        return
    # both accept: parsed outputs
    t1, t2 = table_pd(o_pd.result), table_pl(o_pl.result)
    run.count(tag + "parsed_output_compared")
    if t1 != t2:
        detail = {"pandas_columns": [c for c, _, _ in t1], "polars_columns": [c for c, _, _ in t2],
                  "pandas": t1, "polars": t2, "options": opts}
        run.violation("parsed-output-differs", C.brief(spec, table, detail),
                      classify(spec, table, "parsed-output-differs", detail))


def run(run, ctx):
    for i in ctx.cases(N[ctx.tier]):
        if i % 6 == 4:
            sequence(run, ctx.rng(PID, i))
        else:
            one(run, ctx.rng(PID, i))
        C.report_context_leaks(run, {"case": i})
    C.finish_context_monitor(run)


def finalize(run, ctx):
    for name, m in [("verdict_compared", 800), ("failing_cells_compared", 200),
                    ("parsed_output_compared", 300), ("verdict_compared_with_model", 100),
                    ("option:add_missing_columns", 50), ("option:strict_filter", 50),
                    ("option:default", 50), ("check:str_matches", 20), ("check:in_range", 50),
                    ("config_monitor:validate_calls_bracketed", 900),
                    # sequences on ONE pandas and ONE polars schema object
                    ("sequence:shared_vs_fresh_schema_compared", 300),
                    ("sequence:shared_vs_fresh_schema_compared:after_a_failed_validation", 60),
                    ("sequence:step1:verdict_compared", 80)]:
        run.floors[name] = m
