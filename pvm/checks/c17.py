"""C17 — decorators gate the call on validation and are otherwise transparent.

For every generated scenario (pvm/c17_gen.py) several *equivalent* variants
(designation form x binding x call shape x sync/async) of the real decorated
function are executed with an instrumented body and compared with

* REFERENCE   the wrapper written from the property statement
              (c17_gen.reference): body called iff every designated input is
              accepted by schema.validate(obj, **decorator options); the body
              receives the parsed objects and everything else untouched;
              designated outputs validated likewise; otherwise the same
              return value / exception; the caller's frames end in the same
              state (inplace);
* METAMORPHIC all variants of one scenario show the same observable behaviour.
* SEQUENCES   for a quarter of the scenarios, 2-3 functions are decorated
              with ONE decorator object (or each with its own) and called in
              an interleaved order, some repeatedly, some with other data:
              every single call must still be what the reference says for
              that function and that data, and no other function's body runs.

Third round (seeded mutations C17-mut5 / C17-mut6):
* container outputs of check_output / check_io have 1-4 elements with the
  designated frame at any position; every integer getter is also written as
  the equivalent negative index (out[-1] = the last element) - one more
  "equivalent designation"; dict outputs use several keys incl. the falsy "".
* check_types: pandas frames remember the schema they were validated against
  last and check_types skips a frame that carries *the same exact schema*.
  Frames now also arrive carrying the schema of a SIBLING model - same
  fields, 1-2 other rules (Config.strict / ordered / unique / coerce /
  add_missing_columns / unique_column_names, a dataframe check, a registered
  Config check, a field's nullable / unique / check, or only name / title /
  description / metadata) - as the argument, among *args / **kwargs, as the
  frame the body returns, and as the validated argument returned under a
  sibling return annotation.  The data is built to pass both models and then
  moved against a rule only the annotation's model has.  A sibling schema is
  a different schema: the reference validates in full.
"""
from __future__ import annotations

import copy
import inspect

from .. import c16_gen as P16, c17_gen as P, snap as S
from ..evidence import Run, canon_hash

PID = "C17"
SHARDS = {"quick": 8, "thorough": 16}
SHARD_TIMEOUT = {"quick": 900, "thorough": 7200}
N = {"quick": 2000, "thorough": 60000}

M_D8 = "check_input-int-getter-ignores-validate-options"
M_INT_KW = "check_input-int-getter-argument-passed-by-keyword"
M_STR_VARARGS = "check_input-str-getter-positional-call-nests-varargs"
M_METHOD_MISBIND = "check_input-method-call-missing-one-arg-binds-self-as-data"
M_CT_ONE_STAR = "check_types-single-star-arg-treated-as-named-argument"
M_CT_KW_NAME = "check_types-keyword-named-like-varkw-parameter"
M_CT_UNION_LAZY = "check_types-union-lazy-failure-of-first-member-not-caught"
M_CT_UNION_NONPANDAS = "check_types-union-all-members-rejected-non-pandas-frame"


def new_run():
    return Run(
        PID, "exploration",
        "cases = scenarios (decorator in check_input / check_output / check_io "
        "/ check_types, signature template incl. defaults, *args, **kwargs, "
        "keyword-only and positional-only parameters, generated schema(s) or "
        "plain-annotation model(s), generated frames valid / coercible / "
        "invalid / invalid only outside head-tail, validate options incl. the "
        "falsy-but-set values head/tail/sample/random_state = 0, schemas "
        "whose validate returns another object than it was given even with "
        "inplace=True (frame-level dtype coercion, add_missing_columns with "
        "the column absent, dataframe-level parser, SeriesSchema coercion, "
        "every polars schema), body plan return-input / return-new / "
        "container / raise; container outputs of 1-4 elements with the "
        "designated frame at any position, dict keys incl. the falsy ''; "
        "check_types frames arriving fresh / carrying on their .pandera "
        "accessor the annotation's schema / an unrelated schema / the schema "
        "of a sibling model = same fields and 1-2 other frame-level or "
        "field-level rules or only other metadata, as argument, among *args "
        "/ **kwargs, as the frame the body returns, or as the validated "
        "argument returned under a sibling return annotation; data for "
        "sibling pairs passes both models and is then moved against a rule "
        "only the annotation's model has) x 6-10 equivalent variants "
        "(designation none / int / str, integer output getters also as the "
        "equivalent negative index, check_io also written as a stack of "
        "check_input / check_output, binding function / method / classmethod "
        "/ staticmethod, call shape, sync / async); for a quarter of the "
        "scenarios additionally a call sequence: 2-3 functions decorated "
        "with one decorator object (or one each), every function called at "
        "least once in shuffled order, some again, some with other data, "
        "each call judged against the reference for that function and data; "
        "non-trivial = a designated input is a frame (not None under "
        "Optional) or an output is designated, i.e. a real validate is "
        "reached; distinct = canonical hash of (scenario, variant) resp. "
        "(scenario, sequence)",
        ["reference wrapper pvm/c17_gen.py:reference written from the statement",
         "schema.validate itself is trusted here (C01-C03 look at it)",
         "with_pydantic=True, Series[...] annotations, pyspark/modin/dask "
         "frames are not exercised"])


# ------------------------------------------------------------------ scenario
def gen_scenario(rng):
    deco = rng.choice(["check_input"] * 4 + ["check_output"] * 2 +
                      ["check_io"] * 2 + ["check_types"] * 4)
    backend = "polars" if rng.random() < 0.15 else "pandas"
    options = P.gen_options(rng)
    if backend == "polars":
        # polars: sample is left to C20.  head/tail are exercised, but a
        # polars subsample whose row order is run-dependent (C20's subject)
        # would make observations irreproducible: the reference is therefore
        # executed twice for these and the variant is only judged when it
        # reproduces itself.  inplace=True is passed on like everywhere else
        # (a polars validate never returns the object it was given: what the
        # decorator hands on must be what validate returned)
        options["sample"] = options["random_state"] = None
    scn = {"deco": deco, "backend": backend, "options": options,
           "tables": {}, "specs": {}, "models": {}}
    tnames = list(P.TEMPLATES)
    if deco == "check_io":
        tnames += ["T11", "T12", "T11"]
    scn["template"] = rng.choice(tnames)
    params = P.TEMPLATES[scn["template"]]
    pnames = [p[0] for p in params]

    def validity():
        return gen_validity(rng, options)

    def add_frame(key, series=False, model=False, want=None, sibling=False):
        if model:
            prog = P.gen_model_prog(rng, backend)
            flat = P16.resolve(prog, 0)
            cols = {c["name"] for c in flat["columns"]}
            cls = prog["classes"][0]
            cls["checks"] = [c for c in cls["checks"] if c["by"] == "field" or
                             all(t in cols for t in c["targets"])]
            cls["df_checks"] = [c for c in cls["df_checks"]
                                if c["col"] is None or c["col"] in cols]
            if sibling:
                # the frame will arrive carrying the schema of a model with
                # the same fields and 1-2 other rules; which of the two is
                # the annotation and which was used earlier is arbitrary
                sib, kinds = P.gen_sibling_prog(rng, prog)
                prog, sib, swapped = P.orient(rng, prog, sib)
                scn["models"][key + "_carrier"] = sib
                scn["sibling"] = {"kinds": kinds, "annotation_is":
                                  "the-changed-model" if swapped else "the-original"}
            scn["models"][key] = prog
            spec = P16.gen_spec_of(P16.resolve(prog, 0))
        else:
            spec = P.gen_schema_spec(rng, backend,
                                     series=series and backend == "pandas",
                                     parse_heavy=parse_heavy)
        scn["specs"][key] = spec
        want = want or validity()
        if want == "valid" and P.parses(spec) and rng.random() < (
                0.7 if parse_heavy else 0.4):
            want = "coercible"         # something for the parsing to do
        t, note = P.gen_table_for(rng, spec, options, want)
        scn["tables"][key] = t
        scn["tables_note"] = {**scn.get("tables_note", {}), key: note}

    # body plan
    plan = {"raise": rng.random() < 0.1, "shape": "bare", "source": "input"}
    values = {"x": ("scalar", 1), "y": ("scalar", 2), "k": ("scalar", None)}
    is_ct = deco == "check_types"
    # parse-heavy scenarios: schemas whose validate() hands back another
    # object than it was given (whatever ``inplace`` says) on data for which
    # the two differ, more often with inplace=True
    parse_heavy = not is_ct and rng.random() < 0.3
    scn["parse_heavy"] = parse_heavy
    if parse_heavy and rng.random() < 0.5:
        options["inplace"] = True
    # check_types: the state the argument frame arrives in (pandas frames
    # remember the schema they were validated against last)
    ct_state = "fresh"
    if is_ct and backend == "pandas" and rng.random() < 0.45:
        ct_state = rng.choice(["carry_equal"] * 2 + ["carry_other"] * 2 +
                              ["carry_stale"] + ["carry_sibling"] * 4)
    add_frame("df", series=rng.random() < 0.12 and not is_ct, model=is_ct,
              sibling=ct_state == "carry_sibling")
    values["df"] = ("frame", "df", "fresh")
    scn["designated"] = ["df"] if deco != "check_output" else []
    if "other" in pnames:
        if deco in ("check_io", "check_types") and rng.random() < 0.7:
            add_frame("other", model=is_ct)
            values["other"] = ("frame", "other", "fresh")
            scn["designated"].append("other")
        else:
            values["other"] = ("scalar", None)
    def star_state(key):
        """frames collected by *args / **kwargs annotated like ``df``: may
        carry the sibling model's schema as well"""
        if ct_state != "carry_sibling" or rng.random() < 0.5:
            return "fresh"
        scn["tables"][key], _ = P.sibling_table(
            rng, P16.resolve(scn["models"]["df"], 0),
            P16.resolve(scn["models"]["df_carrier"], 0),
            scn["specs"]["df"], options)
        return "carry_sibling"

    if "rest" in pnames:
        n = rng.choice([0, 1, 1, 2])
        if is_ct and rng.random() < 0.4 and n:
            scn["rest_annotated"] = True
            vals = []
            for i in range(n):
                key = "rest%d" % i
                scn["specs"][key] = scn["specs"]["df"]
                t, note = P.gen_table_for(rng, scn["specs"]["df"], options, validity())
                scn["tables"][key] = t
                vals.append(("frame", key, star_state(key)))
            values["rest"] = vals
            scn["designated"].append("rest")
        else:
            values["rest"] = [("scalar", 10 + i) for i in range(n)]
    if "kw" in pnames:
        n = rng.choice([0, 1, 2])
        keys = ["p", "q"][:n]
        if is_ct and n and rng.random() < 0.12:
            keys[0] = "kw"                 # a keyword named like the **kw parameter
        if is_ct and rng.random() < 0.4 and n:
            scn["kw_annotated"] = True
            d = {}
            for k in keys:
                key = "kw_" + k
                scn["specs"][key] = scn["specs"]["df"]
                t, note = P.gen_table_for(rng, scn["specs"]["df"], options, validity())
                scn["tables"][key] = t
                d[k] = ("frame", key, star_state(key))
            values["kw"] = d
            scn["designated"].append("kw")
        else:
            values["kw"] = {k: ("scalar", "v" + k) for k in keys}
    # outputs
    scn["out"] = None
    if deco in ("check_output", "check_io", "check_types"):
        if deco == "check_io" and rng.random() < 0.25:
            pass                                     # inputs only
        else:
            shape = "bare" if is_ct else rng.choice(
                ["bare", "bare", "tuple", "list", "dict"] +
                (["tuple2"] if deco == "check_io" else []))
            plan["shape"] = shape
            plan.update(P.gen_out_layout(rng, shape))
            plan["source"] = rng.choice(["input", "table"])
            out = {"shape": shape, "same_as_df": plan["source"] == "input"}
            if is_ct and backend == "pandas" and plan["source"] == "input" \
                    and ct_state in ("fresh", "carry_other") and rng.random() < 0.35:
                # f(df: DataFrame[A]) -> DataFrame[R] returning its argument,
                # R a model with A's fields and 1-2 other rules: the frame
                # reaches the return check carrying A's schema
                sib, kinds = P.gen_sibling_prog(rng, scn["models"]["df"])
                if not P.extra_rules(P16.resolve(sib, 0),
                                     P16.resolve(scn["models"]["df"], 0)):
                    # once more: mostly a return model with a rule on top
                    sib, kinds = P.gen_sibling_prog(rng, scn["models"]["df"])
                scn["models"]["out"] = sib
                scn["specs"]["out"] = P16.gen_spec_of(P16.resolve(sib, 0))
                out["ret_key"] = "out"
                scn["ret_sibling"] = {"kinds": kinds}
            if plan["source"] == "table" or shape == "tuple2":
                if is_ct:
                    if rng.random() < 0.5:
                        scn["specs"]["out"] = scn["specs"]["df"]
                        scn["models"]["out"] = scn["models"]["df"]
                        t, _ = P.gen_table_for(rng, scn["specs"]["df"], options, validity())
                        scn["tables"]["out"] = t
                    else:
                        add_frame("out", model=True)
                    if backend == "pandas" and rng.random() < 0.35:
                        # the body returns a frame it validated itself (or
                        # got from another decorated function): against the
                        # model of the return annotation, or against one
                        # with the same fields and 1-2 other rules
                        plan["out_carry"] = rng.choice(["equal", "sibling", "sibling"])
                        if plan["out_carry"] == "sibling":
                            sib, kinds = P.gen_sibling_prog(rng, scn["models"]["out"])
                            scn["models"]["out"], sib, swapped = P.orient(
                                rng, scn["models"]["out"], sib)
                            if swapped:
                                # the changed model is the annotation's
                                scn["specs"]["out"] = P16.gen_spec_of(
                                    P16.resolve(scn["models"]["out"], 0))
                            scn["models"]["out_carrier"] = sib
                            scn["out_sibling"] = {"kinds": kinds}
                            scn["tables"]["out"], what = P.sibling_table(
                                rng, P16.resolve(scn["models"]["out"], 0),
                                P16.resolve(sib, 0), scn["specs"]["out"], options)
                            scn["out_sibling"]["table"] = what
                        else:
                            scn["tables"]["out"], _ = P.gen_table_for(
                                rng, scn["specs"]["out"], options, "valid")
                else:
                    add_frame("out")
                    if shape == "tuple2":
                        scn["specs"]["out2"] = scn["specs"]["out"]
                        t, _ = P.gen_table_for(rng, scn["specs"]["out"], options, validity())
                        scn["tables"]["out2"] = t
                if plan["source"] == "input" and shape == "tuple2":
                    # first element is the input frame: validate it with the
                    # input's schema, second with the out schema
                    out["first_spec"] = "df"
            out["callable_getter"] = (deco == "check_output" and shape != "bare"
                                      and rng.random() < 0.25)
            if parse_heavy:
                out["callable_getter"] = False
            if out["callable_getter"]:
                # a callable getter cannot re-assign: pandera refuses coercing
                # schemas for it at decoration time
                sp = scn["specs"]["df" if out["same_as_df"] else "out"]
                sp["coerce"] = False
                sp["c17_features"] = [f for f in sp.get("c17_features", [])
                                      if "coerce" not in f]
                for c in ([sp["field"]] if sp["kind"] == "series" else sp["columns"]):
                    c["coerce"] = False
            scn["out"] = out
    elif rng.random() < 0.3:
        plan["shape"] = rng.choice(["scalar", "tuple", "dict"])
        plan.update(P.gen_out_layout(rng, plan["shape"]))
    if is_ct:
        r = rng.random()
        scn["df_annotation"] = ("plain" if r < 0.6 else "optional" if r < 0.8
                                else "union")
        if scn["df_annotation"] == "optional" and rng.random() < 0.4:
            values["df"] = ("none",)
            plan["source"] = "table" if "out" in scn["tables"] else plan["source"]
            if plan["source"] == "input":
                plan["shape"], scn["out"] = "scalar", None
        if scn["df_annotation"] == "union":
            # members are tried one after the other on the same object: with
            # inplace=True what the second member sees is not settled
            options["inplace"] = False
            add_frame("df_alt", model=True)
            if rng.random() < 0.4 and ct_state != "carry_sibling":
                # the argument conforms to the second member instead
                scn["tables"]["df"] = scn["tables"]["df_alt"]
        if ct_state != "fresh" and values["df"][0] == "frame":
            values["df"] = ("frame", "df", ct_state)
            if ct_state == "carry_sibling":
                # accepted by the carried model, (mostly) against a rule the
                # annotation's model has on top
                scn["tables"]["df"], what = P.sibling_table(
                    rng, P16.resolve(scn["models"]["df"], 0),
                    P16.resolve(scn["models"]["df_carrier"], 0),
                    scn["specs"]["df"], options)
                scn["sibling"]["table"] = what
            elif ct_state in ("carry_equal", "carry_stale") \
                    and scn["df_annotation"] != "union":
                # only a frame that validates can carry its schema
                scn["tables"]["df"], _ = P.gen_table_for(
                    rng, scn["specs"]["df"], options, "valid")
        if scn.get("ret_sibling") and values["df"][0] == "frame" \
                and scn["df_annotation"] != "union" and scn["out"] \
                and scn["out"].get("ret_key") and plan["source"] == "input":
            # valid for the model of the return annotation, then (mostly)
            # against a rule it has on top of the input annotation's
            scn["tables"]["df"], what = P.sibling_table(
                rng, P16.resolve(scn["models"]["out"], 0),
                P16.resolve(scn["models"]["df"], 0), scn["specs"]["out"], options)
            scn["ret_sibling"]["table"] = what
        scn["return_annotated"] = scn["out"] is not None
    scn["plan"], scn["values"] = plan, values
    return scn


def gen_validity(rng, options):
    r = rng.random()
    if (options["head"] is not None or options["tail"] is not None) and r < 0.4:
        return "invalid-outside-subsample"
    return "valid" if r < 0.6 else "coercible" if r < 0.75 else "invalid"


def nontrivial(scn):
    """at least one designated input is a frame (not None under Optional) or
    an output is designated: a real validate is reached unless check_types
    takes its documented shortcut for a frame that carries an equal schema"""
    def frames(vs):
        if isinstance(vs, list):
            return any(frames(x) for x in vs)
        if isinstance(vs, dict):
            return any(frames(x) for x in vs.values())
        return vs[0] == "frame"
    return bool(scn["out"]) or any(
        frames(scn["values"][d]) for d in scn["designated"] if d in scn["values"])


def gen_variants(rng, scn):
    params = P.TEMPLATES[scn["template"]]
    pnames = [p[0] for p in params]
    kinds = {p[0]: p[1] for p in params}
    positional = [p[0] for p in params if p[1] in ("posonly", "pos")]
    desigs = ["-"]
    if scn["deco"] == "check_input":
        desigs = ["str"]
        if kinds["df"] != "kwonly":
            desigs.append("int")
        if pnames[0] == "df":
            desigs.append("none")
    out = []
    n = rng.choice([6, 8, 10])
    for i in range(n):
        v = {"designation": desigs[i % len(desigs)],
             "binding": rng.choice(["function", "function", "method", "method",
                                    "classmethod", "staticmethod"]),
             "async": rng.random() < 0.25,
             "via_instance": rng.random() < 0.5}
        if scn["deco"] == "check_output" and scn["out"] and scn["out"]["callable_getter"]:
            v["getter"] = "callable"
        if scn["deco"] == "check_io" and scn["out"]:
            v["out_form"] = rng.choice(["tuple", "list"]) \
                if scn["out"]["shape"] != "bare" else rng.choice(["schema", "tuple", "list"])
            if scn["out"]["shape"] == "tuple2":
                v["out_form"] = "list"
        if scn["deco"] in ("check_output", "check_io") and scn["out"] \
                and scn["out"]["shape"] in ("tuple", "list", "tuple2"):
            # out[i] and out[i - len(out)] designate the same element
            v["out_neg"] = [rng.random() < 0.5 for _ in
                            P.out_getters(scn["plan"])]
        if scn["deco"] == "check_io" and rng.random() < 0.25:
            # the same checks written as a stack of check_input / check_output
            v["io_form"] = "stacked"
        if scn["deco"] == "check_types":
            v["deco_form"] = rng.choice(["bare", "called"])
        designated = [d for d in scn["designated"] if d in kinds and
                      kinds[d] not in ("varpos", "varkw")]
        if "df" not in designated:
            designated.append("df")
        v["args"], v["kwargs"] = P.gen_call(rng, params, scn["values"], designated)
        if v["designation"] == "int":
            v["getter_index"] = positional.index("df")
        out.append(v)
    return out


# --------------------------------------------------------------- execution
class World:
    """Everything one side (actual / reference) of one variant needs: fresh
    schemas, fresh model classes, fresh data objects."""

    def __init__(self, scn):
        self.scn = scn
        self.backend = scn["backend"]
        self.models = {}
        self.frames = []          # (key, object) materialised, for after-state
        for key, prog in scn["models"].items():
            same = [k for k in self.models if scn["models"][k] is prog]
            self.models[key] = self.models[same[0]] if same else \
                P16.build_models(prog)[0]
        self._carrier = None
        self.carry_failed = self.out_carry_failed = False

    def schema(self, key):
        if key in self.models:
            return self.models[key].to_schema()
        return P.build_schema(self.scn["specs"][key], self.backend)

    def data(self, key):
        spec, table = self.scn["specs"][key], self.scn["tables"][key]
        if self.backend == "polars":
            return P.build_data(spec, table, "polars")
        return P.build_data(spec if spec["kind"] == "series" else {"kind": "frame"},
                            table, "pandas")

    def materialise(self, vs, reference_side):
        if vs[0] == "scalar":
            return vs[1]
        if vs[0] == "none":
            return None
        _, key, state = vs
        obj = self.data(key)
        mkey = key if key in self.models else "df"   # *args / **kwargs frames
        if state == "carry_equal" or state == "carry_stale":
            try:
                obj = self.models[mkey].validate(obj)
            except Exception:
                self.carry_failed = True
                self.frames.append((key, obj))
                return obj
            if reference_side:
                obj = obj.copy()            # same content, no accessor schema
            elif state == "carry_stale":
                req = [c for c in obj.columns]
                if req:
                    del obj[req[0]]
        elif state == "carry_sibling":
            try:
                obj = self.models[mkey + "_carrier"].validate(obj)
            except Exception:
                self.carry_failed = True
                self.frames.append((key, obj))
                return obj
            if reference_side:
                obj = obj.copy()
        elif state == "carry_other":
            import pandera as pa
            other = type("Anything", (pa.DataFrameModel,),
                         {"__annotations__": {}, "__module__": "pvm.c17_programs"})
            obj = other.validate(obj)
            if reference_side:
                obj = obj.copy()
        self.frames.append((key, obj))
        return obj

    def out_factory(self, key, reference_side=False):
        obj = self.data(key)
        carry = self.scn["plan"].get("out_carry") if key == "out" else None
        if carry and self.backend == "pandas":
            model = self.models["out" if carry == "equal" else "out_carrier"]
            try:
                obj = model.validate(obj)
            except Exception:
                self.out_carry_failed = True
                return obj
            if reference_side:
                obj = obj.copy()            # same content, no accessor schema
        return obj

    def cleanup(self):
        try:
            from pandera.api.dataframe.model import MODEL_CACHE
            for m in self.models.values():
                MODEL_CACHE.pop(m, None)
        except Exception:
            pass


def _opts_kwargs(options):
    return {k: v for k, v in options.items() if v != P.NO_OPTIONS[k]}


def annotations_for(scn, world):
    """check_types annotations (built per world: they reference the world's
    own model classes)."""
    from typing import Optional, Union
    if scn["backend"] == "polars":
        from pandera.typing.polars import DataFrame
    else:
        from pandera.typing import DataFrame
    ann = {}
    A = DataFrame[world.models["df"]]
    form = scn.get("df_annotation", "plain")
    ann["df"] = A if form == "plain" else Optional[A] if form == "optional" \
        else Union[A, DataFrame[world.models["df_alt"]]]
    if "other" in world.models and "other" in scn["designated"]:
        ann["other"] = Optional[DataFrame[world.models["other"]]]
    if scn.get("rest_annotated"):
        ann["rest"] = A
    if scn.get("kw_annotated"):
        ann["kw"] = A
    if scn.get("return_annotated"):
        ann["return"] = DataFrame[world.models[_ret_key(scn)]]
    ann.setdefault("x", int)
    return ann


def _ret_key(scn):
    """check_types: the model of the return annotation"""
    return scn["out"].get("ret_key") or (
        "df" if scn["out"]["same_as_df"] else "out")


def make_decorator(scn, var, world):
    """The decorator *object* (a callable: function -> decorated function);
    it may be applied to any number of functions."""
    import pandera as pa
    deco, o = scn["deco"], scn["options"]
    kw = _opts_kwargs(o)
    if deco == "check_input":
        getter = {"none": None, "str": "df", "int": var.get("getter_index")}[var["designation"]]
        if getter is None and var["designation"] == "none":
            return pa.check_input(world.schema("df"), **kw)
        return pa.check_input(world.schema("df"), getter, **kw)
    if deco == "check_output":
        return pa.check_output(*_out_args(scn, var, world)[0], **kw)
    if deco == "check_io":
        inputs = {d: world.schema(d) for d in scn["designated"]}
        outs = _out_args(scn, var, world) if scn["out"] else []
        if var.get("io_form") == "stacked":
            decos = [pa.check_input(s, d, **kw) for d, s in inputs.items()] + \
                    [pa.check_output(s, g, **kw) for s, g in outs]

            def stacked(fn):
                for d in decos:
                    fn = d(fn)
                return fn
            return stacked
        if not outs:
            return pa.check_io(**kw, **inputs)
        form = var.get("out_form", "tuple")
        if form == "schema":
            out = outs[0][0]
        elif form == "tuple":
            out = (outs[0][1], outs[0][0])
        else:
            out = [(g, s) for s, g in outs]
        return pa.check_io(out=out, **kw, **inputs)
    if deco == "check_types":
        if var.get("deco_form") == "bare" and not kw:
            return pa.check_types           # @check_types without parentheses
        return pa.check_types(**kw)
    raise AssertionError(deco)


def decorate(scn, var, world, fn):
    return make_decorator(scn, var, world)(fn)


def _out_specs(scn, var):
    """[(schema key, getter, replace)]"""
    out = scn["out"]
    if not out:
        return []
    shape = out["shape"]
    key = "df" if out["same_as_df"] else "out"
    getters = P.out_getters(scn["plan"], var.get("out_neg") or ())
    specs = []
    for j, g in enumerate(getters):
        k = key
        if shape == "tuple2":
            k = (out.get("first_spec") or "out") if j == 0 else "out"
        if var.get("getter") == "callable" and g is not None:
            specs.append((k, (lambda out_, _g=g: out_[_g]), False))
        else:
            specs.append((k, g, True))
    return specs


def _out_args(scn, var, world):
    return [(world.schema(k), g) for k, g, _ in _out_specs(scn, var)]


def execute(scn, var, reference_side, options=None):
    """Run one side of one variant -> observation dict."""
    import pandera.errors as pe
    world = World(scn)
    world.carry_failed = False
    options = scn["options"] if options is None else options
    params = P.TEMPLATES[scn["template"]]
    first = {"method": "self", "classmethod": "cls"}.get(var["binding"])
    rec = {"calls": [], "first": []}
    body = P.make_body(rec, scn["plan"],
                       lambda k: world.out_factory(k, reference_side))
    ann = annotations_for(scn, world) if scn["deco"] == "check_types" else None
    fn = P.make_fn(params, first, var["async"], body, ann)

    def mat(vs):
        if isinstance(vs, list):
            return [world.materialise(x, reference_side) for x in vs]
        if isinstance(vs, dict):
            return {k: world.materialise(x, reference_side) for k, x in vs.items()}
        return world.materialise(vs, reference_side)
    args = [mat(a) for a in var["args"]]
    kwargs = {k: mat(a) for k, a in var["kwargs"].items()}
    obs = {"rec": rec}
    K = type("K", (), {})
    inst = K()
    expected_first = {"method": inst, "classmethod": K}.get(var["binding"])

    if reference_side:
        in_specs = []
        if scn["deco"] == "check_types":
            in_specs = _ct_in_specs(scn, world, obs)
            outs = []
            if scn.get("return_annotated"):
                outs = [(None, lambda k=_ret_key(scn): world.schema(k), True)]
        else:
            if scn["deco"] in ("check_input", "check_io"):
                in_specs = [(d, P.schema_validator(lambda d=d: world.schema(d)))
                            for d in scn["designated"]]
            outs = [(g, (lambda k=k: world.schema(k)), rep)
                    for k, g, rep in _out_specs(scn, var)] \
                if scn["deco"] in ("check_output", "check_io") else []
        try:
            r = P.reference(fn, expected_first, args, kwargs, in_specs,
                            dict(options), outs, var["async"])
        except Exception as e:
            obs["reference_error"] = repr(e)[:300]
            r = {"called": None, "outcomes": []}
        obs.update(r)
    else:
        try:
            decorated = decorate(scn, var, world, fn)
        except Exception as e:
            obs["decoration_error"] = repr(e)[:300]
            world.cleanup()
            return obs
        if var["binding"] == "function":
            call = decorated
        elif var["binding"] == "method":
            K.m = decorated
            call = inst.m
        elif var["binding"] == "classmethod":
            K.m = classmethod(decorated)
            call = inst.m if var["via_instance"] else K.m
        else:
            K.m = staticmethod(decorated)
            call = inst.m if var["via_instance"] else K.m
        try:
            res = call(*args, **kwargs)
            if inspect.isawaitable(res):
                res = P.loop().run_until_complete(res)
            obs["outcome"] = ("return", P.desc(res))
        except (pe.SchemaError, pe.SchemaErrors, P.BodyError) as e:
            obs["outcome"] = ("raise", P.exc_norm(e))
        except Exception as e:   # anything else is itself an observation
            obs["outcome"] = ("raise", P.exc_norm(e))
            obs["exc_repr"] = repr(e)[:200]
    obs["first_ok"] = all(f is expected_first for f in rec["first"])
    obs["after"] = sorted(((k, S.snap(o)) for k, o in world.frames),
                          key=lambda kv: kv[0])
    obs["carry_failed"] = world.carry_failed
    obs["out_carry_failed"] = world.out_carry_failed
    world.cleanup()
    return obs


def _ct_in_specs(scn, world, obs):
    """Validators for check_types: every parameter annotated DataFrame[Model]
    is validated against Model; Optional lets None through; a Union accepts
    what any member accepts."""
    import pandera.errors as pe

    def model_validator(keys, optional):
        def v(value, options):
            if value is None and optional:
                return None
            parsed, errs = [], []
            for k in keys:
                try:
                    val = value if len(keys) == 1 else (
                        value.copy() if hasattr(value, "copy") else value.clone())
                    parsed.append(world.schema(k).validate(val, **options))
                except Exception as e:  # whatever validate raises, so would
                    errs.append(P.exc_norm(e))  # the decorator calling it
                    if len(keys) > 1 and not isinstance(
                            e, (pe.SchemaError, pe.SchemaErrors)):
                        # validate itself left the documented channel (C06):
                        # what a Union does then is not settled
                        obs["ambiguous_union"] = True
            if not parsed:
                if len(keys) > 1:
                    raise P.Reject(["<any-schema-error>"] + errs)
                raise P.Reject(errs)
            if len(parsed) > 1 and any(S.snap(p) != S.snap(parsed[0]) for p in parsed[1:]):
                obs["ambiguous_union"] = True
            return parsed[0]
        return v
    form = scn.get("df_annotation", "plain")
    specs = [("df", model_validator(["df", "df_alt"] if form == "union" else ["df"],
                                    form == "optional"))]
    if "other" in scn["designated"]:
        specs.append(("other", model_validator(["other"], True)))
    if scn.get("rest_annotated"):
        specs.append(("rest", model_validator(["df"], False)))
    if scn.get("kw_annotated"):
        specs.append(("kw", model_validator(["df"], False)))
    return specs


# ---------------------------------------------------------------- sequences
P_SEQUENCE = 0.25


def gen_sequence(rng, scn, variants):
    """2-3 functions (binding / call shape / sync-async / raising body vary)
    decorated with ONE decorator object - a decorator is an ordinary value
    and may be applied to any number of functions - or each with its own,
    then called in an interleaved order: every function at least once, some
    again, some calls with other data (scn tables / the alternative tables).
    """
    params = P.TEMPLATES[scn["template"]]
    positional = [p[0] for p in params if p[1] in ("posonly", "pos")]
    base = variants[0]
    fns = []
    for j in range(rng.choice([2, 2, 3])):
        v = copy.deepcopy(base if j == 0 else rng.choice(variants))
        # one decorator object: the designation is the decorator's
        for k in ("designation", "getter", "out_form", "io_form", "out_neg"):
            if k in base:
                v[k] = base[k]
            else:
                v.pop(k, None)
        if v["designation"] == "int":
            v["getter_index"] = positional.index("df")
        else:
            v.pop("getter_index", None)
        if scn["deco"] == "check_types":
            v["deco_form"] = "called"
        v["raise"] = scn["plan"]["raise"] if j == 0 else rng.random() < 0.2
        fns.append(v)
    order = list(range(len(fns)))
    rng.shuffle(order)
    order += [rng.randrange(len(fns)) for _ in range(rng.choice([1, 2]))]
    steps = [[i, rng.random() < 0.4] for i in order]
    alt = {}
    for key in scn["tables"]:
        want = gen_validity(rng, scn["options"])
        if key == "df" and scn["values"]["df"][0] == "frame" \
                and scn["values"]["df"][2] in ("carry_equal", "carry_stale") \
                and scn.get("df_annotation") != "union":
            want = "valid"                 # only a valid frame carries its schema
        if key == "out" and scn["plan"].get("out_carry") == "equal":
            want = "valid"
        alt[key], _ = P.gen_table_for(rng, scn["specs"][key], scn["options"], want)
        pair = None
        if key == "df" and scn["values"]["df"] == ("frame", "df", "carry_sibling"):
            pair = ("df", "df_carrier", "df")
        elif key == "df" and scn.get("ret_sibling", {}).get("table"):
            pair = ("out", "df", "out")
        if key == "out" and scn["plan"].get("out_carry") == "sibling":
            pair = ("out", "out_carrier", "out")
        if pair:
            alt[key], _ = P.sibling_table(
                rng, P16.resolve(scn["models"][pair[0]], 0),
                P16.resolve(scn["models"][pair[1]], 0),
                scn["specs"][pair[2]], scn["options"])
    return {"shared": rng.random() < 0.7, "fns": fns, "steps": steps,
            "tables_alt": alt}


def step_scenario(scn, seq, var, alt):
    s = dict(scn)
    if alt:
        s["tables"] = seq["tables_alt"]
    s["plan"] = dict(scn["plan"], **{"raise": var["raise"]})
    return s


def execute_sequence(scn, seq):
    """The real decorated functions, called step by step -> [observation]"""
    world = World(scn)
    params = P.TEMPLATES[scn["template"]]
    ann = annotations_for(scn, world) if scn["deco"] == "check_types" else None
    shared = None
    fns = []
    for j, var in enumerate(seq["fns"]):
        first = {"method": "self", "classmethod": "cls"}.get(var["binding"])
        rec = {"calls": [], "first": []}
        body = P.make_body(rec, dict(scn["plan"], **{"raise": var["raise"]}),
                           world.out_factory)
        fn = P.make_fn(params, first, var["async"], body, ann, name="fn%d" % j)
        K = type("K%d" % j, (), {})
        inst = K()
        entry = {"rec": rec, "expected_first":
                 {"method": inst, "classmethod": K}.get(var["binding"])}
        try:
            if seq["shared"]:
                shared = shared or make_decorator(scn, seq["fns"][0], world)
                decorated = shared(fn)
            else:
                decorated = decorate(scn, var, world, fn)
        except Exception as e:
            entry["decoration_error"] = repr(e)[:300]
            fns.append(entry)
            continue
        if var["binding"] == "function":
            call = decorated
        elif var["binding"] == "method":
            K.m = decorated
            call = inst.m
        elif var["binding"] == "classmethod":
            K.m = classmethod(decorated)
            call = inst.m if var["via_instance"] else K.m
        else:
            K.m = staticmethod(decorated)
            call = inst.m if var["via_instance"] else K.m
        entry["call"] = call
        fns.append(entry)
    observations = []
    for i, alt in seq["steps"]:
        var, entry = seq["fns"][i], fns[i]
        world.scn = step_scenario(scn, seq, var, alt)
        world.frames, world.carry_failed = [], False
        world.out_carry_failed = False
        before = [len(e["rec"]["calls"]) for e in fns]
        obs = {}
        if "decoration_error" in entry:
            obs["decoration_error"] = entry["decoration_error"]

        def mat(vs):
            if isinstance(vs, list):
                return [world.materialise(x, False) for x in vs]
            if isinstance(vs, dict):
                return {k: world.materialise(x, False) for k, x in vs.items()}
            return world.materialise(vs, False)
        args = [mat(a) for a in var["args"]]
        kwargs = {k: mat(a) for k, a in var["kwargs"].items()}
        if "call" in entry:
            try:
                res = entry["call"](*args, **kwargs)
                if inspect.isawaitable(res):
                    res = P.loop().run_until_complete(res)
                obs["outcome"] = ("return", P.desc(res))
            except Exception as e:   # whatever is raised is the observation
                obs["outcome"] = ("raise", P.exc_norm(e))
                if not isinstance(e, P.BodyError):
                    obs["exc_repr"] = repr(e)[:200]
        rec = entry["rec"]
        obs["rec"] = {"calls": rec["calls"][before[i]:],
                      "first": rec["first"][before[i]:]}
        obs["first_ok"] = all(x is entry["expected_first"]
                              for x in obs["rec"]["first"])
        obs["other_bodies_ran"] = [j for j, e in enumerate(fns)
                                   if j != i and len(e["rec"]["calls"]) != before[j]]
        obs["after"] = sorted(((k, S.snap(o)) for k, o in world.frames),
                              key=lambda kv: kv[0])
        obs["carry_failed"] = world.carry_failed
        obs["out_carry_failed"] = world.out_carry_failed
        observations.append(obs)
    world.cleanup()
    return observations


def one_sequence(run, scn, seq):
    deco = scn["deco"]
    run.case(canon_hash([scn, seq]), nontrivial(scn))
    run.count("seq:sequences")
    run.count("seq:" + ("one-decorator-object-for-all-functions"
                        if seq["shared"] else "own-decorator-per-function"))
    try:
        observations = execute_sequence(scn, seq)
    except Exception as e:
        run.count("harness_error:" + type(e).__name__)
        run.violation("harness-error", {"scenario": scn, "sequence": seq,
                                        "exc": repr(e)[:300]}, None)
        return
    called = []
    for n, ((i, alt), act) in enumerate(zip(seq["steps"], observations)):
        var = seq["fns"][i]
        sscn = step_scenario(scn, seq, var, alt)
        run.count("seq:steps")
        if alt:
            run.count("seq:step:other-data-than-the-call-before"
                      if n and seq["steps"][n - 1][1] != alt else "seq:step:alternative-data")
        if i in called:
            run.count("seq:step:function-called-again")
        if called and called[0] != i and seq["shared"]:
            # the class in which per-decorator (instead of per-function)
            # state shows: not the first function called through this object
            run.count("class:one-decorator-object:call-of-another-function-"
                      "than-the-first-called:" + deco)
        called.append(i)
        try:
            ref = execute(sscn, var, True)
        except Exception as e:
            run.count("harness_error:" + type(e).__name__)
            run.violation("harness-error", {"scenario": scn, "sequence": seq,
                                            "step": n, "exc": repr(e)[:300]}, None)
            continue
        ok = judge(run, sscn, var, ref, act, features(sscn, var),
                   extra={"sequence": seq, "step": n})
        if ok is True:
            run.count("seq:step_agrees_with_reference")
        elif ok is False:
            break        # later steps of a derailed sequence say nothing new


# ------------------------------------------------------------------ judging
def features(scn, var):
    params = P.TEMPLATES[scn["template"]]
    kinds = {p[0]: p[1] for p in params}
    nparams = len(params) + (1 if var["binding"] in ("method", "classmethod") else 0)
    nargs = len(var["args"]) + (1 if var["binding"] in ("method", "classmethod") else 0)
    return {
        "deco": scn["deco"], "designation": var["designation"],
        "binding": var["binding"], "async": var["async"],
        "df_by_keyword": "df" in var["kwargs"],
        "has_varpos": "rest" in kinds, "has_varkw": "kw" in kinds,
        "kw_named_kw": "kw" in var["kwargs"] and "kw" in kinds,
        "options_nondefault": sorted(_opts_kwargs(scn["options"])),
        "method_one_arg_short": var["binding"] in ("method", "classmethod")
        and nargs == nparams - 1,
        "template": scn["template"],
        "out_getters": [g for _, g, _ in _out_specs(scn, var)
                        if not callable(g)]
        if scn["deco"] in ("check_output", "check_io") else [],
    }


def coverage_classes(scn, f):
    """Program classes in which binding / option defects were found: counted
    (and floored) so that a run that never reaches them is inconclusive."""
    out = []
    nrest = len(scn["values"].get("rest", []))
    if f["deco"] == "check_input" and f["designation"] == "int":
        if f["df_by_keyword"]:
            out.append("int-getter:df-by-keyword")
        if f["options_nondefault"]:
            out.append("int-getter:options-given")
    if f["deco"] in ("check_input", "check_io"):
        if f["method_one_arg_short"]:
            out.append("input-getter:method-called-one-arg-short")
        if f["designation"] in ("str", "-") and nrest and not f["df_by_keyword"]:
            out.append("str-getter:positional-call-with-varargs")
    for g in f["out_getters"]:
        shape = scn["out"]["shape"].rstrip("2")
        if isinstance(g, int) and g < 0:
            out.append("output-getter:negative-index:" + shape)
            if g == -1:
                out.append("output-getter:minus-one-the-last-element:" + shape)
        if isinstance(g, int) and g > 0 and g == scn["plan"].get("len", 2) - 1:
            out.append("output-getter:last-element-by-positive-index:" + shape)
        if g is not None and not g:
            out.append("output-getter:falsy-but-set:%r" % (g,))
    if f["deco"] == "check_types":
        if f["has_varpos"] and nrest == 1:
            out.append("check_types:exactly-one-star-arg")
        if f["kw_named_kw"]:
            out.append("check_types:keyword-named-like-varkw")
        if scn.get("df_annotation") == "union":
            if scn["options"]["lazy"]:
                out.append("check_types:union-lazy")
            out.append("check_types:union-" + scn["backend"])
    return out


def _misbind_prediction(scn, var):
    """What decorators.py's ``sig.bind_partial(None, *args)`` branch would
    validate: -> set of predicted outcome summaries (or {"TypeError"})."""
    import pandera.errors as pe
    params = P.TEMPLATES[scn["template"]]
    first = {"method": "self", "classmethod": "cls"}[var["binding"]]
    fn = P.make_fn(params, first, False, lambda *a: None)
    w = World(scn)
    preds = []
    try:
        owner = object()
        args = [owner] + [w.materialise(a, True) if not isinstance(a, list)
                          else None for a in var["args"]]
        try:
            ba = inspect.signature(fn).bind_partial(None, *args)
        except TypeError:
            return ["<bind-raises-TypeError>"]
        for d in scn["designated"]:
            if d in var["kwargs"] or d not in ba.arguments:
                continue
            try:
                w.schema(d).validate(ba.arguments[d], **scn["options"])
                preds.append("<accepted-wrong-object>")
            except (pe.SchemaError, pe.SchemaErrors) as e:
                preds.append(P.exc_norm(e))
            except Exception as e:
                preds.append(("exc", type(e).__name__))
    finally:
        w.cleanup()
    return preds


def classify(scn, var, act, ref, kind):
    """Mechanism of a deviation, decided from the *observed behaviour*: a
    known mechanism is only named when what was observed is exactly what
    that mechanism predicts for this program (so a different defect on the
    same call shape stays unclassified)."""
    f = features(scn, var)
    out = act.get("outcome")
    calls = act["rec"]["calls"]
    if f["deco"] == "check_input" and f["designation"] == "int":
        if f["df_by_keyword"] and not calls and out \
                and out[1] == ("exc", "IndexError") \
                and "index" in (act.get("exc_repr") or ""):
            return M_INT_KW
        if f["options_nondefault"]:
            ref0 = execute(scn, var, True, options=dict(P.NO_OPTIONS))
            if not compare(scn, var, act, ref0, Run(PID, "", "")):
                return M_D8
    if f["deco"] in ("check_input", "check_io") and f["method_one_arg_short"] \
            and out and out[0] == "raise" and not calls:
        # decorators.py check_input._wrapper: is_method and len(args) ==
        # len(sig.parameters) - 1  ->  sig.bind_partial(None, *args)
        preds = _misbind_prediction(scn, var)
        if any(out[1] == p for p in preds) or (
                "<bind-raises-TypeError>" in preds
                and out[1] == ("exc", "TypeError")
                and "too many positional" in (act.get("exc_repr") or "")):
            return M_METHOD_MISBIND
    if f["deco"] in ("check_input", "check_io") and f["designation"] in ("str", "-") \
            and f["has_varpos"] and not f["df_by_keyword"] and calls:
        got = calls[0].get("rest")
        want = ref["rec"]["calls"][0].get("rest") if ref["rec"]["calls"] else None
        if want is not None and want[1] and got == ("tuple", [want]):
            return M_STR_VARARGS
    if f["deco"] == "check_types" and scn.get("df_annotation") == "union" \
            and scn["options"]["lazy"] and ref["called"] and not calls \
            and out and out[0] == "raise" and out[1][0] == "SchemaErrors":
        # _check_arg catches errors.SchemaError only; with lazy=True the
        # first member's SchemaErrors escapes before the next member is tried
        import pandera.errors as pe
        w = World(scn)
        try:
            w.schema("df").validate(w.materialise(scn["values"]["df"], True),
                                    **scn["options"])
        except pe.SchemaErrors as e:
            if P.exc_norm(e) == out[1]:
                return M_CT_UNION_LAZY
        except Exception:
            pass
        finally:
            w.cleanup()
    if f["deco"] == "check_types" and scn.get("df_annotation") == "union" \
            and scn["backend"] == "polars" and ref["called"] is False \
            and not calls and out and out[1] == ("exc", "BackendNotFoundError") \
            and "polars.dataframe.frame.DataFrame" in (act.get("exc_repr") or ""):
        # _check_arg, every member of the Union rejected the argument:
        # errors.SchemaErrors(schema, ..., data=<polars DataFrame>) looks the
        # backend up by type(data), the polars backends are registered for
        # LazyFrame only (schema.validate converts, the decorator does not)
        return M_CT_UNION_NONPANDAS
    if f["deco"] == "check_types" and calls:
        # validate_args: len(arguments) > len(named_arguments) is false for
        # exactly one *args value -> the tuple itself is passed on as one value
        got = calls[0].get("rest")
        if f["has_varpos"] and len(scn["values"].get("rest", [])) == 1 \
                and got and got[0] == "tuple" and len(got[1]) == 1 \
                and got[1][0][0] == "tuple" and len(got[1][0][1]) == 1:
            return M_CT_ONE_STAR
        # validate_kwargs: kwargs.keys() == named_kwargs.keys() when the only
        # extra keyword is named like the **kw parameter -> nested dict
        got = calls[0].get("kw")
        if f["kw_named_kw"] and got and got[0] == "dict" and len(got[1]) == 1 \
                and got[1][0][0] == "'kw'" and got[1][0][1][0] == "dict":
            return M_CT_KW_NAME
    return None


def compare(scn, var, act, ref, run):
    """-> list of (kind, detail) differences between actual and reference."""
    diffs = []
    if "decoration_error" in act:
        return [("decoration-raises", act["decoration_error"])]
    ncalls = len(act["rec"]["calls"])
    if ref["called"] is None:
        return []
    if ref.get("ambiguous_union"):
        run.count("undecided:union-members-parse-differently-or-leave-channel")
        return []
    if ref["called"] and ncalls == 0:
        diffs.append(("body-skipped-although-inputs-accepted", None))
    if not ref["called"] and ncalls > 0:
        diffs.append(("body-ran-on-rejected-input", None))
    if ncalls > 1:
        diffs.append(("body-ran-more-than-once", ncalls))
    ambiguous = ref.get("ambiguous_union")
    if ref["called"] and ncalls == 1 and not ambiguous:
        a, r = act["rec"]["calls"][0], ref["rec"]["calls"][0]
        run.count("received_objects_compared")
        for k in r:
            if a.get(k) != r[k]:
                diffs.append(("body-received-different-object", k))
                break
        if not act["first_ok"]:
            diffs.append(("self-or-cls-not-forwarded", None))
    out = act.get("outcome")
    run.count("outcome_compared")
    ok = out in ref["outcomes"] or (
        out and out[0] == "raise" and out[1][0] in ("SchemaError", "SchemaErrors")
        and ("raise", "<any-schema-error>") in ref["outcomes"])
    if not ok and not ambiguous:
        if var["async"] and out in (ref.get("raw"), ref.get("raw_after")) \
                and scn["deco"] in ("check_output", "check_io"):
            # the coroutine's own result object instead of what validate
            # returned (as the body returned it, or as in-place validation
            # left it): DESIGN section 7 leaves this open
            run.count("undecided:async-check_output-returns-unparsed-object")
        else:
            diffs.append(("outcome-differs", None))
    if scn.get("df_annotation") == "union":
        run.count("undecided:caller-frame-state-under-Union-annotation")
    elif not ref.get("multi_reject") and not ambiguous:
        run.count("caller_frames_after_compared")
        if act["after"] != ref["after"]:
            diffs.append(("caller-object-state-differs", None))
    return diffs


def _brief(o):
    if o is None:
        return None
    s = repr(o)
    return s if len(s) < 500 else s[:500] + "..."


def obs_key(act):
    return repr((len(act["rec"]["calls"]), act["rec"]["calls"][:1],
                 act.get("outcome"), act["after"]))


def judge(run, scn, var, ref, act, f, extra=None):
    """One executed call against its reference -> True agrees / False
    violation reported / None not judged (counted under undecided:...)."""
    if scn["backend"] == "polars" and (
            scn["options"]["head"] is not None or scn["options"]["tail"] is not None):
        ref2 = execute(scn, var, True)
        if (ref2.get("outcomes"), ref2["rec"]["calls"]) != (
                ref.get("outcomes"), ref["rec"]["calls"]):
            run.count("undecided:polars-subsample-not-reproducible(C20)")
            return None
        run.count("polars_subsample_reference_reproducible")
    if "reference_error" in ref:
        run.count("reference_error")
        run.violation("harness-error", {"scenario": scn, "variant": var,
                                        "exc": ref["reference_error"],
                                        **(extra or {})}, None)
        return False
    if act.get("carry_failed") or ref.get("carry_failed"):
        run.count("carry_prevalidation_failed")
    stale = scn["deco"] == "check_types" and scn["values"]["df"][0] == "frame" \
        and scn["values"]["df"][2] == "carry_stale" and not ref.get("carry_failed")
    run.count("ref:body_called" if ref["called"] else "ref:body_not_called")
    if ref["outcomes"] and ref["outcomes"][0][0] == "raise":
        what = ref["outcomes"][0][1]
        run.count("ref:raises:" + str(what if isinstance(what, str) else what[0]))
    else:
        run.count("ref:returns")
    if stale:
        # equal schema on the accessor, frame invalidated afterwards: the
        # statement does not settle whether the shortcut may trust it
        run.count("undecided:accessor-carries-equal-schema-but-frame-changed")
        return None
    if scn["deco"] == "check_types" and scn["values"]["df"][0] == "frame" \
            and not ref.get("carry_failed") and not act.get("carry_failed"):
        st = scn["values"]["df"][2]
        if st == "carry_equal":
            run.count("accessor:equal-schema-valid-frame:judged")
        elif st == "carry_other":
            run.count("accessor:different-schema:judged")
        elif st == "carry_sibling":
            # same fields, 1-2 other rules: a different schema all the same
            run.count("accessor:sibling-schema:judged")
            for k in scn["sibling"]["kinds"]:
                run.count("accessor:sibling-schema:differs-in:" + k)
            if ref["called"] is False:
                run.count("class:accessor-sibling:annotation-rejects-the-frame-"
                          "the-carried-schema-accepted")
            elif ref["called"] and ref["rec"]["calls"] and (
                    "frame", dict(ref["after"]).get("df")) != \
                    ref["rec"]["calls"][0].get("df"):
                run.count("class:accessor-sibling:annotation-parses-the-frame-"
                          "the-carried-schema-accepted")
    if scn["deco"] == "check_types" and scn.get("return_annotated") \
            and ref["called"] and not scn["plan"]["raise"]:
        rejected = bool(ref["outcomes"]) and ref["outcomes"][0][0] == "raise"
        if scn["out"].get("ret_key") and scn["values"]["df"][0] == "frame":
            run.count("class:return-annotation-sibling-of-input-annotation:"
                      "body-returns-its-argument:judged")
            if rejected:
                run.count("class:return-annotation-sibling-of-input-annotation:"
                          "return-check-rejects-the-accepted-argument")
        carry = scn["plan"].get("out_carry")
        if carry and scn["plan"]["source"] == "table" and not (
                ref.get("out_carry_failed") or act.get("out_carry_failed")):
            run.count("class:returned-frame-carries-%s-schema:judged" % carry)
            if carry == "sibling":
                for k in scn["out_sibling"]["kinds"]:
                    run.count("class:returned-frame-carries-sibling-schema:"
                              "differs-in:" + k)
                if rejected:
                    run.count("class:returned-frame-carries-sibling-schema:"
                              "return-check-rejects-it")
    if scn["deco"] in ("check_output", "check_io") and ref["called"] \
            and ref["outcomes"] and ref["outcomes"][0][0] == "return":
        for g in f["out_getters"]:
            if isinstance(g, int) and g < 0:
                run.count("class:output-getter:negative-index:validated-object-"
                          "put-back:" + scn["out"]["shape"].rstrip("2"))
    # validate() handed back another object than it was given: what reaches
    # the body / the caller must be that object
    if ref.get("in_new_object"):
        run.count("class:input:validate-returns-new-object")
        if scn["options"]["inplace"]:
            run.count("class:input:inplace-and-validate-returns-new-object")
    if any(g is not None for g in ref.get("out_new_object") or []) \
            and var.get("getter") != "callable":
        run.count("class:output-int-or-str-getter:validate-returns-new-object")
        if scn["options"]["inplace"]:
            run.count("class:output-int-or-str-getter:inplace-and-validate-"
                      "returns-new-object:" + scn["backend"])
            if ref.get("out_parsed_differs") and not var["async"]:
                run.count("class:output-int-or-str-getter:inplace-and-parsed-"
                          "object-differs-from-the-one-returned-by-the-body")
    diffs = compare(scn, var, act, ref, run)
    if act.get("other_bodies_ran"):
        diffs.insert(0, ("another-decorated-functions-body-ran",
                         act["other_bodies_ran"]))
    if not diffs:
        run.count("variant_agrees_with_reference")
        return True
    mech = classify(scn, var, act, ref, diffs[0][0])
    if extra and "sequence" in extra:
        # a known single-call mechanism is only named when the same call
        # deviates on its own as well; what only shows inside the sequence
        # (state kept between calls / between functions) stays unclassified
        try:
            alone = execute(scn, var, False)
            if not compare(scn, var, alone, ref, Run(PID, "", "")):
                mech = None
                extra = dict(extra, only_in_sequence=True)
        except Exception:
            mech = None
    for kind, detail in diffs[:1]:
        run.violation(kind, {
            "scenario": scn, "variant": var, "features": f,
            "detail": detail, "all_diffs": [d[0] for d in diffs],
            "actual_outcome": _brief(act.get("outcome")),
            "actual_exc": act.get("exc_repr"),
            "reference_outcomes": _brief(ref["outcomes"]),
            "actual_calls": _brief(act["rec"]["calls"]),
            "reference_calls": _brief(ref["rec"]["calls"]),
            **(extra or {})}, mech)
    return False


def one_case(run, rng, scn=None, variants=None, sequence=None):
    scn = scn or gen_scenario(rng)
    variants = variants or gen_variants(rng, scn)
    if sequence is None and len(variants) > 1 and rng.random() < P_SEQUENCE:
        sequence = gen_sequence(rng, scn, variants)
    if sequence is not None and len(variants) <= 1:
        return one_sequence(run, scn, sequence)          # replay of a sequence
    run.count("scenario:" + scn["deco"])
    run.count("backend:" + scn["backend"])
    run.count("template:" + scn["template"])
    if scn.get("parse_heavy"):
        run.count("scenario:parse-heavy")
    for k, v in _opts_kwargs(scn["options"]).items():
        run.count("option:" + k)
        if v == 0 and v is not False:
            run.count("option:falsy-but-set:%s=0" % k)
    for key, sp in scn["specs"].items():
        if key in ("df", "other", "out"):
            for feat in sp.get("c17_features", []):
                run.count("schema_feature:" + feat)
            if sp["kind"] == "series" and sp["field"].get("coerce"):
                run.count("schema_feature:series-coerce")
    for k, note in scn.get("tables_note", {}).items():
        run.count("table:%s" % note)
    if scn["deco"] == "check_types":
        run.count("check_types:annotation:" + scn.get("df_annotation", "plain"))
        if scn["values"]["df"][0] == "frame":
            run.count("check_types:frame_state:" + scn["values"]["df"][2])
        stars = list(scn["values"].get("rest") or []) + \
            list((scn["values"].get("kw") or {}).values())
        if any(v[0] == "frame" and v[2] == "carry_sibling" for v in stars):
            run.count("check_types:star-args-frame-carries-sibling-schema")
        if scn.get("ret_sibling", {}).get("table"):
            for w in scn["ret_sibling"]["table"]:
                run.count("sibling_table:return:" + w.split(":")[0])
        if scn.get("sibling", {}).get("table"):
            for w in scn["sibling"]["table"]:
                run.count("sibling_table:input:" + w.split(":")[0])
        if scn.get("out_sibling", {}).get("table"):
            for w in scn["out_sibling"]["table"]:
                run.count("sibling_table:returned-frame:" + w.split(":")[0])
    groups = {}
    for vi, var in enumerate(variants):
        f = features(scn, var)
        run.case(canon_hash([scn, var]), nontrivial(scn),
                 sample={"scenario": {k: scn[k] for k in
                                      ("deco", "template", "options", "plan",
                                       "designated", "out")},
                         "variant": var} if vi == 0 else None)
        run.count("variant:designation:" + var["designation"])
        run.count("variant:binding:" + var["binding"])
        run.count("variant:" + ("async" if var["async"] else "sync"))
        if var.get("io_form") == "stacked":
            run.count("variant:check_io-written-as-stacked-check_input-check_output")
        run.count("variant:df_passed_by:" + ("keyword" if f["df_by_keyword"] else "position"))
        for cls in coverage_classes(scn, f):
            run.count("class:" + cls)
        try:
            ref = execute(scn, var, True)
            act = execute(scn, var, False)
        except Exception as e:
            run.count("harness_error:" + type(e).__name__)
            run.violation("harness-error", {"scenario": scn, "variant": var,
                                            "exc": repr(e)[:300]}, None)
            continue
        if judge(run, scn, var, ref, act, f) is True:
            groups.setdefault(obs_key(act), []).append(vi)
    # METAMORPHIC: variants that each match their reference must also match
    # each other (same scenario => same observable behaviour)
    if len(variants) > 1:
        run.count("metamorphic_scenarios_compared")
        if len(groups) > 1 and not scn.get("df_annotation") == "union":
            sync_async_only = False
            if scn["deco"] in ("check_output", "check_io"):
                # the undecided async return of the unparsed object
                keys = list(groups)
                sync_async_only = all(
                    all(variants[i]["async"] for i in groups[k]) or
                    all(not variants[i]["async"] for i in groups[k]) for k in keys)
            if sync_async_only:
                run.count("undecided:async-check_output-returns-unparsed-object")
            else:
                run.violation("equivalent-forms-behave-differently",
                              {"scenario": scn,
                               "groups": [[variants[i] for i in g][:2]
                                          for g in groups.values()]}, None)
        elif groups:
            run.count("metamorphic_all_equal")
    if sequence is not None:
        one_sequence(run, scn, sequence)


def run(run, ctx):
    for i in ctx.cases(N[ctx.tier]):
        one_case(run, ctx.rng(PID, i))


# about 1/4 of what the quick tier observes on the repaired tree (smallest of
# seeds 0, 1, 2, 3, 12345); the thorough tier scales with its number of
# scenarios
FLOORS_QUICK = {
    "outcome_compared": 3900, "received_objects_compared": 2600,
    "caller_frames_after_compared": 3500,
    "metamorphic_scenarios_compared": 500,
    "variant_agrees_with_reference": 3900,
    "scenario:check_input": 160, "scenario:check_output": 85,
    "scenario:check_io": 85, "scenario:check_types": 160,
    "variant:designation:int": 470, "variant:designation:none": 210,
    "variant:designation:str": 590, "variant:binding:method": 1300,
    "variant:binding:classmethod": 660, "variant:binding:staticmethod": 660,
    "variant:async": 1000, "variant:df_passed_by:keyword": 1500,
    "option:head": 97, "option:tail": 50, "option:sample": 46,
    "option:lazy": 100, "option:inplace": 78,
    "ref:body_called": 2700, "ref:body_not_called": 1200,
    "ref:raises:BodyError": 290, "ref:raises:SchemaErrors": 360,
    "check_types:annotation:optional": 36, "check_types:annotation:union": 31,
    "accessor:equal-schema-valid-frame:judged": 78,
    "accessor:different-schema:judged": 100,
    "backend:polars": 76,
    # the program classes in which defects were found and repaired
    "class:int-getter:df-by-keyword": 150,
    "class:int-getter:options-given": 280,
    "class:str-getter:positional-call-with-varargs": 180,
    "class:input-getter:method-called-one-arg-short": 370,
    "class:check_types:exactly-one-star-arg": 150,
    "class:check_types:keyword-named-like-varkw": 11,
    "class:check_types:union-lazy": 41,
    "class:check_types:union-pandas": 210,
    "class:check_types:union-polars": 27,
    # second round (seeded mutations): falsy-but-set option values, schemas
    # whose validate returns another object than it was given, call sequences
    "option:falsy-but-set:head=0": 15, "option:falsy-but-set:tail=0": 5,
    "option:falsy-but-set:sample=0": 4, "option:falsy-but-set:random_state=0": 13,
    "scenario:parse-heavy": 97,
    "schema_feature:add-missing-columns": 73, "schema_feature:dataframe-parser": 45,
    "schema_feature:frame-coerce": 42, "schema_feature:frame-dtype-coerce": 12,
    "schema_feature:series-coerce": 5,
    "class:input:inplace-and-validate-returns-new-object": 225,
    "class:output-int-or-str-getter:validate-returns-new-object": 260,
    "class:output-int-or-str-getter:inplace-and-validate-returns-new-object:pandas": 33,
    "class:output-int-or-str-getter:inplace-and-validate-returns-new-object:polars": 11,
    "class:output-int-or-str-getter:inplace-and-parsed-object-differs-from-"
    "the-one-returned-by-the-body": 16,
    "variant:check_io-written-as-stacked-check_input-check_output": 150,
    "seq:sequences": 116, "seq:steps": 440, "seq:step_agrees_with_reference": 430,
    "seq:one-decorator-object-for-all-functions": 83,
    "seq:own-decorator-per-function": 33,
    "seq:step:function-called-again": 170, "seq:step:alternative-data": 90,
    "seq:step:other-data-than-the-call-before": 80,
    "class:one-decorator-object:call-of-another-function-than-the-first-called:check_input": 52,
    "class:one-decorator-object:call-of-another-function-than-the-first-called:check_output": 26,
    "class:one-decorator-object:call-of-another-function-than-the-first-called:check_io": 26,
    "class:one-decorator-object:call-of-another-function-than-the-first-called:check_types": 57,
    # third round (seeded mutations): negative integer output getters; frames
    # that carry the schema of a sibling model (same fields, other rules)
    "class:output-getter:negative-index:tuple": 170,
    "class:output-getter:negative-index:list": 88,
    "class:output-getter:minus-one-the-last-element:tuple": 77,
    "class:output-getter:minus-one-the-last-element:list": 42,
    "class:output-getter:last-element-by-positive-index:tuple": 69,
    "class:output-getter:negative-index:validated-object-put-back:tuple": 66,
    "class:output-getter:negative-index:validated-object-put-back:list": 51,
    "class:output-getter:falsy-but-set:0": 136,
    "class:output-getter:falsy-but-set:''": 18,
    "accessor:sibling-schema:judged": 150,
    "accessor:sibling-schema:differs-in:strict": 25,
    "accessor:sibling-schema:differs-in:df_check": 21,
    "accessor:sibling-schema:differs-in:extras": 17,
    "accessor:sibling-schema:differs-in:unique": 13,
    "accessor:sibling-schema:differs-in:unique_column_names": 13,
    "accessor:sibling-schema:differs-in:ordered": 4,
    "accessor:sibling-schema:differs-in:coerce": 12,
    "accessor:sibling-schema:differs-in:add_missing_columns": 12,
    "accessor:sibling-schema:differs-in:field": 24,
    "accessor:sibling-schema:differs-in:meta": 9,
    "class:accessor-sibling:annotation-rejects-the-frame-the-carried-schema-accepted": 48,
    "class:accessor-sibling:annotation-parses-the-frame-the-carried-schema-accepted": 3,
    "check_types:star-args-frame-carries-sibling-schema": 1,
    "class:return-annotation-sibling-of-input-annotation:body-returns-its-argument:judged": 56,
    "class:return-annotation-sibling-of-input-annotation:return-check-rejects-the-accepted-argument": 22,
    "class:returned-frame-carries-equal-schema:judged": 19,
    "class:returned-frame-carries-sibling-schema:judged": 46,
    "class:returned-frame-carries-sibling-schema:return-check-rejects-it": 14,
}


def finalize(run, ctx):
    scale = N[ctx.tier] / N["quick"]
    for name, m in FLOORS_QUICK.items():
        run.floors[name] = int(m * scale)


def replay(path):
    import json
    import random
    with open(path) as f:
        w = json.load(f)["witness"]
    r = new_run()
    scn, var, seq = w["scenario"], w.get("variant"), w.get("sequence")
    if seq:
        one_sequence(r, _unjson(scn), _unjson(seq))
    else:
        one_case(r, random.Random(0), scn=_unjson(scn),
                 variants=[_unjson(var)] if var else None)
    for v in r.violations:
        print(v["kind"], v["mechanism"])
    return 1 if r.violations else 0


def _unjson(o):
    """value specs are tuples in memory, lists in JSON"""
    if isinstance(o, list):
        if o and isinstance(o[0], str) and o[0] in ("scalar", "frame", "none") \
                and len(o) <= 3:
            return tuple(o)
        return [_unjson(x) for x in o]
    if isinstance(o, dict):
        return {k: _unjson(v) for k, v in o.items()}
    return o
