"""C15 — schema transformations mirror the dataframe transformations.

Programs of <= 5 transforming requests are run against a generated schema S
(pandas and polars DataFrameSchema) together with a real frame D that S
accepts; every request is also performed on D with the dataframe library.
Deciding monitors, evaluated at every step:

  RECV     fingerprint(receiver) unchanged by the request
  KEEP     every column / schema attribute not named by the request is
           fingerprint-equal in S and op(S) (all attributes found in __dict__);
           the key list is the one the mirrored frame operation gives
  ADDED    add_columns (1-3 columns, new keys and keys the schema already has
           mixed): the column under every passed key is the passed Column;
           an existing key is re-defined in place (assignment semantics)
  UPDATED  update_column(s): every named option has the requested value, i.e.
           the value of a Column constructed with exactly that option - for
           real values, for falsy values ("", 0, False, [], {}) and for None
           (the option is cleared)
  RELAX    update(checks=None/[]) / update(dtype=None): a frame S rejects only
           because of the cleared constraint is accepted by update(S)
  MIRROR   accept(S, D) observed  =>  accept(op(S), op(D))
  REJECT   a frame rejected by S because of a bad value in a column the request
           does not touch stays rejected by op(S) after the same request
  ATTR     set_index / reset_index: the attributes an Index level and a Column
           share are carried over
  MIOPT    set_index(append=True) on / partial reset_index of a MultiIndex keep
           the options of the MultiIndex itself (coerce, strict, name, ...)
  INVERSE  remove after add, rename back, reset after set, select(all) give a
           schema == S and fingerprint-equal to S; remove after a re-defining
           add gives remove(S, the re-defined keys)
  INVALID  unknown key / rename onto an existing key / renaming through update
           (also to a falsy name: "", None, 0) / reset without index raise
           SchemaInitError or ValueError, return nothing and leave the receiver
           unchanged
  Empty requests (add {}, remove [], rename {}, update with no option) are in
  the alphabet: everything is untouched, all monitors above apply.
  update_checks / set_checks on a component: receiver unchanged, result differs
  only in its checks.
"""
from __future__ import annotations

import copy
import json
import re
import os
import warnings

from .. import c05_gen as G, c15_prog as P, fingerprint as F, harness as H
from ..evidence import Run, canon_hash

PID = "C15"
SHARDS = {"quick": 6, "thorough": 16}
N = {"quick": 1400, "thorough": 60000}
SHARD_TIMEOUT = {"quick": 900, "thorough": 2400}


def new_run():
    return Run(
        PID, "exploration",
        "case = (schema spec with rich attributes, program of 1-5 transforming "
        "requests + interleaved invalid requests) from pvm.c05_gen / "
        "pvm.c15_prog, run on a real accepted frame; requests include "
        "add_columns of 1-3 columns that are new or re-define existing keys, "
        "updates with real, falsy and None values, and empty requests; pandas and polars "
        "DataFrameSchema; non-trivial = accept(S, D) was observed for the "
        "initial schema, the program has >= 2 steps and at least one deciding "
        "monitor besides RECV was evaluated at every step; distinct = canonical "
        "hash of (spec, program)",
        ["mirrored frame operations: assign / drop / [] / rename / astype / "
         "set_index / reset_index (pandas), with_columns / drop / select / "
         "rename / cast (polars)",
         "add_columns mirrors assignment (frame[label] = values / with_columns): a "
         "key the schema already has is re-defined in place by the passed Column, "
         "new keys are appended; a regex key is only ever re-defined by a regex "
         "Column with the same pattern (every matching label gets the new values)",
         "an update option given as None means what it means in the Column "
         "constructor (no dtype requirement, no checks / parsers, no default, no "
         "title / description / metadata); RELAX is judged only when nothing but "
         "the cleared constraint of that column rejects the probe frame under S "
         "(lazy validation, all reported errors), no drop_invalid_rows in play",
         "set_index / reset_index are judged for pandas only (polars frames "
         "have no index); on polars schemas only RECV is evaluated for them",
         "updates are neutral or relaxing (title, description, metadata, "
         "nullable, coerce, required, unique=False, drop_invalid_rows=False, "
         "report_duplicates, options cleared with None or set to a falsy value), "
         "tightening in a way the data satisfies (nullable=False, required=True, "
         "unique=True on distinct values), replace checks by checks the data "
         "satisfies, or change int -> float with astype on the frame",
         "joint unique= naming a renamed column must follow the rename (RENAME-JOINT); joint unique= "
         "after remove / select of a listed column and groupby references to touched columns are not judged",
         "where reset_index inserts the former levels among the column keys is "
         "judged only through MIRROR on ordered=True schemas (pandas prepends)",
         "MultiIndex(coerce=True) dissolved into a single Index by reset_index: "
         "whether coerce is folded into the remaining level is not judged",
         "MultiIndex options ordered=False / unique=[...] are not generated",
         "validation runs on deep copies of the schemas so that C05 defects do "
         "not leak into the receiver monitor"])


# --------------------------------------------------------------------------
def needs_lazy(schema):
    if getattr(schema, "drop_invalid_rows", False):
        return True
    comps = list(getattr(schema, "columns", {}).values())
    ix = getattr(schema, "index", None)
    if ix is not None:
        comps += list(getattr(ix, "indexes", [ix]))
    return any(getattr(c, "drop_invalid_rows", False) for c in comps)


def validate(schema, frame, lazy=None):
    with warnings.catch_warnings():
        warnings.simplefilter("ignore")
        return H.run_validate(copy.deepcopy(schema), G.clone(frame),
                              lazy=needs_lazy(schema) if lazy is None else lazy)


def with_values(backend, D, k, dt, vals):
    """Copy of frame D whose column k holds ``vals`` (pool dtype tag ``dt``)."""
    if backend == "polars":
        import datetime

        import polars as pl
        if dt == "dt":
            vals = [datetime.datetime.fromisoformat(v) if isinstance(v, str) else v
                    for v in vals]
        return D.with_columns(pl.Series(k, vals, dtype=G._pl_dtype(dt)))
    Db = D.copy()
    Db[k] = G._pd_series(dt, list(vals)).values
    return Db


def cleared(kw, a):
    return a in kw and (kw[a] is None or kw[a] == [])


def cols_of(fps):
    return {k: v for k, v in fps["columns"]["__dict_items__"]}


def keys_of(fps):
    return [k for k, _ in fps["columns"]["__dict_items__"]]


def top_of(fps):
    return {k: v for k, v in fps.items() if k not in ("columns", "index")}


def levels_of(fps):
    ix = fps.get("index")
    if ix is None:
        return []
    if "indexes" in ix:
        return list(ix["indexes"])
    return [ix]


def mi_opts_of(fps):
    """Options of the MultiIndex itself (everything but its levels)."""
    ix = fps.get("index")
    if ix is None or "indexes" not in ix:
        return None
    return {k: v for k, v in ix.items() if k not in ("indexes", "columns")}


def apply_mi_opts(spec, schema):
    """MultiIndex-level options are not part of the c05 spec: set them here."""
    o = spec.get("mi_opts")
    if o:
        import pandera as pa
        schema.index = pa.MultiIndex(list(schema.index.indexes), coerce=o["coerce"],
                                     strict=o["strict"], name=o["name"])
    return schema


def sorted_cols(fps):
    out = dict(fps)
    out["columns"] = {"__dict_items__": sorted(fps["columns"]["__dict_items__"],
                                               key=lambda kv: kv[0])}
    return out


def attr_name(fp_key):
    return fp_key.lstrip("_")


def comp_diff(a, b, ignore=()):
    """First differing attribute between two component fingerprints."""
    for k in a:
        if k == "__class__" or attr_name(k) in ignore:
            continue
        if k not in b:
            return k, f"attribute {k} missing"
        d = F.diff(a[k], b[k], f"$.{k}")
        if d:
            return attr_name(k), d
    for k in b:
        if k not in a and k != "__class__" and attr_name(k) not in ignore:
            return attr_name(k), f"attribute {k} appeared"
    return None


SHARED_ONLY = ("required", "regex")      # Column-only attributes


_RE_ATTRS = [re.compile(r"\]\[1\]\.(\w+)"),
             re.compile(r"^\$\.index(?:\.indexes\[\d+\])?\.(\w+)"),
             re.compile(r"^\$\.(\w+)")]


def diff_attr(d):
    """Name of the component attribute a fingerprint diff path points into."""
    for rx in _RE_ATTRS:
        m = rx.search(d or "")
        if m:
            return m.group(1).lstrip("_")
    return None


K_PROPS = "column-properties-omit-drop_invalid_rows"
K_SET = "set_index-builds-Index-from-attribute-subset"
K_RESET = "reset_index-builds-Column-from-attribute-subset"
K_REMAIN = "reset_index-rebuilds-remaining-level-from-attribute-subset"
K_MICOLS = "reset_index-reads-MultiIndex.columns-losing-level-coerce"
K_STALE = "reset_index-partial-multiindex-leaves-indexes-stale"
K_SHALLOW = "shallow-copy-shares-dict-update_checks-mutates-receiver"
K_ORDER = "reset_index-appends-columns-where-pandas-prepends"
K_MIOPTS = "set_index-append-rebuilds-MultiIndex-without-its-options"
K_FALSYNAME = "update_columns-falsy-name-passes-the-rename-guard"


def classify(kind, step, w, spec):
    """Mechanism key computed from the witness only."""
    m, attr = step.get("m"), w.get("attr")
    multi = w.get("index_kind") == "multiindex"
    if kind == "receiver-changed" and m in ("update_checks", "set_checks"):
        return K_SHALLOW
    if kind == "joint-unique-not-renamed-with-its-column" and m == "rename_columns":
        return "rename_columns-leaves-old-names-in-joint-unique"
    if step.get("what") == "update_columns_falsy_name" and (
            (kind == "invalid-request-returned-a-schema"
             and w.get("returned", "").endswith("DataFrameSchema"))
            # the guard let name=0 through to Column(name=0, regex=True)
            or (kind == "invalid-request-wrong-exception"
                and w.get("sig") == "AttributeError@utils.py:is_regex")):
        return K_FALSYNAME
    if kind == "untouched-attribute-changed" and attr == "drop_invalid_rows" \
            and m in ("update_column", "update_columns"):
        return K_PROPS
    if kind == "set_index-attribute-not-carried" and attr in P.LOST_BY_REBUILD:
        return K_SET
    if kind == "multiindex-options-changed" and m == "set_index" and step.get("append") \
            and attr in ("coerce", "strict", "name", "ordered", "unique"):
        return K_MIOPTS
    if kind == "reset_index-attribute-not-carried":
        if attr == "coerce" and multi:
            return K_MICOLS
        if attr in P.LOST_BY_REBUILD:
            return K_RESET
    if kind == "reset_index-remaining-level-changed":
        if attr == "coerce":
            return K_MICOLS
        if attr in P.LOST_BY_REBUILD:
            return K_REMAIN
    if kind == "inverse-law:reset-after-set" and w.get("diff"):
        in_index = w["diff"].startswith("$.index")
        if w["diff"].startswith("$.index.indexes: len") and multi:
            return K_STALE
        # options of a MultiIndex that the receiver already had
        if step.get("append") and w.get("orig_index_kind") == "multiindex" and re.match(
                r"^\$\.index\._?(coerce|strict|name|ordered|unique)\b", w["diff"]):
            return K_MIOPTS
        if attr == "coerce" and multi:
            return K_MICOLS
        if attr in P.LOST_BY_REBUILD:
            if in_index:
                return K_REMAIN
            # lost on the way into the index (seen by ATTR at this step) or
            # only on the way back
            return K_SET if attr in (w.get("lost_at_set") or []) else K_RESET
    if kind == "index-levels-not-as-requested" and m == "reset_index" \
            and len(w.get("got", [])) >= 3 and w.get("got") == w.get("old_levels"):
        return K_STALE
    if kind == "mirror-rejected" and m in ("update_column", "update_columns") \
            and w.get("lost_drop_invalid_rows"):
        return K_PROPS
    if kind == "mirror-rejected" and m == "reset_index" and not step.get("drop") \
            and spec.get("ordered") and _only_order_errors(w.get("detail")):
        # the former levels are the first labels of the pandas frame and the
        # last keys of the schema
        moved = [str(x) for x in w.get("moved_levels") or []]
        fc, sc = w.get("frame_columns") or [], w.get("schema_columns") or []
        if moved and fc[:len(moved)] == moved \
                and sorted(sc[-len(moved):]) == sorted(moved):
            return K_ORDER
    return None


def _only_order_errors(detail):
    return isinstance(detail, list) and bool(detail) and all(
        isinstance(e, list) and e and e[0] == "COLUMN_NOT_ORDERED" for e in detail)


STRUCTURAL = ("index-levels-not-as-requested", "column-keys-not-as-requested",
              "mirror-rejected", "applicable-request-raised")


class Case:
    def __init__(self, run, spec, st):
        self.run, self.spec, self.st = run, spec, st
        self.program = []
        self.structural = False
        self.lost_at_set = set()

    def viol(self, kind, step, extra, attr=None, detail=None):
        w = {"spec": self.spec, "program": list(self.program), "step": step,
             "attr": attr}
        w.update(extra)
        if kind in STRUCTURAL:
            self.structural = True
        self.run.violation(kind, w, classify(kind, step, w, self.spec))

    # ---- one valid request -------------------------------------------------
    def step(self, step, rng):
        run, st = self.run, self.st
        S = st.schema
        m = step["m"]
        self.program.append(step)
        run.count(f"request:{st.backend}:{m}")
        fp_before = F.fp(S)
        self.structural = False
        self.lost_at_set = set()
        saved_checks = (list(S.columns[step["key"]].checks)
                        if m in ("update_checks", "set_checks") else None)
        try:
            with warnings.catch_warnings():
                warnings.simplefilter("ignore")
                S2 = P.apply_schema(step, st)
        except Exception as e:
            self.viol("applicable-request-raised", step,
                      {"exc": repr(e)[:300], "sig": H.exc_sig(e)})
            return False
        # RECV
        run.count("RECV:evaluated")
        d = F.diff(fp_before, F.fp(S))
        if d:
            self.viol("receiver-changed", step, {"diff": d})
            if saved_checks is not None:
                # heal the receiver so that the rest of the program is not a
                # cascade of this one defect
                S.columns[step["key"]].checks = saved_checks
                if F.diff(fp_before, F.fp(S)) is None:
                    run.count("RECV:healed_after_update_checks")
                    return True
            self.structural = True
            return False
        if m in ("update_checks", "set_checks"):
            self.component_result(step, fp_before, S2)
            return True
        judged_index_ops = st.backend == "pandas"
        if m in ("set_index", "reset_index") and not judged_index_ops:
            run.count("undecided:polars-set/reset_index-not-judged")
            return False
        fp2 = F.fp(S2)
        self.S2 = S2
        self.keep(step, fp_before, fp2)
        # MIRROR
        D_before = st.frame
        bad_probe = self.pick_reject_probe(step, rng)
        st_cols_before = copy.deepcopy(st.cols)
        try:
            P.apply_data(step, st, S2)
        except Exception as e:
            run.count(f"harness:mirror_op_failed:{type(e).__name__}")
            run.note_inconclusive(f"mirror op failed: {step} {e!r}"[:200])
            return False
        out = validate(S2, st.frame)
        run.count("MIRROR:evaluated")
        run.count(f"MIRROR:{m}")
        if out.kind != "ok":
            detail = ([[e.reason, str(e.column), str(e.check)] for e in out.errors]
                      if out.errors else repr(out.exc)[:300])
            ca, cb = cols_of(fp_before), cols_of(fp2)
            asked = {repr(k) for k, kw in (
                {step["key"]: step["kw"]} if m == "update_column" else
                step["upd"] if m == "update_columns" else {}).items()
                if "drop_invalid_rows" in kw}
            lost = sorted(k for k in ca if k in cb and ca[k].get("drop_invalid_rows")
                          and not cb[k].get("drop_invalid_rows") and k not in asked)
            self.viol("mirror-rejected", step,
                      {"outcome": out.kind, "detail": detail,
                       "lost_drop_invalid_rows": lost,
                       "moved_levels": [str(c) for c in st.frame.columns
                                        if c not in list(D_before.columns)]
                       if m == "reset_index" else None,
                       "frame_columns": [str(c) for c in st.frame.columns],
                       "schema_columns": [str(k) for k in S2.columns]},
                      detail=detail)
            return False
        run.count("MIRROR:accepted")
        # REJECT mirror
        if bad_probe is not None:
            self.reject_mirror(step, bad_probe, S, S2, D_before, st_cols_before)
        if m in ("update_column", "update_columns"):
            self.relax(step, S, S2, D_before, st_cols_before)
        self.inverse(step, S, S2, fp_before, rng)
        return not self.structural

    # ---- KEEP ----------------------------------------------------------------
    def keep(self, step, fa, fb):
        run, m = self.run, step["m"]
        run.count("KEEP:evaluated")
        if P.is_empty_request(step):
            run.count(f"KEEP:empty_request:{m}")
        ta, tb = top_of(fa), top_of(fb)
        if m == "rename_columns" and isinstance(ta.get("_unique"), list):
            # joint uniqueness names its columns: the frame operation renames the
            # column, so the same columns stay jointly unique under their new names
            # (RENAME-JOINT; the fingerprint holds the names as they are stored)
            mp_u = dict(step["map"])
            want = [mp_u.get(x, x) if not isinstance(x, list) else x for x in ta["_unique"]]
            run.count("KEEP:rename:joint_unique_present")
            if want != ta["_unique"]:
                run.count("KEEP:rename:joint_unique_names_a_renamed_column")
            ta = dict(ta, _unique=want)
        d = F.diff(ta, tb)
        if d:
            self.viol("untouched-attribute-changed" if not (m == "rename_columns" and "_unique" in d)
                      else "joint-unique-not-renamed-with-its-column", step,
                      {"where": "schema", "diff": d}, attr=diff_attr(d))
        ca, cb = cols_of(fa), cols_of(fb)
        ka, kb = keys_of(fa), keys_of(fb)
        named = {}
        expect_keys = list(ka)
        if m == "add_columns":
            # assignment semantics: an existing key keeps its position and gets
            # the passed Column, new keys are appended in the order given
            names = [c["name"] for c in P.add_cols(step)]
            named = {repr(n): None for n in names}
            expect_keys = ka + [repr(n) for n in names if repr(n) not in ka]
            self.added_took_effect(step, ka, cb)
        elif m == "remove_columns":
            gone = {repr(k) for k in step["keys"]}
            expect_keys = [k for k in ka if k not in gone]
        elif m == "select_columns":
            expect_keys = [repr(k) for k in step["keys"]]
        elif m == "rename_columns":
            mp = {repr(k): repr(v) for k, v in step["map"].items()}
            expect_keys = [mp.get(k, k) for k in ka]
            for rk, rk2 in step["map"].items():
                k, k2 = repr(rk), repr(rk2)
                run.count("KEEP:renamed_column")
                cd = comp_diff(ca[k], cb.get(k2, {}), ignore=("name",))
                if cd:
                    self.viol("untouched-attribute-changed", step,
                              {"where": f"renamed column {k}", "diff": cd[1]}, attr=cd[0])
                elif cb[k2].get("name") != rk2:
                    self.viol("rename-did-not-set-name", step,
                              {"column": k2, "name": cb[k2].get("name")})
            named = {k: None for k in mp}
        elif m in ("update_column", "update_columns"):
            upd = {step["key"]: step["kw"]} if m == "update_column" else step["upd"]
            for k, kw in upd.items():
                run.count("KEEP:updated_column_other_attrs")
                cd = comp_diff(ca[repr(k)], cb.get(repr(k), {}), ignore=tuple(kw))
                if cd:
                    self.viol("untouched-attribute-changed", step,
                              {"where": f"updated column {k}", "diff": cd[1]}, attr=cd[0])
                self.update_took_effect(step, k, kw, cb.get(repr(k), {}))
            named = {repr(k): None for k in upd}
        elif m == "set_index":
            if step["drop"]:
                gone = {repr(k) for k in step["keys"]}
                expect_keys = [k for k in ka if k not in gone]
                named = {k: None for k in gone}
            self.index_after_set(step, fa, fb)
        elif m == "reset_index":
            old = levels_of(fa)
            names = [lv.get("name") for lv in old]
            level = names if step["level"] is None else step["level"]
            if not step["drop"]:
                expect_keys = ka + [repr(n) for n in names if n in level]
            self.index_after_reset(step, fa, fb, level)
        # order / membership of keys
        run.count("KEEP:key_list")
        if m == "reset_index":
            # where the former levels are inserted is judged by MIRROR
            # (ordered=True) only; here just membership
            kb_cmp, expect_cmp = sorted(kb), sorted(expect_keys)
        else:
            kb_cmp, expect_cmp = kb, expect_keys
        if kb_cmp != expect_cmp:
            self.viol("column-keys-not-as-requested", step,
                      {"expected": expect_keys, "got": kb})
        for k in kb:
            if k in ca and k not in named:
                run.count("KEEP:untouched_column")
                cd = comp_diff(ca[k], cb[k])
                if cd:
                    self.viol("untouched-attribute-changed", step,
                              {"where": f"untouched column {k}", "diff": cd[1]},
                              attr=cd[0])
        if m not in ("set_index", "reset_index"):
            run.count("KEEP:index")
            d = F.diff(fa.get("index"), fb.get("index"))
            if d:
                self.viol("untouched-attribute-changed", step,
                          {"where": "index", "diff": d}, attr="index")

    def added_took_effect(self, step, ka, cb):
        """The column found under every key of the request is the Column that
        was passed (also when the schema already had a column of that key)."""
        run = self.run
        for c in P.add_cols(step):
            k = repr(c["name"])
            cls = "replacing" if k in ka else "new"
            run.count(f"ADDED:{cls}:evaluated")
            if c.get("regex"):
                run.count("ADDED:replacing:regex_key")
            passed = self.st.last_added.get(c["name"])
            if passed is None or k not in cb:
                continue            # missing key: reported by the key-list monitor
            # (the schema works on the passed object or on a copy of it: the
            # name is compared with the key instead)
            cd = comp_diff(F.fp(passed), cb[k], ignore=("name",))
            if cd is None and cb[k].get("name") != c["name"]:
                cd = ("name", f"$.name: {cb[k].get('name')!r} is not the key")
            if cd:
                self.viol("add-not-applied", step,
                          {"column": c["name"], "class": cls, "diff": cd[1]}, attr=cd[0])
            else:
                run.count(f"ADDED:{cls}:held")

    def update_took_effect(self, step, k, kw, col_fp):
        """Every option named by the update has the requested value - the value
        a Column constructed with exactly that option has (None clears it)."""
        run, st = self.run, self.st
        built = st.last_kw.get(k, {})
        for a, v in kw.items():
            if a not in built:
                continue
            cls = ("none" if v is None else "falsy" if v in ("", 0, False) or v == []
                   or v == {} else "value")
            run.count("KEEP:update_took_effect")
            run.count(f"UPDATED:{cls}:evaluated")
            run.count(f"UPDATED:{cls}:{a}")
            try:
                with warnings.catch_warnings():
                    warnings.simplefilter("ignore")
                    ref = F.fp(type(st.schema.columns[k])(**{a: built[a]}), ident=False)
            except Exception as e:
                run.count(f"undecided:reference-column-not-constructible:{type(e).__name__}")
                continue
            key = a if a in ref else "_" + a
            if key not in ref:
                run.count(f"undecided:option-not-an-attribute:{a}")
                continue
            got = F.fp(self.S2.columns[k], ident=False).get(key, "<missing>")
            d = F.diff(ref[key], got, f"$.{a}")
            if d:
                self.viol("update-not-applied", step,
                          {"column": k, "attr": a, "class": cls, "requested": v,
                           "diff": d}, attr=a)

    def index_after_set(self, step, fa, fb):
        run = self.run
        old, new = levels_of(fa), levels_of(fb)
        keep_n = len(old) if step["append"] else 0
        run.count("ATTR:set_index:level_names")
        names = [lv.get("name") for lv in new]
        want = [lv.get("name") for lv in old[:keep_n]] + list(step["keys"])
        if names != want:
            self.viol("index-levels-not-as-requested", step, {"expected": want, "got": names})
            return
        oa, ob = mi_opts_of(fa), mi_opts_of(fb)
        if step["append"] and oa is not None:
            run.count("KEEP:multiindex_options")
            d = F.diff(oa, ob, "$.index")
            if d:
                self.viol("multiindex-options-changed", step, {"diff": d},
                          attr=diff_attr(d))
        for a, b in zip(old[:keep_n], new[:keep_n]):
            run.count("KEEP:existing_level")
            cd = comp_diff(a, b)
            if cd:
                self.viol("untouched-attribute-changed", step,
                          {"where": f"existing level {a.get('name')}", "diff": cd[1]},
                          attr=cd[0])
        ca = cols_of(fa)
        for k, lv in zip(step["keys"], new[keep_n:]):
            src = ca[repr(k)]
            for a in lv:
                if a == "__class__" or attr_name(a) in SHARED_ONLY:
                    continue
                run.count("ATTR:set_index:evaluated")
                if a not in src:
                    continue
                d = F.diff(src[a], lv[a], f"$.{a}")
                if d:
                    self.lost_at_set.add(attr_name(a))
                    self.viol("set_index-attribute-not-carried", step,
                              {"column": k, "diff": d}, attr=attr_name(a))

    def index_after_reset(self, step, fa, fb, level):
        run = self.run
        old, new = levels_of(fa), levels_of(fb)
        remaining = [lv for lv in old if lv.get("name") not in level]
        run.count("ATTR:reset_index:level_names")
        if [lv.get("name") for lv in new] != [lv.get("name") for lv in remaining]:
            self.viol("index-levels-not-as-requested", step,
                      {"expected": [lv.get("name") for lv in remaining],
                       "got": [lv.get("name") for lv in new],
                       "old_levels": [lv.get("name") for lv in old]})
            return
        if len(remaining) > 1:
            run.count("KEEP:multiindex_options")
            d = F.diff(mi_opts_of(fa), mi_opts_of(fb), "$.index")
            if d:
                self.viol("multiindex-options-changed", step, {"diff": d},
                          attr=diff_attr(d))
        # MultiIndex(coerce=True) dissolved into one plain Index: whether its
        # coerce option is folded into the remaining level is not judged
        folded = ()
        if len(old) > 1 and len(remaining) == 1 and (mi_opts_of(fa) or {}).get("_coerce"):
            folded = ("coerce",)
            run.count("undecided:coerce-of-level-left-by-dissolved-MultiIndex(coerce=True)")
        for a, b in zip(remaining, new):
            run.count("KEEP:remaining_level")
            cd = comp_diff(a, b, ignore=folded)
            if cd:
                self.viol("reset_index-remaining-level-changed", step,
                          {"level": a.get("name"), "diff": cd[1],
                           "index_kind": "multiindex" if len(old) > 1 else "index"},
                          attr=cd[0])
        if step["drop"]:
            return
        cb = cols_of(fb)
        for lv in old:
            if lv.get("name") not in level:
                continue
            col = cb.get(repr(lv.get("name")))
            if col is None:
                continue            # reported by the key-list monitor
            for a in lv:
                if a == "__class__":
                    continue
                run.count("ATTR:reset_index:evaluated")
                d = F.diff(lv[a], col.get(a), f"$.{a}")
                if d:
                    self.viol("reset_index-attribute-not-carried", step,
                              {"level": lv.get("name"), "diff": d,
                               "index_kind": "multiindex" if len(old) > 1 else "index"},
                              attr=attr_name(a))

    # ---- update_checks / set_checks on a component --------------------------
    def component_result(self, step, fp_schema_before, result):
        run = self.run
        run.count("COMPONENT:evaluated")
        src = cols_of(fp_schema_before)[repr(step["key"])]
        cd = comp_diff(src, F.fp(result), ignore=("checks",))
        if cd:
            self.viol("untouched-attribute-changed", step,
                      {"where": "update_checks result", "diff": cd[1]}, attr=cd[0])
        n = len(result.checks)
        if n != (0 if step["empty"] else 1):
            self.viol("update-not-applied", step, {"n_checks": n}, attr="checks")

    # ---- REJECT mirror ------------------------------------------------------
    def touched(self, step):
        m = step["m"]
        if m in ("remove_columns", "set_index"):
            return set(step["keys"])
        if m == "rename_columns":
            return set(step["map"])
        if m == "update_column":
            return {step["key"]}
        if m == "update_columns":
            return set(step["upd"])
        if m == "add_columns":       # re-defined keys
            return {c["name"] for c in P.add_cols(step)}
        return set()

    def pick_reject_probe(self, step, rng):
        st = self.st
        if step["m"] == "select_columns":
            cand = [k for k in step["keys"]]
        else:
            cand = [k for k in st.cols if k not in self.touched(step)]
        cand = [k for k in cand if not st.cols[k]["regex"]
                and st.cols[k].get("bad") is not None and k in st.frame.columns]
        if not cand:
            return None
        k = rng.choice(sorted(cand, key=str))
        return k, st.cols[k]["bad"]

    def reject_mirror(self, step, probe, S, S2, D_before, cols_before):
        run, st = self.run, self.st
        k, bad = probe
        try:
            if st.backend == "polars":
                import polars as pl
                vals = D_before[k].to_list()
                if cols_before[k]["dtype"] == "dt":
                    import datetime
                    bad = datetime.datetime.fromisoformat(bad)
                vals[-1] = bad
                Db = D_before.with_columns(pl.Series(k, vals, dtype=D_before[k].dtype))
            else:
                Db = D_before.copy()
                Db.iloc[-1, list(Db.columns).index(k)] = (
                    __import__("pandas").Timestamp(bad)
                    if cols_before[k]["dtype"] == "dt" else bad)
        except Exception as e:
            run.count(f"REJECT:probe_not_buildable:{type(e).__name__}")
            return
        if needs_lazy(S) or needs_lazy(S2):
            run.count("undecided:REJECT-drop_invalid_rows-in-play")
            return
        before = validate(S, Db)
        if before.kind not in ("SchemaError", "SchemaErrors") or not any(
                str(e.column) == str(k) and e.reason == "DATAFRAME_CHECK"
                for e in before.errors):
            run.count("undecided:REJECT-original-did-not-reject-on-that-column")
            return
        tmp = P.State.__new__(P.State)
        tmp.__dict__.update(backend=st.backend, frame=Db, cols=copy.deepcopy(cols_before),
                            schema=S, spec=st.spec, level_dtype=dict(st.level_dtype),
                            counter=0, numeric_only=st.numeric_only,
                            frame_dtype=st.frame_dtype)
        try:
            P.apply_data(step, tmp, S2)
        except Exception as e:
            run.count(f"REJECT:mirror_op_failed:{type(e).__name__}")
            return
        after = validate(S2, tmp.frame)
        run.count("REJECT:evaluated")
        if after.kind == "ok":
            self.viol("constraint-of-untouched-column-lost", step,
                      {"column": k, "bad_value": bad,
                       "before": [[e.reason, str(e.column), str(e.check)]
                                  for e in before.errors][:4]})
        else:
            run.count("REJECT:still_rejected")

    # ---- RELAX: a cleared constraint is really gone --------------------------
    def relax(self, step, S, S2, D, cols_before):
        """update(checks=None / []) and update(dtype=None): a frame that S
        rejects *only* because of the cleared constraint of that column is
        accepted by update(S) (the update leaves frames as they are)."""
        run, st = self.run, self.st
        upd = {step["key"]: step["kw"]} if step["m"] == "update_column" else step["upd"]
        for k, kw in upd.items():
            no_checks, no_dtype = cleared(kw, "checks"), cleared(kw, "dtype")
            if not (no_checks or no_dtype):
                continue
            if cols_before[k]["regex"] or k not in list(D.columns):
                run.count("undecided:RELAX-regex-key")
                continue
            if needs_lazy(S) or needs_lazy(S2):
                run.count("undecided:RELAX-drop_invalid_rows-in-play")
                continue
            col = S.columns[k]
            dt = cols_before[k]["dtype"]
            if no_dtype:
                # values of another kind: only the dtype requirement (and the
                # checks / parsers written for the old kind) can object
                if not (no_checks or not col.checks) or \
                        not (cleared(kw, "parsers") or not getattr(col, "parsers", None)) \
                        or st.frame_dtype or st.numeric_only \
                        or getattr(S, "dtype", None) is not None:
                    run.count("undecided:RELAX-dtype-other-constraints-remain")
                    continue
                other = "int" if dt == "str" else "str"
                what, vals, odt = "dtype", list(G.POOL[other]), other
            else:
                bad = cols_before[k].get("bad")
                if bad is None:
                    run.count("undecided:RELAX-no-violating-value-known")
                    continue
                vals = list(G.POOL[dt])
                vals[-1] = bad
                what, odt = "checks", dt
            try:
                # S judges the frame as it was, update(S) the mirrored frame
                # (another column of the same request may have been cast)
                Db = with_values(st.backend, D, k, odt, vals)
                Db2 = with_values(st.backend, st.frame, k, odt, vals)
            except Exception as e:
                run.count(f"RELAX:probe_not_buildable:{type(e).__name__}")
                continue
            before = validate(S, Db, lazy=True)
            reasons = {"checks": ("DATAFRAME_CHECK",),
                       "dtype": ("WRONG_DATATYPE", "DATATYPE_COERCION", "DATAFRAME_CHECK",
                                 "CHECK_ERROR")}[what]
            if what == "checks" and (getattr(S, "checks", None) or []):
                # a dataframe-level check that rejects the violating value too is
                # not a constraint of that column and stays after the update; the
                # normalised error list below does not tell the two apart reliably
                # (thorough tier, seed 1: one case in 60 000) -> not judged
                run.count("undecided:RELAX-dataframe-level-checks-present")
                continue
            if before.kind != "SchemaErrors" or not before.errors or not all(
                    str(e.column) == str(k) and e.reason in reasons
                    for e in before.errors):
                run.count(f"undecided:RELAX-{what}-original-rejects-not-only-for-that")
                continue
            after = validate(S2, Db2)
            run.count("RELAX:evaluated")
            run.count(f"RELAX:{what}-cleared")
            run.count(f"RELAX:{st.backend}")
            if after.kind != "ok":
                self.viol("cleared-constraint-still-enforced", step,
                          {"column": k, "cleared": what, "values": vals,
                           "outcome": after.kind,
                           "detail": [[e.reason, str(e.column), str(e.check)]
                                      for e in after.errors][:4]
                           if after.errors else repr(after.exc)[:300]}, attr=what)
            else:
                run.count("RELAX:accepted")

    # ---- INVERSE ------------------------------------------------------------
    def inverse(self, step, S, S2, fpS, rng):
        run, m = self.run, step["m"]
        law, back, modulo_order = None, None, False
        try:
            with warnings.catch_warnings():
                warnings.simplefilter("ignore")
                if m == "add_columns":
                    names = [c["name"] for c in P.add_cols(step)]
                    old = [n for n in names if n in S.columns]
                    law = "remove-after-replacing-add" if old else "remove-after-add"
                    back = S2.remove_columns(names)
                    if old:
                        # remove(add(S, k: C), k) == remove(S, k)
                        S = S.remove_columns(old)
                        fpS = F.fp(S)
                elif m == "rename_columns":
                    law = "rename-back"
                    back = S2.rename_columns({v: k for k, v in step["map"].items()})
                elif m == "set_index":
                    law = "reset-after-set"
                    if step["drop"]:
                        back = S2.reset_index(level=list(step["keys"]))
                        modulo_order = True
                    else:
                        back = S2.reset_index(level=list(step["keys"]), drop=True)
                    if not step["append"] and S.index is not None:
                        # the former index was replaced: nothing to invert to
                        run.count("undecided:INVERSE-set_index-replaced-an-index")
                        return
                elif rng.random() < 0.5:
                    law, back = "select-all", S.select_columns(list(S.columns))
        except Exception as e:
            self.viol(f"inverse-law:{law}", step,
                      {"exc": repr(e)[:300], "sig": H.exc_sig(e)})
            return
        if law is None:
            return
        run.count("INVERSE:evaluated")
        run.count(f"INVERSE:{law}")
        fb = F.fp(back)
        d = (F.diff(sorted_cols(fpS), sorted_cols(fb)) if modulo_order
             else F.diff(fpS, fb))
        try:
            eq = bool(back == S)
        except Exception as e:
            eq = f"raised {type(e).__name__}"
        if d or eq is not True:
            nlev = len(getattr(S2.index, "indexes", [S2.index])) if \
                getattr(S2, "index", None) is not None else 0
            nlev0 = len(levels_of(fpS))
            self.viol(f"inverse-law:{law}", step,
                      {"diff": d, "eq": eq,
                       "index_kind": "multiindex" if nlev > 1 else "index",
                       "orig_index_kind": "multiindex" if nlev0 > 1 else
                       ("index" if nlev0 else None),
                       "lost_at_set": sorted(self.lost_at_set)},
                      attr=diff_attr(d))
        else:
            run.count("INVERSE:held")

    # ---- INVALID ------------------------------------------------------------
    def invalid(self, step):
        import pandera.errors as pe
        run, st = self.run, self.st
        self.program.append(step)
        fp_before = F.fp(st.schema)
        run.count("INVALID:evaluated")
        run.count(f"INVALID:{step['what']}")
        try:
            with warnings.catch_warnings():
                warnings.simplefilter("ignore")
                res = P.apply_invalid(step, st)
        except (pe.SchemaInitError, ValueError) as e:
            run.count(f"INVALID:raised:{type(e).__name__}")
        except Exception as e:
            self.viol("invalid-request-wrong-exception", step,
                      {"exc": repr(e)[:300], "sig": H.exc_sig(e)})
        else:
            self.viol("invalid-request-returned-a-schema", step,
                      {"returned": type(res).__name__,
                       "columns": [str(k) for k in getattr(res, "columns", {})]})
        d = F.diff(fp_before, F.fp(st.schema))
        if d:
            self.viol("receiver-changed", step, {"diff": d})


def component_case(run, rng):
    """update_checks / set_checks on a stand-alone component schema."""
    import pandas as pd
    kind = rng.choice(["series", "column", "index", "pl_column"])
    backend = "polars" if kind == "pl_column" else "pandas"
    pa = P._pa(backend)
    dt = rng.choice(["int", "float", "str", "dt"] if backend == "pandas"
                    else ["int", "float", "str"])
    col = G.gen_column(rng, "a", dt, backend=backend, allow_custom=False, p_drop=0.15)
    spec = {"backend": backend, "kind": {"series": "series", "column": "column",
                                          "index": "index", "pl_column": "column"}[kind],
            "columns": [col]}
    if kind == "index":
        lv = G.gen_index_level(rng, "a", dt)
        comp = G.build_index([lv])
    elif kind == "pl_column":
        comp = G.build_column(col, "polars", name="a")
    else:
        comp = G.build(spec).schema
    method = rng.choice(["update_checks", "set_checks"])
    empty = rng.random() < 0.3
    new_spec = None if empty else G.gen_check(rng, dt, rich=False)
    new_checks = [] if empty else [G.build_check(pa, dt, new_spec, backend == "polars")]
    step = {"m": method, "component": kind, "dtype": dt, "empty": empty,
            "check": new_spec}
    case = Case(run, spec, None)
    case.program.append(step)
    run.count(f"request:{backend}:{method}:{kind}")
    fa = F.fp(comp)
    try:
        res = getattr(comp, method)(new_checks)
    except Exception as e:
        case.viol("applicable-request-raised", step, {"exc": repr(e)[:300]})
        return
    run.count("RECV:evaluated")
    run.count("COMPONENT:evaluated")
    d = F.diff(fa, F.fp(comp))
    if d:
        case.viol("receiver-changed", step, {"diff": d})
    else:
        cd = comp_diff(fa, F.fp(res), ignore=("checks",))
        if cd:
            case.viol("untouched-attribute-changed", step,
                      {"where": "update_checks result", "diff": cd[1]}, attr=cd[0])
    if len(res.checks) != len(new_checks):
        case.viol("update-not-applied", step, {"n_checks": len(res.checks)}, attr="checks")
    # MIRROR: the data the component accepted is accepted by the result
    if kind in ("series", "column") and not d:
        data = G._pd_series(dt, list(G.POOL[dt])).rename("a")
        if kind == "column":
            data = data.to_frame()
        if validate(comp, data).kind == "ok":
            run.count("MIRROR:evaluated")
            out = validate(res, data)
            if out.kind != "ok":
                case.viol("mirror-rejected", step, {"outcome": out.kind,
                                                    "detail": repr(out.exc)[:300]})
            else:
                run.count("MIRROR:accepted")
    run.case(canon_hash([spec, step]), True, sample={"component": kind, "column": col,
                                                    "step": step})


def one_case(run, rng):
    if rng.random() < 0.1:
        return component_case(run, rng)
    backend = "polars" if rng.random() < 0.3 else "pandas"
    spec = G.gen_spec(rng, backend=backend, kind="frame", allow_flavors=False,
                      allow_dtz=False, allow_groupby=False, p_drop=0.15,
                      min_cols=2, max_cols=4)
    if backend == "pandas" and len(spec.get("index") or []) > 1 and rng.random() < 0.8:
        spec["mi_opts"] = {"coerce": rng.random() < 0.5, "strict": rng.random() < 0.5,
                           "name": rng.choice([None, "MI"])}
        run.count("feature:multiindex_options")
    try:
        built = G.build(spec)
        apply_mi_opts(spec, built.schema)
    except Exception as e:
        run.count(f"build_error:{type(e).__name__}")
        return
    st = P.State(spec, built.schema)
    out = validate(st.schema, st.frame)
    if out.kind != "ok":
        run.count("undecided:initial-frame-not-accepted")
        run.case(canon_hash(spec), False)
        return
    case = Case(run, spec, st)
    n = rng.randint(1, 5)
    judged = 0
    for _ in range(n):
        if rng.random() < 0.3:
            case.invalid(P.gen_invalid(rng, st))
        step = P.gen_step(rng, st)
        ok = case.step(step, rng)
        if ok:
            judged += 1
        elif step["m"] not in ("update_checks", "set_checks"):
            break        # state unknown after a violation: stop this program
    run.case(canon_hash([spec, case.program]), n >= 2 and judged >= 1,
             sample={"spec": spec, "program": case.program})
    run.count(f"schema:{backend}")
    for c in spec["columns"]:
        for a in ("title", "description", "metadata", "default", "drop_invalid_rows",
                  "report_duplicates", "parsers", "regex"):
            if c.get(a):
                run.count(f"column_attr_set:{a}")
    if spec.get("index"):
        run.count("feature:index" if len(spec["index"]) == 1 else "feature:multiindex")


def run(run, ctx):
    n = N[ctx.tier]
    G.warm_up()
    for i in ctx.cases(n):
        rng = ctx.rng(PID, i)
        try:
            one_case(run, rng)
        except Exception as e:
            import traceback
            run.count(f"harness_error:{type(e).__name__}")
            run.note_inconclusive(
                f"case {i}: harness error {type(e).__name__}: {e} "
                f"{traceback.format_exc()[-300:]}"[:600])


def finalize(run, ctx):
    # floors ~ 1/4 of what the unchanged tree gives (quick: 1400 cases)
    k = 1 if ctx.tier == "quick" else 30
    for name, m in [("RECV:evaluated", 900), ("KEEP:evaluated", 800),
                    ("KEEP:untouched_column", 1600), ("KEEP:renamed_column", 100),
                    ("KEEP:updated_column_other_attrs", 380),
                    ("KEEP:existing_level", 20), ("KEEP:remaining_level", 5),
                    ("KEEP:multiindex_options", 5), ("feature:multiindex_options", 20),
                    ("MIRROR:evaluated", 800), ("MIRROR:accepted", 750),
                    ("MIRROR:set_index", 90), ("MIRROR:reset_index", 30),
                    ("MIRROR:add_columns", 80), ("MIRROR:remove_columns", 70),
                    ("MIRROR:select_columns", 80), ("MIRROR:rename_columns", 80),
                    ("MIRROR:update_column", 160), ("MIRROR:update_columns", 160),
                    ("REJECT:evaluated", 300), ("INVERSE:evaluated", 500),
                    ("INVERSE:remove-after-add", 45),
                    ("INVERSE:remove-after-replacing-add", 40),
                    ("INVERSE:rename-back", 80),
                    ("ADDED:new:evaluated", 80), ("ADDED:replacing:evaluated", 50),
                    ("ADDED:replacing:regex_key", 4),
                    ("UPDATED:none:evaluated", 110), ("UPDATED:falsy:evaluated", 90),
                    ("UPDATED:value:evaluated", 230), ("UPDATED:none:dtype", 40),
                    ("UPDATED:none:checks", 20), ("UPDATED:none:title", 15),
                    ("UPDATED:none:metadata", 15),
                    ("RELAX:evaluated", 15), ("RELAX:checks-cleared", 7),
                    ("RELAX:dtype-cleared", 7),
                    ("INVALID:update_columns_falsy_name", 15),
                    ("KEEP:empty_request:add_columns", 2),
                    ("KEEP:empty_request:remove_columns", 2),
                    ("KEEP:empty_request:rename_columns", 2),
                    ("KEEP:rename:joint_unique_names_a_renamed_column", 8),
                    ("KEEP:empty_request:update_column", 4),
                    ("KEEP:empty_request:update_columns", 4),
                    ("INVERSE:reset-after-set", 70), ("INVERSE:select-all", 250),
                    ("INVALID:evaluated", 250),
                    ("ATTR:set_index:evaluated", 1300),
                    ("ATTR:reset_index:evaluated", 350),
                    ("COMPONENT:evaluated", 25),
                    ("schema:pandas", 200), ("schema:polars", 90),
                    ("column_attr_set:drop_invalid_rows", 140),
                    ("column_attr_set:metadata", 600),
                    ("column_attr_set:parsers", 30)]:
        run.floors[name] = m * k


def replay(path):
    with open(path) as f:
        v = json.load(f)
    w = v["witness"]
    G.warm_up()
    spec, program = w["spec"], w["program"]
    import random
    r = new_run()
    built = G.build(spec)
    apply_mi_opts(spec, built.schema)
    st = P.State(spec, built.schema)
    case = Case(r, spec, st)
    rng = random.Random(0)
    for step in program:
        if step["m"] == "invalid":
            case.invalid(step)
        elif not case.step(step, rng) and step["m"] not in ("update_checks", "set_checks"):
            break
    if r.violations:
        x = r.violations[0]
        print(f"VIOLATION property={PID} replay={path}\n  {x['mechanism']} {x['kind']}")
        return 1
    print(f"[{PID}] replay: no violation")
    return 0
