"""C16 — a DataFrameModel means the same as the DataFrameSchema it describes.

Programs (class hierarchies) come from pvm/c16_gen.py.  For every class of
every program the monitor observes the real pandera code:

* STRUCT    fingerprint(M.to_schema()) == fingerprint(object-API schema built
            from the independently resolved flat description), modulo check
            function identity;
* VERDICT   M.validate(D) and schema.validate(D) give the same outcome
            (kind, parsed result bit for bit, failing cells / reasons), eager
            and lazy;
* STABLE    M.to_schema() twice -> equal (and fingerprint-equal) schemas;
* PARENTS   after defining / compiling / validating with any later class, the
            fingerprint (with function identity) of every earlier class's
            schema is unchanged;
* ATTR      Model.<field> is the public column name (alias respected);
* ORDER     a twin hierarchy built from the same program whose to_schema
            calls happen in another order (e.g. leaf first) gives the same
            schemas, and (always when an inherited method body reads through
            cls something a subclass overrides, else on a sample) every class
            of the twin validates a frame like its object-API schema;
* CLS       @check / @dataframe_check / @parser / @dataframe_parser methods
            are classmethods: during M.validate every one of them receives M
            as cls - also when M inherits the method - and bodies that read a
            class constant / helper classmethod through cls (overridden in
            subclasses) make VERDICT see which class they were bound to;
* AUX       the other public classmethods of a model (empty, get_metadata,
            to_json_schema, to_yaml, strategy, pydantic_validate) are
            interleaved with the compilations and validations - as the first
            call on a class, right after it was compiled (before its
            subclasses exist), between two validations: the model's schema,
            fingerprinted (with function identity) right before the call, is
            the same afterwards, so is every other class's, and the VERDICT
            comparisons that follow see the consequences.
"""
from __future__ import annotations

import copy

from .. import c16_gen as P, fingerprint as F, harness as H, snap as S
from ..evidence import Run, canon_hash

PID = "C16"
SHARDS = {"quick": 8, "thorough": 16}
SHARD_TIMEOUT = {"quick": 900, "thorough": 7200}
N = {"quick": 1200, "thorough": 36000}

MECH_NAME = "model-check-name-consumed-by-first-to_check"
MECH_PARSER = "model-overridden-parser-still-applied"
# an inherited @check / @dataframe_check / @parser / @dataframe_parser method
# is called with another model class of the hierarchy as ``cls`` than the
# model that validates
MECH_CLS = "model-inherited-method-called-with-other-model-class"


def new_run():
    return Run(
        PID, "exploration",
        "cases = generated DataFrameModel class trees (1-4 classes, depth <= 3, "
        "pandas or polars; plain annotations, Optional, Field keywords, alias "
        "(str, int and the falsy labels 0 / 0.0 / False / ''), "
        "regex, Config options + extras-as-checks, @check / @dataframe_check / "
        "@parser / @dataframe_parser methods (a third of the bodies read a "
        "class constant or helper classmethod _pvm_limit through cls, which "
        "subclasses that inherit the method override), field overrides (new Field, "
        "Field only, bare annotation only, renaming), method / Config overrides "
        "(incl. switching an inherited option off and setting an inherited "
        "None-default option - unique, title, description, name, dtype - back "
        "to None / [] / '')), Config.dtype; auxiliary classmethods (empty, "
        "get_metadata, to_json_schema, to_yaml, strategy, pydantic_validate) "
        "interleaved before the first to_schema, after compilation and "
        "between validations) "
        "x 2-3 generated frames per class (incl. rows repeated in the columns "
        "an ancestor declared jointly unique) x {eager, lazy} + 1 frame per "
        "class of a twin hierarchy compiled in another order; non-trivial = the "
        "tree has >= 2 classes or a custom method or a Config; distinct = "
        "canonical hash of the program",
        ["resolve() in pvm/c16_gen.py encodes python-inheritance semantics as "
         "documented in docs/source/dataframe_models.md",
         "plain annotations only (numpy 2.5 sandbox cannot build Series[...] / "
         "Index[...] models): no index fields",
         "fingerprint / snapshot code trusted",
         "not judged (counted as undecided:*): order of checks inside one "
         "component, which error eager mode reports first, column order after "
         "a field override, schema name when Config subclasses the parent's "
         "Config, Config.metadata, whether a regex-designated check applies "
         "to a non-string column name (match on str(name) or never: both "
         "accepted), what a "
         "failing validate leaves on the model's cached schema (C05), a class "
         "whose field override renames a column that an inherited @check / "
         "@parser still designates by the old name (pandera refuses it with "
         "SchemaInitError; only the ancestors' schemas are watched), what "
         "the auxiliary classmethods return or raise (only their effect on "
         "the schemas is judged)",
         "not generated: multiple inheritance / mixins, fields named like a "
         "DataFrameModel classmethod (example, empty, strategy ...), falsy "
         "check names and falsy Field titles / descriptions (a Config title "
         "/ description of '' only as the reset of an inherited one), "
         "Config.multiindex_* / from_format / to_format, example() "
         "(hypothesis draws are not seed-controlled)"])


# ------------------------------------------------------------ fingerprints
def _norm(t, drop_name=False, top=True):
    """Drop function identity (names of adapters / lambdas differ by
    construction) from a fingerprint tree."""
    if isinstance(t, dict):
        if "fn" in t and set(t) <= {"fn", "id"}:
            return "<fn>"
        if "partial" in t:
            return "<fn>"
        out = {}
        for k, v in t.items():
            if top and k == "metadata":
                continue            # Config.metadata -> schema.metadata: not judged
            if top and drop_name and k == "name":
                continue
            out[k] = _norm(v, top=False)
        return out
    if isinstance(t, list):
        return [_norm(x, top=False) for x in t]
    return t


def _sort_checks(t):
    """Same tree with every list of checks / parsers sorted (order of checks
    inside one component is not documented)."""
    if isinstance(t, dict):
        out = {}
        for k, v in t.items():
            v = _sort_checks(v)
            if k in ("checks", "parsers") and isinstance(v, list):
                v = sorted(v, key=repr)
            out[k] = v
        return out
    if isinstance(t, list):
        return [_sort_checks(x) for x in t]
    return t


def _sort_columns(t):
    t = dict(t)
    c = t.get("columns")
    if isinstance(c, dict) and "__dict_items__" in c:
        t["columns"] = {"__dict_items__": sorted(c["__dict_items__"], key=repr)}
    return t


def struct_compare(run, schema_m, schema_s, flat):
    """None when equal (modulo the undecided regions), else the first
    differing path."""
    a = _norm(F.fp(schema_m, ident=False), drop_name=not flat["name_decided"])
    b = _norm(F.fp(schema_s, ident=False), drop_name=not flat["name_decided"])
    d = F.diff(a, b)
    if d is None:
        return None
    a2, b2 = _sort_checks(a), _sort_checks(b)
    d2 = F.diff(a2, b2)
    if d2 is None:
        run.count("undecided:check-order-inside-component")
        return None
    if not flat["order_decided"]:
        d3 = F.diff(_sort_columns(a2), _sort_columns(b2))
        if d3 is None:
            run.count("undecided:column-order-after-field-override")
            return None
    return d2


def align_parser_order(run, flat, schema_m, backend):
    """The order in which several parser methods of one component (two
    @dataframe_parser methods, two @parser methods on one column; own or
    inherited) are applied is not documented for models, and parsers need not
    commute.  Once the structures are known to agree modulo that order, the
    description takes the model's order, so that the verdict comparison judges
    everything but the order."""
    if backend != "pandas":
        return

    def reorder(items, parsers):
        pos = {}
        for k, p in enumerate(parsers):
            pos.setdefault(p.name, k)
        if len(items) < 2 or any(it["name"] not in pos for it in items):
            return items
        out = sorted(items, key=lambda it: pos[it["name"]])
        if [it["name"] for it in out] != [it["name"] for it in items]:
            run.count("undecided:parser-order-inside-component")
        return out

    flat["df_parsers"] = reorder(flat["df_parsers"], schema_m.parsers or [])
    for col in flat["columns"]:
        cm = schema_m.columns.get(col["name"])
        if cm is not None:
            col["parsers"] = reorder(col["parsers"], cm.parsers or [])


# ------------------------------------------------ known-defect expectations
MECH_FIELDSET = "model-check-fieldinfo-designations-collapse-in-set"
MECH_REGEX_NONSTR = "model-regex-check-on-non-str-field-name"


def toggles(prog, i, flat):
    """Candidate explanations: each toggle rewrites the documented flat
    description into what ONE known defect mechanism predicts.  Used only to
    attribute an observed difference to a mechanism, never to excuse it."""
    out = []
    ch = P.chain(prog, i)[::-1]               # nearest class first

    # (a) BaseCheckInfo.to_check pops "name" from the check_kwargs shared by
    # every class that inherits the method: whoever compiles it second sees
    # the method name instead of the explicit name
    methods = set()
    for col in flat["columns"]:
        methods |= {cc["method"] for cc in col["custom_checks"]
                    if cc["explicit_name"]}
    methods |= {cc["method"] for cc in flat["df_checks"] if cc["explicit_name"]}
    for m in sorted(methods):
        def f(fl, m=m):
            for col in fl["columns"]:
                for cc in col["custom_checks"]:
                    if cc["method"] == m:
                        cc["name"] = m
            for cc in fl["df_checks"]:
                if cc["method"] == m:
                    cc["name"] = m
        out.append((MECH_NAME, f))

    # (b) _collect_parser_infos does not skip overridden method names
    seen = {}
    for ci in ch:
        for kind in ("parsers", "df_parsers"):
            for d in prog["classes"][ci][kind]:
                seen.setdefault(d["method"], []).append(d)
    if any(len(v) > 1 for v in seen.values()):
        def f(fl):
            for col in fl["columns"]:
                col["parsers"] = []
            fl["df_parsers"] = []
            for ci in ch:
                c = prog["classes"][ci]
                for d in c["parsers"]:
                    for col in fl["columns"]:
                        if col["name"] in d["targets"]:
                            col["parsers"].append(
                                {"name": d["method"], "fn": d["fn"],
                                 "title": "%s:%s" % (d["method"], d["fn"]),
                                 "limit": fl.get("limit")})
                for d in c["df_parsers"]:
                    fl["df_parsers"].append({"name": d["method"], "fn": d["fn"],
                                             "limit": fl.get("limit")})
        out.append((MECH_PARSER, f))

    # (c) pa.check(<FieldInfo>, <FieldInfo>) stores set(fields); inside a
    # class body FieldInfo.name is still None (no alias, __set_name__ not yet
    # called), so alias-less designations compare equal and collapse to one
    defs = {}
    for ci in ch[::-1]:
        c = prog["classes"][ci]
        for d in c["checks"]:
            defs[d["method"]] = (d, c)
    for m, (d, c) in sorted(defs.items()):
        if d["by"] != "field" or len(d["targets"]) < 2:
            continue
        alias = {f["attr"]: f["alias"] for f in c["fields"]}
        plainattrs = [a for a in d["targets"] if alias.get(a) is None]
        if len(plainattrs) < 2:
            continue
        for keep in plainattrs:
            def f(fl, m=m, drop=[a for a in plainattrs if a != keep]):
                for col in fl["columns"]:
                    if col["_attr"] in drop:
                        col["custom_checks"] = [
                            cc for cc in col["custom_checks"]
                            if cc["method"] != m]
            out.append((MECH_FIELDSET, f))
    return out


def explain(run, prog, i, flat, schema_m, backend):
    """-> (mechanisms, schema that reproduces the model's structure) or
    (None, None) when no combination of known mechanisms explains it."""
    import itertools
    tg = toggles(prog, i, flat)[:7]
    for k in range(1, len(tg) + 1):
        for combo in itertools.combinations(tg, k):
            f = copy.deepcopy(flat)
            for _, fn in combo:
                fn(f)
            try:
                s2 = P.build_schema(f, backend)
            except Exception:
                continue
            probe = Run(PID, "", "")
            if struct_compare(probe, schema_m, s2, f) is None:
                return sorted({m for m, _ in combo}), f
    return None, None


# ------------------------------------------------------------------ verdict
def _errkey(e, with_index):
    cells = None if e.cells is None else sorted(map(repr, e.cells))
    k = (e.reason, repr(e.column), e.check, cells, repr(e.scalar), e.context)
    return k + ((e.check_index,) if with_index else ())


def outcome_sig(o, with_index=False):
    if o.kind == "ok":
        return ("ok", S.snap(o.result))
    if o.kind == "exc":
        return ("exc", type(o.exc).__name__)
    return (o.kind, sorted(map(repr, (_errkey(e, with_index) for e in o.errors))))


def brief_outcome(o):
    if o.kind == "ok":
        return {"kind": "ok", "result": repr(o.result)[:300]}
    if o.kind == "exc":
        return {"kind": "exc", "exc": repr(o.exc)[:300], "sig": H.exc_sig(o.exc)}
    return {"kind": o.kind,
            "errors": [list(map(repr, _errkey(e, True))) for e in o.errors][:8]}


class _Sugar:
    """Model(df) - the documented shorthand for Model.validate(df)."""

    def __init__(self, model):
        self.model = model

    def validate(self, obj, **kw):
        return self.model(obj, **kw)


def compare_validate(run, model, flat_s, table, backend, lazy, tag,
                     sugar=False):
    if sugar:
        run.count("validate_via_Model(df)")
        model = _Sugar(model)
    # the object schema is rebuilt for every call so that whatever a failing
    # validate leaves behind on a schema (C05) cannot cascade into this check
    a = H.run_validate(model, P.make_data(table, backend), lazy=lazy)
    b = H.run_validate(P.build_schema(flat_s, backend),
                       P.make_data(table, backend), lazy=lazy)
    run.count(f"validate_pair:{backend}:{'lazy' if lazy else 'eager'}")
    run.count(f"outcome:{b.kind}")
    for e in b.errors:
        run.count(f"reject_reason:{e.reason}")
    sa, sb = outcome_sig(a), outcome_sig(b)
    if sa == sb:
        run.count("verdict_equal")
        run.count("verdict_equal:" + tag)
        if outcome_sig(a, True) == outcome_sig(b, True):
            run.count("verdict_equal_incl_check_index")
        return None
    if a.kind == b.kind and a.kind in ("SchemaError",) and not lazy:
        # eager mode reports the first failing check; which check runs first
        # inside one component is not documented
        run.count("undecided:eager-first-error-differs")
        return None
    return {"lazy": lazy, "model": brief_outcome(a), "schema": brief_outcome(b)}


def classify_raise(prog, i, e):
    sig = H.exc_sig(e)
    if sig == "TypeError@api/dataframe/model.py:_regex_filter":
        flat = P.resolve(prog, i)
        nonstr = any(not isinstance(c["name"], str) for c in flat["columns"])
        rx = any(d["regex"] for ci in P.chain(prog, i)
                 for d in prog["classes"][ci]["checks"])
        if nonstr and rx:
            return MECH_REGEX_NONSTR
    return None


# ------------------------------------------------- auxiliary classmethods
# Public classmethods of a model other than to_schema / validate.  None of
# them is documented to change what the model means, and the statement makes
# to_schema stable and the verdict a function of the class definition alone:
# they are interleaved with the compilations and validations, and the
# model's schema is fingerprinted around every call.  What they return (or
# raise: polars has no empty / strategy) is not this property's subject.
AUX_OPS = {
    "pandas": ["empty", "empty", "get_metadata", "to_json_schema", "to_yaml",
               "strategy", "pydantic_validate"],
    "polars": ["empty", "get_metadata", "to_json_schema", "to_yaml",
               "strategy", "pydantic_validate"],
}


def aux_call(cls, op):
    import warnings
    with warnings.catch_warnings():
        warnings.simplefilter("ignore")
        if op == "strategy":
            return cls.strategy(size=3)
        if op == "pydantic_validate":
            return cls.pydantic_validate(cls)
        return getattr(cls, op)()


def aux_mechanism(op):
    return "model-%s-modifies-cached-schema" % op


# ---------------------------------------------------------------------- case
def _cleanup(classes):
    try:
        from pandera.api.dataframe.model import MODEL_CACHE
        for c in classes:
            MODEL_CACHE.pop(c, None)
    except Exception:
        pass


def one_case(run, rng, backend=None, prog=None):
    backend = backend or ("pandas" if rng.random() < 0.6 else "polars")
    prog = prog or P.gen_program(rng, backend)
    backend = prog["backend"]
    variant = rng.randrange(3)
    ncls = len(prog["classes"])
    nontrivial = ncls >= 2 or any(
        c["checks"] or c["df_checks"] or c["parsers"] or c["config"]
        for c in prog["classes"])
    run.case(canon_hash(prog), nontrivial,
             sample={"program": prog} if ncls >= 2 else None)
    run.count(f"backend:{backend}")
    run.count(f"classes:{ncls}")
    flats = [P.resolve(prog, i) for i in range(ncls)]
    for c in prog["classes"]:
        depth = len(P.chain(prog, prog["classes"].index(c)))
        run.count(f"class_depth:{depth}")
        ci = prog["classes"].index(c)
        inh_cols = {x["_attr"]: x for x in flats[c["parent"]]["columns"]} \
            if c["parent"] is not None else {}
        for f in c["fields"]:
            prev = inh_cols.get(f["attr"])
            run.count("field:" + ("override" if prev is not None else "new"))
            if prev is not None:
                if not f["has_field"]:
                    run.count("field:override:bare-annotation")
                    if prev["_has_field_opts"]:
                        run.count("field:override:bare-annotation-drops-Field-options")
                if not P.same_label(prev["name"], P._colname(f)):
                    run.count("field:override:renames-column")
            if not f["ann"]:
                run.count("field:field-only-override")
            if f["alias"] is not None:
                run.count("field:alias" + (":int" if isinstance(f["alias"], int) else ""))
                if not f["alias"]:
                    run.count("field:alias:falsy")
                    run.count("field:alias:falsy:" + backend)
                    run.count("field:alias:falsy:%r" % (f["alias"],))
            if f["regex"]:
                run.count("field:regex")
            if f["optional"]:
                run.count("field:optional")
            if not f["has_field"]:
                run.count("field:bare-annotation")
            for k in f["checks"]:
                run.count("field_kw:" + k["kind"])
                if "flags" in k["args"]:
                    run.count("field_kw:compiled-pattern")
            for k in ("nullable", "unique", "coerce"):
                if f[k]:
                    run.count("field_kw:" + k)
            if f["default"] is not None:
                run.count("field_kw:default")
        inh = set()
        for a in P.chain(prog, prog["classes"].index(c))[:-1]:
            for kind in ("checks", "df_checks", "parsers", "df_parsers"):
                inh |= {d["method"] for d in prog["classes"][a][kind]}
        for kind in ("checks", "df_checks", "parsers", "df_parsers"):
            for d in c[kind]:
                run.count(f"method:{kind}:" + ("override" if d["method"] in inh else "new"))
                if P.cls_dep(d.get("pred")) or P.cls_dep(d.get("fn")):
                    run.count(f"method:{kind}:body-reads-cls")
        if c.get("limit") is not None:
            run.count("class_constant:" + ("override" if c["parent"] is not None
                      and flats[c["parent"]]["limit"] is not None else "new"))
        for d in c["checks"]:
            if d["regex"]:
                run.count("method:check:regex")
            if d["by"] == "field":
                run.count("method:check:by-fieldinfo")
            if d["element_wise"]:
                run.count("method:check:element_wise")
        if c["config"]:
            run.count("config:" + c["config"]["style"])
            for k, v in c["config"]["options"].items():
                run.count("config_opt:" + k)
                if v is False and c["parent"] is not None and \
                        flats[c["parent"]]["options"].get(k):
                    run.count("config_opt:switched-off-in-subclass")
                if k in P.NONE_DEFAULT_OPTS and not v:
                    run.count("config_opt:explicit-None-or-falsy")
                    if c["parent"] is not None and \
                            flats[c["parent"]]["options"].get(k):
                        run.count("config_opt:reset-in-subclass")
                        run.count("config_opt:reset-in-subclass:" + k)
                        run.count("config_opt:reset-in-subclass:%s:%s"
                                  % (backend, c["config"]["style"]))
                        run.count("config_opt:reset-in-subclass:to:%r" % (v,))
                        if len(P.chain(prog, ci)) >= 3:
                            run.count("config_opt:reset-in-subclass:depth3")
            for k in c["config"]["extras"]:
                run.count("config_extra:" + k)

    # the input classes the repaired defects live in
    for i, fl in enumerate(flats):
        ccs = [cc for col in fl["columns"] for cc in col["custom_checks"]]
        if any(cc["explicit_name"] and cc["inherited"]
               for cc in ccs + fl["df_checks"]):
            run.count("class:inherits-explicitly-named-check")
        if any(d["by"] == "field" and len(d["targets"]) >= 2
               for d in prog["classes"][i]["checks"]):
            run.count("class:check-designates-several-fieldinfos")
        if any(not isinstance(col["name"], str) for col in fl["columns"]) \
                and any(d["regex"] for ci in P.chain(prog, i)
                        for d in prog["classes"][ci]["checks"]):
            run.count("class:regex-check-and-non-str-column-name")
        if fl["_cls_dep"]:
            run.count("class:has-method-reading-cls")
            run.count("class:has-method-reading-cls:"
                      + prog.get("limit_style", "const"))
        if fl["cls_dep_inherited"]:
            # the input class of C16-mut7: an inherited method whose body
            # reads, through cls, something this class (or an ancestor nearer
            # than the defining one) overrides
            run.count("class:inherits-method-reading-cls-and-overrides-constant")
            run.count("class:inherits-method-reading-cls-and-overrides-constant:"
                      + backend)
            for m, _ in fl["cls_dep_inherited"]:
                run.count("class:inherits-method-reading-cls-and-overrides-"
                          "constant:" + fl["_methods"][m])
    log = []
    cls_seen = set()
    recorded = {}          # class index -> (schema object, ident fingerprint)
    witness0 = {"program": prog, "ann_variant": variant}
    struct_mech = {}       # class index -> (mechs, reproducing schema) | "unknown"

    def check_unchanged(upto, when):
        for j, (sj, fpj) in recorded.items():
            if j > upto:
                continue
            try:
                now = h1[j].to_schema()
            except Exception as e:
                run.violation("to_schema-raises-later",
                              {**witness0, "class": j, "when": when,
                               "exc": repr(e)[:300]}, None)
                continue
            d = F.diff(fpj, F.fp(now, ident=True))
            anc = when[1] is not None and j in P.chain(prog, when[1])[:-1]
            run.count("ancestor_unchanged_checked" if anc
                      else "other_class_unchanged_checked")
            if d or now is not sj and now != sj:
                run.violation("schema-of-earlier-class-changed",
                              {**witness0, "class": j, "when": when,
                               "is_ancestor": anc, "diff": d}, None)

    h1 = []
    aux_changed = {}       # class index -> mechanism of the op that changed it

    def aux(i, when, exclude_self=False):
        """One auxiliary classmethod on class i; the schema of class i (as it
        is right before the call) and of every other class must survive."""
        op = rng.choice(AUX_OPS[backend])
        try:
            before = F.fp(h1[i].to_schema(), ident=True)
        except Exception:
            return
        try:
            aux_call(h1[i], op)
            run.count("aux_op:%s:returned" % op)
        except Exception as e:
            run.count("undecided:aux_op:%s:raises:%s" % (op, type(e).__name__))
        run.count("aux_op_schema_unchanged_checked")
        run.count("aux_op_schema_unchanged_checked:" + when)
        run.count("aux_op_schema_unchanged_checked:%s:%s" % (backend, op))
        now = fp_now = None
        try:
            now = h1[i].to_schema()
            fp_now = F.fp(now, ident=True)
            d = F.diff(before, fp_now)
        except Exception as e:
            d = "to_schema raises %r" % (e,)
        if d:
            aux_changed[i] = aux_mechanism(op)
            run.violation("to_schema-changed-by-model-classmethod",
                          {**witness0, "class": i, "op": op, "when": when,
                           "diff": d}, aux_mechanism(op))
            if i in recorded and fp_now is not None:
                recorded[i] = (now, fp_now)      # reported once, here
        keep = recorded.pop(i, None) if exclude_self else None
        check_unchanged(ncls, ("aux:" + op, i))
        if keep is not None:
            recorded[i] = keep

    def on_defined(i, cls):
        h1.append(cls)
        check_unchanged(i - 1, ("defined", i))
        # ATTR: "the alias is respected when using the class attribute to get
        # the underlying column name" (docs, Aliases)
        for col in flats[i]["columns"]:
            try:
                got = getattr(cls, col["_attr"])
            except Exception as e:
                got = e
            run.count("class_attribute_checked")
            if col["_alias"] is not None:
                run.count("class_attribute_checked:aliased")
            if not P.same_label(got, col["name"]):
                run.violation("class-attribute-is-not-the-column-name",
                              {**witness0, "class": i, "attr": col["_attr"],
                               "got": repr(got), "expected": repr(col["name"])},
                              None)
        if flats[i]["dangling"]:
            # a field override renamed a column that an inherited @check /
            # @parser still designates by its old name: pandera refuses the
            # class (SchemaInitError); the documentation does not say what
            # such a class means -> exercised (the ancestors must not change),
            # not judged
            try:
                cls.to_schema()
                run.count("undecided:override-renamed-a-designated-column:compiles")
            except Exception as e:
                run.count("undecided:override-renamed-a-designated-column:"
                          + type(e).__name__)
            check_unchanged(i - 1, ("compiled", i))
            return
        if rng.random() < 0.12:
            # an auxiliary classmethod is the first thing ever called on the
            # class (it compiles the schema itself); STRUCT judges the result
            op = rng.choice(AUX_OPS[backend])
            try:
                aux_call(cls, op)
                run.count("aux_op_before_first_to_schema:returned")
            except Exception as e:
                run.count("undecided:aux_op:%s:raises:%s" % (op, type(e).__name__))
            run.count("aux_op_before_first_to_schema")
            run.count("aux_op_before_first_to_schema:%s:%s" % (backend, op))
        try:
            s = cls.to_schema()
        except Exception as e:
            run.violation("to_schema-raises",
                          {**witness0, "class": i, "exc": repr(e)[:400],
                           "sig": H.exc_sig(e)},
                          classify_raise(prog, i, e))
            recorded.pop(i, None)
            return
        fp1 = F.fp(s, ident=True)
        s2 = cls.to_schema()
        run.count("to_schema_stable_checked")
        d = F.diff(fp1, F.fp(s2, ident=True))
        if d or not (s2 == s):
            run.violation("to_schema-not-stable",
                          {**witness0, "class": i, "diff": d,
                           "eq": bool(s2 == s)}, None)
        recorded[i] = (s, fp1)
        check_unchanged(i - 1, ("compiled", i))
        if rng.random() < 0.35:
            aux(i, "after-compile")

    try:
        P.build_models(prog, log=log, on_defined=on_defined, ann_variant=variant)
    except Exception as e:
        run.count("build_error:" + type(e).__name__)
        run.violation("model-definition-raises",
                      {**witness0, "exc": repr(e)[:400], "sig": H.exc_sig(e)}, None)
        _cleanup(h1)
        return

    # STRUCT per class
    objs = {}
    for i in recorded:
        flat = flats[i]
        if not flat["name_decided"]:
            # Config subclassing the parent's Config: schema name not judged
            run.count("undecided:schema-name-with-subclassed-Config")
            flat["name"] = recorded[i][0].name
        try:
            so = P.build_schema(flat, backend)
        except Exception as e:
            run.count("object_schema_build_error:" + type(e).__name__)
            continue
        objs[i] = so
        run.count(f"struct_compared:{backend}")
        d = struct_compare(run, recorded[i][0], so, flat)
        if d is not None and any(not isinstance(c["name"], str)
                                 for c in flat["columns"]):
            # regex-designated check vs a non-string column name: both
            # readings (match on str(name) / never match) are accepted
            alt = P.resolve(prog, i, nonstr_regex="skip")
            alt["name"] = flat["name"]
            try:
                so_alt = P.build_schema(alt, backend)
                if struct_compare(run, recorded[i][0], so_alt, alt) is None:
                    run.count("undecided:regex-check-on-non-str-column-name")
                    flats[i], objs[i], d = alt, so_alt, None
            except Exception:
                pass
        if d is None:
            run.count("struct_equal")
            align_parser_order(run, flats[i], recorded[i][0], backend)
            continue
        mechs, s2 = explain(run, prog, i, flat, recorded[i][0], backend)
        struct_mech[i] = (mechs, s2) if mechs else "unknown"
        if mechs:
            align_parser_order(run, s2, recorded[i][0], backend)
            align_parser_order(run, flats[i], recorded[i][0], backend)
        for m in (mechs or [None]):
            run.violation("to_schema-differs-from-object-schema",
                          {**witness0, "class": i, "flat": _brief_flat(flat),
                           "diff": d, "mechanisms": mechs}, m)

    # ORDER: twin hierarchy, to_schema in another order
    if ncls >= 2:
        try:
            log2 = []
            h2 = P.build_models(prog, log=log2, ann_variant=variant)
            order = list(range(ncls))
            twin_ok = []
            if rng.random() < 0.5:
                order.reverse()
            else:
                rng.shuffle(order)
            for j in order:
                if j not in objs:
                    continue
                try:
                    sj = h2[j].to_schema()
                except Exception:
                    run.count("twin_to_schema_raises(reported-for-h1)")
                    continue
                run.count("twin_order_compared")
                d = struct_compare(run, sj, objs[j], flats[j])
                if d is not None:
                    mechs, _ = explain(run, prog, j, flats[j], sj, backend)
                    for m in (mechs or [None]):
                        run.violation(
                            "to_schema-depends-on-compilation-order",
                            {**witness0, "class": j, "order": order, "diff": d,
                             "mechanisms": mechs}, m)
                elif j not in struct_mech:
                    twin_ok.append(j)
            # VERDICT on the twin: what a class means does not depend on
            # which class of the hierarchy was compiled first (every class of
            # the twin is compiled by now, in ``order``).  Always when an
            # inherited method reads through cls something a subclass
            # overrides, else on a sample
            dep = any(fl["cls_dep_inherited"] for fl in flats)
            if dep or rng.random() < 0.25:
                for j in twin_ok:
                    try:
                        table, _ = P.gen_frame(rng, flats[j], backend)
                        P.make_data(table, backend)
                    except Exception as e:
                        run.count("frame_gen_error:" + type(e).__name__)
                        continue
                    log2.clear()
                    w = compare_validate(run, h2[j], flats[j], table, backend,
                                         True, "twin-order")
                    run.count("twin_order_verdict_compared")
                    if flats[j]["_cls_dep"]:
                        run.count("twin_order_verdict_compared:cls-dependent")
                    if order.index(j) > 0:
                        run.count("twin_order_verdict_compared:not-first-compiled")
                    if any(order.index(a) > order.index(j)
                           for a in P.chain(prog, j)[:-1]):
                        run.count("twin_order_verdict_compared:"
                                  "compiled-before-an-ancestor")
                    if any(order.index(k) < order.index(j)
                           for k in range(ncls)
                           if k != j and j in P.chain(prog, k)):
                        run.count("twin_order_verdict_compared:"
                                  "compiled-after-a-descendant")
                    if w:
                        foreign = [x for x in log2 if x[2] is not h2[j]
                                   and any(x[2] is h for h in h2)]
                        run.violation(
                            "verdict-depends-on-compilation-order",
                            {**witness0, "class": j, "order": order,
                             "table": table, "flat": _brief_flat(flats[j]),
                             "methods_called_with_other_class":
                             [[x[0], x[1], x[2].__name__] for x in foreign][:6],
                             **w}, MECH_CLS if foreign else None)
                    inspect_log(run, log2, h2[j], h2, backend,
                                {**witness0, "class": j, "order": order},
                                cls_seen, "twin")
            _cleanup(h2)
        except Exception as e:
            run.violation("twin-build-raises",
                          {**witness0, "exc": repr(e)[:300]}, None)

    # VERDICT per class
    for i in sorted(objs):
        flat = flats[i]
        own_unique = flat["options"].get("unique") or None
        aim = None
        for a in P.chain(prog, i)[:-1]:
            u = flats[a]["options"].get("unique") or None
            if u and u != own_unique:
                aim = u       # an ancestor's constraint this class changed
        for k in range(rng.choice([2, 2, 3])):
            if rng.random() < 0.3:
                aux(i, "between-validations", exclude_self=True)
            try:
                table, muts = P.gen_frame(rng, flat, backend, aim=aim)
                P.make_data(table, backend)
            except Exception as e:
                run.count("frame_gen_error:" + type(e).__name__)
                continue
            run.count("frames")
            for m in muts:
                run.count("mutation:" + str(m[0]))
                if m[0] == "dup_row":
                    run.count("mutation:dup_row:" + m[1])
            for lazy in (False, True):
                log.clear()
                sm = struct_mech.get(i)
                if i not in aux_changed and \
                        F.diff(recorded[i][1], F.fp(h1[i].to_schema(), ident=True)):
                    # an earlier (failing) validate left the model's cached
                    # schema modified - C05's subject, not this property's
                    run.count("undecided:model-schema-mutated-by-earlier-validate(C05)")
                    continue
                if sm is None:
                    w = compare_validate(run, h1[i], flats[i], table, backend,
                                         lazy, "struct-equal",
                                         sugar=(k == 1 and lazy))
                    if w:
                        # (after an auxiliary classmethod changed the schema,
                        # or with a custom method that received another class
                        # of the hierarchy as cls: the observable consequence
                        # of that mechanism)
                        foreign = [x for x in log if x[2] is not h1[i]
                                   and any(x[2] is h for h in h1)]
                        run.violation("verdict-differs",
                                      {**witness0, "class": i, "table": table,
                                       "flat": _brief_flat(flat),
                                       "after_aux": aux_changed.get(i),
                                       "methods_called_with_other_class":
                                       [[x[0], x[1], x[2].__name__]
                                        for x in foreign][:6], **w},
                                      aux_changed.get(i)
                                      or (MECH_CLS if foreign else None))
                elif sm == "unknown":
                    run.count("verdict_skipped_after_unexplained_struct_diff")
                else:
                    mechs, s2 = sm
                    # the defect's own prediction must explain everything ...
                    w2 = compare_validate(run, h1[i], s2, table, backend, lazy,
                                          "vs-defect-prediction")
                    if w2:
                        run.violation("verdict-differs",
                                      {**witness0, "class": i, "table": table,
                                       "note": "differs even from the schema "
                                       "that models the known mechanisms",
                                       "mechanisms": mechs, **w2}, None)
                    # ... and the difference to the documented meaning is the
                    # observable consequence of that mechanism
                    w = compare_validate(run, h1[i], flats[i], table, backend,
                                         lazy, "vs-documented")
                    if w:
                        for m in mechs:
                            run.violation("verdict-differs",
                                          {**witness0, "class": i, "table": table,
                                           "mechanisms": mechs, **w}, m)
                inspect_log(run, log, h1[i], h1, backend,
                            {**witness0, "class": i}, cls_seen, "h1")
        # what validation does to the validating model's own schema is C05's
        # business; here only the *other* classes are looked at
        keep = recorded.pop(i)
        check_unchanged(ncls, ("validated", i))
        try:
            s_now = h1[i].to_schema()
            recorded[i] = (s_now, F.fp(s_now, ident=True))
        except Exception:
            recorded[i] = keep
    _cleanup(h1)


def _model_base(backend):
    return P._ns(backend).DataFrameModel


def inspect_log(run, log, model, hierarchy, backend, witness, seen, where):
    """CLS: every custom method that ran during a validation of ``model``
    received ``model`` as its ``cls`` ("the method will be converted to a
    classmethod": an inherited classmethod called for a subclass receives the
    subclass).  -> the (kind, method, class name) triples that received
    another class."""
    foreign = []
    for kind, meth, cls in log:
        run.count("custom_method_called:" + kind)
        run.count("custom_method_cls_checked")
        run.count("custom_method_cls_checked:" + where)
        if cls is model:
            run.count("custom_method_cls_is_validating_model")
            continue
        foreign.append([kind, meth, getattr(cls, "__name__", repr(cls))])
        if (meth, id(cls), where) in seen:
            continue
        seen.add((meth, id(cls), where))
        if not (isinstance(cls, type)
                and issubclass(cls, _model_base(backend))):
            run.violation("check-method-received-non-model-cls",
                          {**witness, "method": meth, "where": where,
                           "received": repr(cls)}, None)
        else:
            run.violation("custom-method-received-other-model-class",
                          {**witness, "method": meth, "kind_of_method": kind,
                           "where": where, "validating": model.__name__,
                           "received": cls.__name__},
                          MECH_CLS if any(cls is h for h in hierarchy)
                          else None)
    return foreign


def _brief_flat(flat):
    return {"name": flat["name"], "options": flat["options"],
            "extras": flat["extras"],
            "columns": [{k: v for k, v in c.items() if not k.startswith("_")}
                        for c in flat["columns"]],
            "df_checks": flat["df_checks"], "df_parsers": flat["df_parsers"]}


def run(run, ctx):
    for i in ctx.cases(N[ctx.tier]):
        one_case(run, ctx.rng(PID, i))


# about 1/4 of the minimum the quick tier observes over seeds 0,1,2,3,12345 on
# a tree where the property holds; the thorough tier scales with its number
# of cases
FLOORS_QUICK = {
    "struct_compared:pandas": 450, "struct_compared:polars": 290,
    "struct_equal": 750, "to_schema_stable_checked": 750,
    "twin_order_compared": 700, "ancestor_unchanged_checked": 1900,
    "other_class_unchanged_checked": 900,
    "validate_pair:pandas:eager": 1050, "validate_pair:pandas:lazy": 1050,
    "validate_pair:polars:eager": 690, "validate_pair:polars:lazy": 690,
    "verdict_equal": 3500, "validate_via_Model(df)": 750,
    "field:override": 250, "field:alias": 490, "field:alias:int": 28,
    "field:regex": 85,
    "field:optional": 265, "method:checks:override": 170,
    "method:df_checks:override": 70, "method:parsers:override": 40,
    "method:check:by-fieldinfo": 100, "method:check:regex": 130,
    "config:subclass": 60, "config:plain": 350,
    "outcome:ok": 1450, "outcome:SchemaError": 850,
    "outcome:SchemaErrors": 880, "custom_method_called:check": 4500,
    "class_depth:3": 180,
    "class:inherits-explicitly-named-check": 130,
    "class:check-designates-several-fieldinfos": 9,
    "class:regex-check-and-non-str-column-name": 18,
    # input classes added for the seeded mutations C16-mut2 / C16-mut3
    "field:override:bare-annotation": 60,
    "field:override:bare-annotation-drops-Field-options": 55,
    "field:override:renames-column": 35,
    "field:alias:falsy": 35, "field:alias:falsy:pandas": 25,
    "field:alias:falsy:polars": 9,
    "config_opt:switched-off-in-subclass": 15,
    "class_attribute_checked": 2100, "class_attribute_checked:aliased": 880,
    "field_kw:compiled-pattern": 10,
    # input classes / relation added for the seeded mutations C16-mut4 (an
    # auxiliary classmethod changes the cached schema) and C16-mut6 (a
    # None-default Config option set back to None in a subclass)
    "aux_op_schema_unchanged_checked": 770,
    "aux_op_schema_unchanged_checked:after-compile": 260,
    "aux_op_schema_unchanged_checked:between-validations": 510,
    "aux_op_schema_unchanged_checked:pandas:empty": 130,
    "aux_op_schema_unchanged_checked:pandas:get_metadata": 60,
    "aux_op_schema_unchanged_checked:pandas:to_json_schema": 60,
    "aux_op_schema_unchanged_checked:pandas:to_yaml": 60,
    "aux_op_schema_unchanged_checked:pandas:strategy": 60,
    "aux_op_schema_unchanged_checked:pandas:pydantic_validate": 60,
    "aux_op_schema_unchanged_checked:polars:get_metadata": 44,
    "aux_op_schema_unchanged_checked:polars:to_json_schema": 44,
    "aux_op_schema_unchanged_checked:polars:to_yaml": 44,
    "aux_op_schema_unchanged_checked:polars:pydantic_validate": 44,
    "aux_op:empty:returned": 130, "aux_op:to_yaml:returned": 100,
    "aux_op:to_json_schema:returned": 110, "aux_op:strategy:returned": 60,
    "aux_op_before_first_to_schema": 80,
    "aux_op_before_first_to_schema:returned": 66,
    "config_opt:reset-in-subclass": 44,
    "config_opt:reset-in-subclass:unique": 11,
    "config_opt:reset-in-subclass:title": 9,
    "config_opt:reset-in-subclass:description": 9,
    "config_opt:reset-in-subclass:name": 9,
    "config_opt:reset-in-subclass:to:None": 38,
    "config_opt:reset-in-subclass:depth3": 22,
    "config_opt:reset-in-subclass:pandas:plain": 16,
    "config_opt:reset-in-subclass:pandas:subclass": 6,
    "config_opt:reset-in-subclass:polars:plain": 10,
    "config_opt:reset-in-subclass:polars:subclass": 5,
    "config_opt:dtype": 33,
    "mutation:dup_row": 149, "mutation:dup_row:aimed": 11,
    # input class / relations added for the seeded mutation C16-mut7 (an
    # inherited custom method bound to the model class compiled first):
    # bodies that read a class constant / helper classmethod through cls,
    # CLS relation, VERDICT on the twin hierarchy
    "class:has-method-reading-cls": 400,
    "class:has-method-reading-cls:const": 260,
    "class:has-method-reading-cls:classmethod": 130,
    "class:inherits-method-reading-cls-and-overrides-constant": 95,
    "class:inherits-method-reading-cls-and-overrides-constant:pandas": 60,
    "class:inherits-method-reading-cls-and-overrides-constant:polars": 30,
    "class:inherits-method-reading-cls-and-overrides-constant:check": 55,
    "class:inherits-method-reading-cls-and-overrides-constant:df_check": 35,
    "class:inherits-method-reading-cls-and-overrides-constant:parser": 4,
    "class:inherits-method-reading-cls-and-overrides-constant:df_parser": 8,
    "class_constant:override": 140,
    "method:checks:body-reads-cls": 220, "method:df_checks:body-reads-cls": 130,
    "method:parsers:body-reads-cls": 30, "method:df_parsers:body-reads-cls": 34,
    "custom_method_called:df_check": 1750, "custom_method_called:parser": 900,
    "custom_method_called:df_parser": 580,
    "custom_method_cls_checked": 8500, "custom_method_cls_checked:h1": 7400,
    "custom_method_cls_checked:twin": 1000,
    "twin_order_verdict_compared": 340,
    "twin_order_verdict_compared:cls-dependent": 240,
    "twin_order_verdict_compared:not-first-compiled": 225,
    "twin_order_verdict_compared:compiled-before-an-ancestor": 175,
    "twin_order_verdict_compared:compiled-after-a-descendant": 155,
}


def finalize(run, ctx):
    scale = N[ctx.tier] / N["quick"]
    for name, m in FLOORS_QUICK.items():
        run.floors[name] = int(m * scale)


def replay(path):
    import json
    import random
    with open(path) as f:
        w = json.load(f)
    prog = w["witness"]["program"]
    r = new_run()
    one_case(r, random.Random(0), prog=prog)
    for v in r.violations:
        print(v["kind"], v["mechanism"], "class", v["witness"].get("class"),
              v["witness"].get("diff") or "")
    rc = 1 if r.violations else 0
    ww = w["witness"]
    if "table" in ww and "lazy" in ww and not r.violations:
        # the frames above are fresh ones; also run the recorded frame
        i, backend = ww["class"], prog["backend"]
        h = P.build_models(prog, ann_variant=ww.get("ann_variant", 0))
        flat = P.resolve(prog, i)
        sm = h[i].to_schema()
        if not flat["name_decided"]:
            flat["name"] = sm.name
        if struct_compare(r, sm, P.build_schema(flat, backend), flat) is None:
            align_parser_order(r, flat, sm, backend)
        out = compare_validate(r, h[i], flat, ww["table"], backend,
                               ww["lazy"], "replay")
        if out:
            print("verdict-differs on the recorded frame", out)
            rc = 1
        _cleanup(h)
    return rc
