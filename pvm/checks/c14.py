"""C14 — an inferred schema accepts the data it was inferred from."""
from __future__ import annotations

import json
from fractions import Fraction

import numpy as np
import pandas as pd

from .. import c14_classify as K, c14_gen as G, snap as SN
from ..evidence import Run, canon_hash

PID = "C14"
SHARDS = {"quick": 6, "thorough": 16}
SHARD_TIMEOUT = {"quick": 600, "thorough": 1700}
N_RANDOM = {"quick": 900, "thorough": 24000}
# structured-index / derived-object family (c14_gen.derived_spec)
N_DERIVED = {"quick": 900, "thorough": 18000}


def new_run():
    return Run(
        PID, "exploration",
        "cases = pandas DataFrames / Series from pvm/c14_gen.py: a "
        "deterministic catalogue (every column class x {plain, some nulls, "
        "all null, empty} as frame and as series; every index shape x index "
        "class; frames without columns) followed by seeded random frames of "
        "1-4 columns x 0-5 rows with random index shapes, followed by the "
        "structured-index / derived-object family (catalogue + seeded random, "
        "0-8 rows): explicit RangeIndex (any start, step > 1, negative step, "
        "unaligned stop, empty, named incl. falsy names), regular "
        "DatetimeIndex / TimedeltaIndex with a positive or negative freq "
        "(also as a MultiIndex level), and objects that are 1-3 operations "
        "away from a built one (iloc slices incl. negative steps, positional "
        "take as permutation / sorted subset / with repeats, sort_index, "
        "sort_values, reset_index, one column put back into a frame); every "
        "case runs the "
        "real infer_schema, validate, to_yaml/from_yaml, validate; "
        "non-trivial = infer_schema returned a schema and validate was "
        "executed on the same object; distinct = canonical hash of the frame "
        "description",
        ["min / max of the data are recomputed outside pandas on Python "
         "ints / floats / Timestamps and compared with the inferred "
         "statistics as exact rationals",
         "returned values are compared by value (null == null); a changed "
         "dtype / representation with equal values is counted as undecided, "
         "the statement only speaks about values",
         "duplicate column labels and MultiIndex columns are not generated "
         "(a DataFrameSchema cannot express them); object columns of "
         "Decimal / datetime.time / bytes / Period values are not generated "
         "(outside the column kinds the statement lists)",
         "tightness is judged only for bounds that infer_schema produced "
         "and only for integer / float / Timestamp data (bool, timedelta, "
         "complex have no inferred or no ordered bound: counted, not judged)",
         "SeriesSchema has no YAML writer: the serialisation clause is "
         "evaluated for DataFrames only",
         "a failing frame is re-run one component at a time (each column "
         "alone, the index alone; for a derived object the same operations "
         "are applied to every part and a column alone gets a fresh default "
         "index) to attribute the failure; the mechanism key "
         "is a function of stage + data-derived flags of that component",
         "a SeriesSchema has no index component: for a Series the structured "
         "/ derived index is generated and validated with the object but "
         "there is no inferred index bound to judge (counted as undecided:"
         "series-index-is-not-part-of-a-SeriesSchema)",
         "derive operations that pandas itself refuses for the data at hand "
         "(sorting unorderable values) are skipped, not judged"])


# ---------------------------------------------------------------------------
# oracle pieces

def _isnull(v):
    try:
        r = pd.isna(v)
        return bool(r) if isinstance(r, (bool, np.bool_)) else False
    except Exception:
        return False


def _cells_equal(a, b):
    if _isnull(a) or _isnull(b):
        return _isnull(a) and _isnull(b)
    try:
        r = a == b
        return bool(r)
    except Exception:
        return repr(a) == repr(b)


def _seq_diff(a, b, what):
    a, b = list(a), list(b)
    if len(a) != len(b):
        return f"{what}: length {len(a)} -> {len(b)}"
    for i, (x, y) in enumerate(zip(a, b)):
        if isinstance(x, tuple) and isinstance(y, tuple):
            if len(x) != len(y) or not all(map(_cells_equal, x, y)):
                return f"{what}[{i}]: {x!r} -> {y!r}"
        elif not _cells_equal(x, y):
            return f"{what}[{i}]: {x!r} -> {y!r}"
    return None


def value_diff(before, after):
    """First value-level difference between two pandas objects, or None."""
    if type(before) is not type(after):
        return f"container {type(before).__name__} -> {type(after).__name__}"
    d = _seq_diff(before.index, after.index, "index")
    if d:
        return d
    if list(before.index.names) != list(after.index.names):
        return f"index names {before.index.names} -> {after.index.names}"
    if isinstance(before, pd.Series):
        if before.name != after.name and not (
                _isnull(before.name) and _isnull(after.name)):
            return f"name {before.name!r} -> {after.name!r}"
        return _seq_diff(before, after, "values")
    d = _seq_diff(before.columns, after.columns, "columns")
    if d:
        return d
    for i in range(before.shape[1]):
        d = _seq_diff(before.iloc[:, i], after.iloc[:, i],
                      f"column[{before.columns[i]!r}]")
        if d:
            return d
    return None


def _py(v):
    """Exact Python value of a numeric / datetime cell."""
    if isinstance(v, (bool, np.bool_)):
        return None
    if isinstance(v, (int, np.integer)):
        return int(v)
    if isinstance(v, (float, np.floating)):
        return float(v)
    if isinstance(v, pd.Timestamp):
        return v
    return None


def _exact(stat, m):
    if isinstance(m, pd.Timestamp) or isinstance(stat, pd.Timestamp):
        try:
            if isinstance(stat, pd.Timestamp) and isinstance(m, pd.Timestamp) \
                    and (stat.tz is None) != (m.tz is None):
                # time zone aware objects are validated (coerce=True) as time
                # zone naive UTC values: equality of the instants
                return stat.value == m.value
            return isinstance(stat, pd.Timestamp) and \
                isinstance(m, pd.Timestamp) and stat == m \
                and stat.value == m.value
        except Exception:
            return False
    try:
        return Fraction(stat) == Fraction(m)
    except (OverflowError, ValueError, TypeError):
        try:
            return bool(stat == m)
        except Exception:
            return False


def tightness(comp_schema, data):
    """[(check name, statistic, exact extreme, ok)] for inferred bounds."""
    out = []
    vals = [_py(v) for v in list(data) if not _isnull(v)]
    if not vals or any(v is None for v in vals):
        return out
    try:
        lo, hi = min(vals), max(vals)
    except TypeError:
        return out
    for c in comp_schema.checks:
        st = c.statistics or {}
        if c.name == "greater_than_or_equal_to" and "min_value" in st:
            out.append((c.name, st["min_value"], lo,
                        _exact(st["min_value"], lo)))
        elif c.name == "less_than_or_equal_to" and "max_value" in st:
            out.append((c.name, st["max_value"], hi,
                        _exact(st["max_value"], hi)))
    return out


def components(schema, obj):
    """(label, component schema, data) triples for the tightness monitor."""
    import pandera as pa
    out = []
    if isinstance(obj, pd.Series):
        out.append(("series", schema, obj))
    else:
        for i, (name, col) in enumerate(schema.columns.items()):
            if i < obj.shape[1]:
                out.append((f"column[{name!r}]", col, obj.iloc[:, i]))
    ix = schema.index
    if ix is not None:
        levels = ix.indexes if isinstance(ix, pa.MultiIndex) else [ix]
        for i, lv in enumerate(levels):
            if i < obj.index.nlevels:
                out.append((f"index[{i}]", lv, obj.index.get_level_values(i)))
    return out


class Probe:
    def __init__(self):
        self.fails = []       # (stage, detail)
        self.monitors = []
        self.undecided = []

    def fail(self, stage, detail):
        self.fails.append((stage, detail))

    def stages(self):
        return [s for s, _ in self.fails]


def _msg(e):
    return f"{type(e).__name__}: {str(e)[:240]}".replace("\n", " ")


def probe(obj):
    """Run every stage of the property on one pandas object."""
    import pandera as pa
    import pandera.errors as pe
    import pandera.io as io
    p = Probe()
    before = obj.copy(deep=True)
    try:
        schema = pa.infer_schema(obj)
    except Exception as e:
        p.fail(f"infer-raises:{type(e).__name__}", _msg(e))
        return p
    p.monitors.append("infer")
    accepted = None
    try:
        res = schema.validate(obj)
        accepted = True
    except (pe.SchemaError, pe.SchemaErrors) as e:
        accepted = False
        code = getattr(getattr(e, "reason_code", None), "name", "lazy")
        p.fail(f"validate-rejects:{code}", _msg(e))
    except Exception as e:
        accepted = False
        p.fail(f"validate-raises:{type(e).__name__}", _msg(e))
    p.monitors.append("validate")
    if accepted:
        p.monitors.append("returned-values")
        d = value_diff(before, res)
        if d:
            p.fail("returned-values-differ", d)
        else:
            r = SN.diff(SN.snap(before), SN.snap(res))
            if r:
                p.undecided.append("returned-representation-changed")
        d = value_diff(before, obj)
        if d:
            p.undecided.append("input-changed-by-validate(C04)")
    try:
        for label, comp, data in components(schema, before):
            for name, stat, ext, ok in tightness(comp, data):
                p.monitors.append("bound-tight")
                if not ok:
                    p.fail("bound-not-tight",
                           {"component": label, "check": name,
                            "statistic": repr(stat), "data_extreme": repr(ext)})
    except Exception as e:
        p.undecided.append("tightness-monitor-error:" + type(e).__name__)
    if isinstance(obj, pd.Series):
        p.undecided.append("series-schema-has-no-yaml-writer")
        return p
    try:
        text = io.to_yaml(schema)
    except Exception as e:
        p.fail(f"yaml-write-raises:{type(e).__name__}", _msg(e))
        return p
    try:
        s2 = io.from_yaml(text)
    except Exception as e:
        p.fail(f"yaml-read-raises:{type(e).__name__}", _msg(e))
        return p
    p.monitors.append("yaml-roundtrip")
    try:
        s2.validate(before.copy(deep=True))
        acc2 = True
        why = None
    except (pe.SchemaError, pe.SchemaErrors) as e:
        acc2, why = False, _msg(e)
    except Exception as e:
        acc2, why = False, _msg(e)
    p.monitors.append("yaml-verdict")
    if accepted and not acc2:
        p.fail("yaml-schema-rejects", why)
    elif accepted is False and acc2:
        p.fail("yaml-schema-accepts-what-original-rejected", None)
    return p


# ---------------------------------------------------------------------------
# attribution to one component

def _parts(spec):
    """Sub-specs: each column alone (RangeIndex), the index alone."""
    out = []
    n = spec["n"]
    benign = {"name": "a", "col": {"cls": "int64", "dtype": "int64",
                                   "null": None,
                                   "values": list(range(1, n + 1))}}
    # a derived object: the same operations on every part; a column alone
    # gets a fresh default index afterwards (so that a failure of the derived
    # index is not attributed to the column)
    ops = [["column_to_frame", 0] if o[0] == "column_to_frame" else
           ["sort_values", 0, o[2]] if o[0] == "sort_values" else o
           for o in (spec.get("derive") or [])]
    dcol = {"derive": ops + [["reset_index"]]} if ops else {}
    dix = {"derive": ops} if ops else {}
    for i, c in enumerate(spec["columns"]):
        out.append((("column", i),
                    dict({"kind": spec["kind"], "n": n, "index": None,
                          "columns": [c]}, **dcol)))
    if spec["index"] is not None or ops:
        out.append((("index", None),
                    dict({"kind": spec["kind"], "n": n,
                          "index": spec["index"],
                          "columns": [dict(benign, name="s" if spec["kind"]
                                           == "series" else "a")]}, **dix)))
        levels = spec["index"]["levels"] if spec["index"] else []
        for j, lv in enumerate(levels):
            if len(levels) > 1:
                out.append((("index-level", j),
                            dict({"kind": spec["kind"], "n": n,
                                  "index": {"levels": [lv]},
                                  "columns": [dict(benign)]}, **dix)))
    return out


def _flags_of(where, spec, obj):
    kind, i = where
    if kind == "column":
        s = obj if isinstance(obj, pd.Series) else obj.iloc[:, 0]
        return G.describe(s)
    if kind == "index-level":
        return sorted(set(G.describe(obj.index)) |
                      set(G.describe_index(obj.index)))
    if kind == "index":
        fl = set()
        names = list(obj.index.names)
        for j in range(obj.index.nlevels):
            fl.update(G.describe(obj.index.get_level_values(j)))
        if obj.index.nlevels == 1:
            fl.update(G.describe_index(obj.index))
        fl.add("nlevels:%d" % obj.index.nlevels)
        if obj.index.nlevels > 1:
            named = [n for n in names if n is not None]
            if len(set(named)) != len(named):
                fl.add("repeated-level-names")
                # the same index with the level names made distinct: which
                # stages fail there as well (those are not due to the names)
                try:
                    v = json.loads(json.dumps(spec))
                    for j, lv in enumerate(v["index"]["levels"]):
                        lv["name"] = "lvl%d" % j
                    pv = probe(G.build_obj(v))
                    fl.add("distinct-names-variant-probed")
                    for st in pv.stages():
                        fl.add("distinct-names-variant-fails:" + st)
                except Exception:
                    pass
            if any(n is None for n in names):
                fl.add("unnamed-level")
        return sorted(fl)
    return []


def attribute(spec, obj, p):
    """[(stage, detail, where, flags)]"""
    out = []
    parts = None
    for stage, detail in p.fails:
        hit = False
        if len(spec["columns"]) + (spec["index"] is not None) > 1 or \
                (spec["index"] is not None) or spec.get("derive"):
            if parts is None:
                parts = []
                for where, sub in _parts(spec):
                    try:
                        o = G.build_obj(sub)
                        parts.append((where, sub, o, probe(o)))
                    except Exception:
                        continue
            # prefer the most specific component that reproduces the stage
            order = {"column": 0, "index-level": 1, "index": 2}
            for where, sub, o, pp in sorted(parts,
                                            key=lambda t: order[t[0][0]]):
                if stage in pp.stages():
                    if where[0] == "index" and any(
                            w[0] == "index-level" and stage in q.stages()
                            for w, _, _, q in parts):
                        continue
                    d2 = dict(pp.fails)[stage]
                    out.append((stage, d2, where[0], _flags_of(where, sub, o)))
                    hit = True
        if not hit:
            if not spec["columns"]:
                out.append((stage, detail, "frame", ["no-columns"]))
            elif len(spec["columns"]) == 1 and spec["index"] is None \
                    and not spec.get("derive"):
                out.append((stage, detail, "column",
                            _flags_of(("column", 0), spec, obj)))
            else:
                fl = set()
                for where, sub in _parts(spec):
                    try:
                        fl.update(_flags_of(where, sub, G.build_obj(sub)))
                    except Exception:
                        pass
                out.append((stage, detail, "combination", sorted(fl)))
    # one entry per (stage, where, flags)
    seen, uniq = set(), []
    for t in out:
        k = (t[0], t[2], tuple(t[3]))
        if k not in seen:
            seen.add(k)
            uniq.append(t)
    return uniq


def one_case(run, label, spec, collect=None):
    key = canon_hash(spec)
    try:
        obj = G.build_obj(spec)
    except Exception as e:
        run.count("build_error:" + type(e).__name__)
        return
    p = probe(obj)
    for m in p.monitors:
        run.count("monitor:" + m)
    for u in p.undecided:
        run.count("undecided:" + u)
    run.count("kind:" + spec["kind"])
    for c in spec["columns"]:
        run.count("class:" + c["col"]["cls"])
        vals = c["col"]["values"]
        run.count("mode:" + ("empty" if not vals else "all-null" if
                             all(v is None for v in vals) else "some-null"
                             if any(v is None for v in vals) else "plain"))
    if spec["index"] is None:
        run.count("index:range")
    else:
        lv = spec["index"]["levels"]
        names = [l["name"] for l in lv]
        run.count("index:" + ("single" if len(lv) == 1 else "multi") +
                  (":repeated-names" if len(lv) > 1 and len(
                      {n for n in names if n is not None}) < len(
                      [n for n in names if n is not None]) else "") +
                  (":unnamed" if any(n is None for n in names) else ""))
        for l in lv:
            run.count("index-class:" + l["col"]["cls"])
    for op in spec.get("derive") or []:
        run.count("derive:" + op[0] + (
            ":step<0" if op[0] == "slice" and (op[3] or 1) < 0 else ""))
    if isinstance(obj, pd.DataFrame) and "validate" in p.monitors:
        # structure of the index actually handed to infer_schema (only a
        # DataFrameSchema has an index component; SeriesSchema has none)
        for j in range(obj.index.nlevels):
            lvl = obj.index if obj.index.nlevels == 1 else \
                obj.index.get_level_values(j)
            for fl in G.describe_index(lvl):
                if not fl.startswith("index-type:"):
                    run.count("index-struct:" + fl)
        run.count("index-type:" + type(obj.index).__name__)
        run.count("rows:" + ("0" if not len(obj) else "1" if len(obj) == 1
                             else "2+"))
    elif isinstance(obj, pd.Series) and (
            spec["index"] is not None or spec.get("derive")):
        run.count("undecided:series-index-is-not-part-of-a-SeriesSchema")
    run.count("held" if not p.fails else "failed")
    run.case(key, "validate" in p.monitors, sample={
        "label": label, "spec": spec,
        "failed_stages": p.stages(), "monitors": sorted(set(p.monitors))})
    if not p.fails:
        return
    for stage, detail, where, flags in attribute(spec, obj, p):
        mech = K.classify(stage, where, flags, detail)
        run.violation(stage, {"label": label, "stage": stage, "where": where,
                              "flags": flags, "detail": detail, "spec": spec},
                      mech)
        run.count(f"cause:{mech or 'UNCLASSIFIED'}")
        if collect is not None:
            collect.append((stage, where, tuple(flags), mech, detail))


def run(run, ctx):
    cat = G.catalogue() + G.derived_catalogue()
    n_rand = len(cat) + N_RANDOM[ctx.tier]
    n = n_rand + N_DERIVED[ctx.tier]
    import pandera.io  # noqa: F401
    for i in ctx.cases(n):
        if i < len(cat):
            label, spec = cat[i]
        elif i < n_rand:
            label, spec = "random", G.random_spec(ctx.rng(PID, i))
        else:
            label, spec = "derived", G.derived_spec(ctx.rng(PID, i))
        one_case(run, label, spec)


def finalize(run, ctx):
    q = ctx.tier == "quick"
    for name, m in K.FLOORS_QUICK.items():
        run.floors[name] = m if q else m * 20


def replay(path):
    from .. import env
    env.pin_repo()
    import pandera.io  # noqa: F401
    with open(path) as f:
        w = json.load(f)
    spec = w["witness"]["spec"]
    obj = G.build_obj(spec)
    p = probe(obj)
    print(obj)
    print(json.dumps({"fails": p.fails, "undecided": p.undecided},
                     indent=1, default=repr))
    return 1 if p.fails else 0
