"""C10: icontract post-conditions on the real ``try_coerce`` methods.

``install(recorder)`` wraps ``try_coerce`` of every DataType class registered
with the pandas, numpy and polars engines (attribute replacement from the
harness; nothing in the repository is edited):

    guard( icontract.ensure(post_..., error=PostBroken)( ... (original) ) )

* the post-conditions are named ``def``s over ``self, data_container, result``
  and are given ``error=`` (so icontract never has to re-parse a lambda);
* they run in *counting mode*: a broken condition is recorded in the
  ``Recorder`` and the condition returns True, so the workload that is being
  observed (a schema-level ``validate``) is not aborted by the monitor;
* ``guard`` counts evaluations per class and records any exception other than
  ``ParserError`` that escapes ``try_coerce`` (icontract has no exceptional
  post-condition), then re-raises it unchanged.

Evaluations are counted per (engine, class).  A class with zero evaluations
was not reached; the check lists it and fails its floor.
"""
from __future__ import annotations

import threading
from collections import Counter

import numpy as np
import pandas as pd

from . import env

env.ensure_deps()
import icontract  # noqa: E402


class PostBroken(AssertionError):
    """Raised by icontract when a condition returns False (never in counting mode)."""


_tl = threading.local()


def _depth():
    return getattr(_tl, "depth", 0)


class Recorder:
    def __init__(self):
        self.calls = Counter()        # (engine, class) -> try_coerce calls
        self.post_evals = Counter()   # (engine, class, condition) -> evaluations
        self.returned = Counter()     # (engine, class)
        self.raised = Counter()       # (engine, class, exception type)
        self.broken = []              # dicts
        self.undecided = Counter()    # region name -> evaluations not judged
        self.enabled = True
        self.context = None           # set by the driver: description of the case

    def broke(self, cond, self_, data_container, result, detail):
        if len(self.broken) < 2000:
            self.broken.append({
                "condition": cond, "class": _cname(self_), "dtype": _s(self_),
                "input": _brief(data_container), "output": _brief(result),
                "detail": detail, "context": self.context})


REC = None            # the active recorder
_installed = []       # (class, original attribute or sentinel)
_MISSING = object()


def _cname(t):
    c = type(t)
    return f"{c.__module__.split('.')[-1]}.{c.__name__}"


def _engine_of(t):
    m = type(t).__module__
    return "polars" if "polars" in m else "numpy" if "numpy_engine" in m else "pandas"


def _s(x):
    try:
        return str(x)[:120]
    except Exception as e:  # noqa
        return f"<str raised {type(e).__name__}>"


def _brief(x):
    try:
        if isinstance(x, pd.DataFrame):
            return {"kind": "DataFrame", "dtypes": [str(d) for d in x.dtypes],
                    "values": repr(x.head(8).values.tolist())[:300]}
        if isinstance(x, (pd.Series, pd.Index)):
            return {"kind": type(x).__name__, "dtype": str(x.dtype),
                    "values": repr(list(x[:8]))[:300]}
        if isinstance(x, np.ndarray):
            return {"kind": "ndarray", "dtype": str(x.dtype),
                    "values": repr(x[:8].tolist())[:300]}
        lf = getattr(x, "lazyframe", x)
        import polars as pl
        if isinstance(lf, pl.LazyFrame):
            df = lf.collect()
            return {"kind": "pl.LazyFrame", "key": getattr(x, "key", None),
                    "schema": {k: str(v) for k, v in df.schema.items()},
                    "values": repr(df.head(8).to_dict(as_series=False))[:300]}
    except Exception as e:  # noqa
        return {"kind": type(x).__name__, "error": repr(e)[:120]}
    return {"kind": type(x).__name__, "repr": repr(x)[:200]}


# ---------------------------------------------------------------------------
# helpers shared with the driver
# ---------------------------------------------------------------------------
def truthy(r):
    if isinstance(r, (bool, np.bool_)):
        return bool(r)
    try:
        if isinstance(r, pd.DataFrame):
            return bool(r.all(axis=None))
        return bool(np.all(np.asarray(r)))
    except Exception:
        return bool(r)


def pandas_dtype_check(t, out):
    """Mirror of ArraySchemaBackend.check_dtype: T.check(Engine.dtype(c'.dtype), c')."""
    from pandera.engines import pandas_engine
    if isinstance(out, pd.DataFrame):
        res = []
        for i in range(out.shape[1]):
            col = out.iloc[:, i]
            res.append(truthy(t.check(pandas_engine.Engine.dtype(col.dtype), col)))
        return all(res)
    if isinstance(out, np.ndarray):
        # keep the array's own dtype: pd.Series would re-infer object arrays
        out = pd.Series(out, dtype=out.dtype)
    return truthy(t.check(pandas_engine.Engine.dtype(out.dtype), out))


def unhashable_dtype(out):
    """True when a dtype object of the (pandas) container cannot be hashed,
    e.g. a CategoricalDtype whose categories mix tuples with other values."""
    dts = list(out.dtypes) if isinstance(out, pd.DataFrame) else [getattr(out, "dtype", None)]
    for d in dts:
        try:
            hash(d)
        except Exception:
            return True
    return False


def polars_frames(data_container, result):
    import polars as pl
    lf_in = getattr(data_container, "lazyframe", data_container)
    key = getattr(data_container, "key", None)
    df_in = lf_in.collect() if isinstance(lf_in, pl.LazyFrame) else lf_in
    df_out = result.collect() if isinstance(result, pl.LazyFrame) else result
    return df_in, df_out, key


def polars_dtype_check(t, df_out, key):
    from pandera.engines import polars_engine
    cols = [key] if key not in (None, "*") else list(df_out.columns)
    return all(truthy(t.check(polars_engine.Engine.dtype(df_out.schema[c])))
               for c in cols)


# ---------------------------------------------------------------------------
# the post-conditions (named defs; self, data_container, result)
# ---------------------------------------------------------------------------
def _cond(name):
    """Decorator: counting-mode wrapper that keeps the (self, data_container,
    result) signature icontract inspects."""
    def deco(f):
        def condition(self, data_container, result):
            rec = REC
            if rec is None or not rec.enabled or _depth() > 1:
                return True
            rec.post_evals[(_engine_of(self), _cname(self), name)] += 1
            try:
                ok, detail = f(self, data_container, result)
            except Exception as e:  # the monitor must not break the workload
                ok, detail = False, f"condition raised {type(e).__name__}: {str(e)[:200]}"
            if not ok:
                rec.broke(name, self, data_container, result, detail)
            return True
        condition.__name__ = f"post_{name}"
        return condition
    return deco


@_cond("same_length_and_labels")
def post_same_length_and_labels(self, data_container, result):
    if _engine_of(self) == "polars":
        df_in, df_out, _ = polars_frames(data_container, result)
        if df_in.height != df_out.height:
            return False, f"height {df_in.height} -> {df_out.height}"
        if list(df_in.columns) != list(df_out.columns):
            return False, f"columns {df_in.columns} -> {df_out.columns}"
        return True, None
    if type(result) is not type(data_container) and not (
            isinstance(result, pd.Index) and isinstance(data_container, pd.Index)):
        return False, f"container {type(data_container).__name__} -> {type(result).__name__}"
    if len(result) != len(data_container):
        return False, f"length {len(data_container)} -> {len(result)}"
    if isinstance(data_container, (pd.Series, pd.DataFrame)):
        if not result.index.equals(data_container.index) or \
                list(result.index) != list(data_container.index):
            return False, "index labels changed"
    if isinstance(data_container, pd.DataFrame):
        if list(result.columns) != list(data_container.columns):
            return False, "column labels changed"
    if isinstance(data_container, (pd.Series, pd.Index)) and \
            repr(result.name) != repr(data_container.name):
        return False, f"name {data_container.name!r} -> {result.name!r}"
    return True, None


@_cond("result_passes_own_check")
def post_result_passes_own_check(self, data_container, result):
    if _engine_of(self) == "polars":
        _, df_out, key = polars_frames(data_container, result)
        ok = polars_dtype_check(self, df_out, key)
        return ok, None if ok else f"schema {dict(df_out.schema)} fails {self}.check"
    if unhashable_dtype(result):
        REC.undecided["result-dtype-object-is-not-hashable(pandas)"] += 1
        return True, None
    ok = pandas_dtype_check(self, result)
    return ok, None if ok else \
        f"dtype {getattr(result, 'dtype', getattr(result, 'dtypes', None))} fails {self}.check"


def _element_fails(t, v):
    """Does the type's own per-element conversion reject v?
    'fails' | 'null' (answers with a missing value) | 'value'."""
    import warnings
    from .c10_gen import is_null
    with warnings.catch_warnings():
        warnings.simplefilter("ignore")
        try:
            f = getattr(t, "_coerce_element", None)
            if f is not None:
                # python generic types: the per-element conversion answers
                # with NA for an element it rejects
                return "fails" if is_null(f(v)) else "value"
            r = t.coerce_value(v)
        except Exception:
            return "fails"
    try:
        return "null" if is_null(r) else "value"
    except Exception:
        return "value"


# spellings pandas' text parsers read as "missing" (pandas._libs.parsers
# STR_NA_VALUES + the NaT spellings): whether such a string "holds a value" is
# not settled by the statement, so a marker that comes back as a missing value
# is counted, not judged
TEXT_NA_MARKERS = frozenset(m.lower() for m in (
    "", "#N/A", "#N/A N/A", "#NA", "-1.#IND", "-1.#QNAN", "-NaN", "-nan",
    "1.#IND", "1.#QNAN", "<NA>", "N/A", "NA", "NULL", "NaN", "None", "n/a",
    "nan", "null", "NaT"))


def is_text_na_marker(v):
    if isinstance(v, (bytes, np.bytes_)):
        try:
            v = bytes(v).decode()
        except Exception:
            return False
    return isinstance(v, str) and v.strip().lower() in TEXT_NA_MARKERS


def _cells(c):
    """(python boxed, numpy boxed) cells of a 1-D pandas container."""
    s = c.to_series(index=range(len(c))) if isinstance(c, pd.Index) else c
    return s.tolist(), [s.iloc[i] for i in range(len(s))]


def silently_nulled(t, cin, cout):
    """Positions of a 1-D pandas container whose input cell holds a value and
    whose output cell is missing, each with the verdict of the type's own
    per-element conversion on the input cell:

    * 'unconvertible'  coerce_value rejects it (in both boxings): the element
      cannot be converted individually, so the statement wants a ParserError
      that names it, not a result in which it is gone;
    * 'null-by-coerce_value'  coerce_value answers with a missing value too
      ('nan' -> float, 'NaT' -> datetime): consistent;
    * 'text-na-marker'  the input cell is a string that pandas reads as a
      missing value ('', 'nan', 'None', '<NA>', ...): not judged;
    * 'reference-stricter-than-coerce'  coerce_value also rejects a cell of
      the same python class that this very coercion turned into a value
      (pyarrow scalars reject every string, np.timedelta64 every float, while
      the container conversion parses them): coerce_value does not describe
      what the container conversion accepts for this class, not judged;
    * 'undecided'  the boxings disagree, or coerce_value answers with a value.

    Returns (number of input cells holding a value, [(i, cell, verdict)]).
    """
    from .c10_gen import is_null
    pin, nin = _cells(cin)
    pout, _ = _cells(cout)
    held, out = 0, []
    for i, v in enumerate(pin):
        if is_null(v):
            continue
        held += 1
        if not is_null(pout[i]):
            continue
        a, b = _element_fails(t, v), _element_fails(t, nin[i])
        if is_text_na_marker(v):
            verdict = "text-na-marker"
        elif a == b == "fails":
            verdict = "unconvertible"
        elif a == b == "null":
            verdict = "null-by-coerce_value"
        else:
            verdict = "undecided"
        out.append((i, v, verdict))
    if any(verdict == "unconvertible" for _, _, verdict in out):
        stricter = {type(v) for i, v in enumerate(pin)
                    if not is_null(v) and not is_null(pout[i])
                    and _element_fails(t, v) == "fails"
                    and _element_fails(t, nin[i]) == "fails"}
        out = [(i, v, "reference-stricter-than-coerce"
                if verdict == "unconvertible" and type(v) in stricter else verdict)
               for i, v, verdict in out]
    return held, out


@_cond("no_unconvertible_value_silently_nulled")
def post_no_unconvertible_value_silently_nulled(self, data_container, result):
    """A successful coercion never turns an element that cannot be converted
    individually into a missing value (pandas: judged through the type's own
    coerce_value; polars: a strict cast never yields a null for a value)."""
    from .c10_gen import vrepr
    if _engine_of(self) == "polars":
        df_in, df_out, key = polars_frames(data_container, result)
        cols = [key] if key not in (None, "*") else list(df_in.columns)
        for c in cols:
            if c not in df_in.columns or c not in df_out.columns or \
                    df_in.height != df_out.height:
                continue
            try:
                lost = (df_out[c].is_null() & df_in[c].is_not_null()).arg_true().to_list()
            except BaseException as e:  # pyo3 panics are not Exceptions
                if isinstance(e, (KeyboardInterrupt, SystemExit)):
                    raise
                REC.undecided["cells-not-comparable(polars)"] += 1
                continue
            if lost:
                return False, f"column {c!r}: rows {lost[:8]} hold a value in the " \
                              "input and a null in the result"
        return True, None
    if isinstance(data_container, np.ndarray) or isinstance(result, np.ndarray):
        REC.undecided["ndarray-cells(numpy-astype-of-pandas-scalars)"] += 1
        return True, None
    if type(result).__name__ != type(data_container).__name__ and not (
            isinstance(result, pd.Index) and isinstance(data_container, pd.Index)):
        return True, None          # reported by same_length_and_labels
    if len(result) != len(data_container):
        return True, None
    if isinstance(data_container, pd.DataFrame):
        if data_container.shape != result.shape:
            return True, None
        pairs = [(str(data_container.columns[j]), data_container.iloc[:, j],
                  result.iloc[:, j]) for j in range(data_container.shape[1])]
    else:
        pairs = [(None, data_container, result)]
    for col, cin, cout in pairs:
        try:
            # cheap screen before any cell is boxed
            screen = np.asarray(pd.isna(cout)) & ~np.asarray(pd.isna(cin))
            if not screen.any():
                continue
            _, found = silently_nulled(self, cin, cout)
        except Exception:
            REC.undecided["cells-not-materialisable-as-python-objects"] += 1
            continue
        for i, v, verdict in found:
            if verdict == "unconvertible":
                return False, f"position {i}" + (f" of column {col!r}" if col else "") + \
                    f": {vrepr(v)} is rejected by coerce_value and is missing in the result"
            REC.undecided[f"nulled-value:{verdict}"] += 1
    return True, None


POSTCONDITIONS = [post_same_length_and_labels, post_result_passes_own_check,
                  post_no_unconvertible_value_silently_nulled]


def _guard(contracted):
    def try_coerce(self, data_container):
        rec = REC
        if rec is None or not rec.enabled:
            return contracted(self, data_container)
        eng, cname = _engine_of(self), _cname(self)
        _tl.depth = _depth() + 1
        try:
            if _depth() == 1:
                rec.calls[(eng, cname)] += 1
            try:
                out = contracted(self, data_container)
            except Exception as e:
                if _depth() == 1:
                    rec.raised[(eng, cname, type(e).__name__)] += 1
                raise
            if _depth() == 1:
                rec.returned[(eng, cname)] += 1
            return out
        finally:
            _tl.depth = _depth() - 1
    try_coerce.__pvm_contract__ = True
    return try_coerce


def registered_classes():
    """(engine name, class) for every class registered with the three engines."""
    from pandera.engines import numpy_engine, pandas_engine, polars_engine
    out = []
    seen = set()
    for name, E in (("numpy", numpy_engine.Engine), ("pandas", pandas_engine.Engine),
                    ("polars", polars_engine.Engine)):
        for c in sorted(E._registered_dtypes, key=lambda c: (c.__module__, c.__qualname__)):
            if c not in seen:
                seen.add(c)
                out.append((name, c))
    return out


def install(recorder):
    """Apply the contracts to try_coerce of every registered class.
    Returns the list of (engine, class) wrapped."""
    global REC
    uninstall()
    REC = recorder
    # originals first (found through the MRO), then replace: every registered
    # class gets its own contracted copy of the function it would have run
    todo = []
    for eng, cls in registered_classes():
        orig = getattr(cls, "try_coerce", None)
        if orig is None or getattr(orig, "__pvm_contract__", False):
            continue
        todo.append((eng, cls, orig))
    wrapped = []
    for eng, cls, orig in todo:
        f = orig
        for cond in POSTCONDITIONS:
            f = icontract.ensure(cond, error=PostBroken)(f)
        _installed.append((cls, cls.__dict__.get("try_coerce", _MISSING)))
        setattr(cls, "try_coerce", _guard(f))
        wrapped.append((eng, cls))
    return wrapped


def uninstall():
    global REC
    for cls, orig in reversed(_installed):
        if orig is _MISSING:
            try:
                delattr(cls, "try_coerce")
            except AttributeError:
                pass
        else:
            setattr(cls, "try_coerce", orig)
    _installed.clear()
    REC = None
