"""Deterministic thread scheduler on CPython 3.12 ``sys.monitoring`` (DESIGN 3.4).

Worker threads run real ``validate`` calls.  A token decides which single
worker may run.  LINE events are delivered for every code object; the callback
returns ``sys.monitoring.DISABLE`` for every location whose file is not under
``<repo>/pandera/`` (numpy / pandas / polars / the harness run at full speed),
so the only *yield points* are "between two Python statements of pandera
code".  At a yield point the running worker asks the schedule policy whether
the token goes to another live worker; if so it parks on a condition variable
until the token comes back.  Preemption therefore only happens where the GIL
could really switch, and a parked thread holds no pandas / polars lock.

Every run produces the list of token hand-overs ``(step, from, to, why)``
(the schedule actually executed); its hash is the identity of the
interleaving.  A run that does not finish within ``timeout`` seconds is
released (all workers run freely), reported as ``inconclusive`` and never
judged.

Probe: an optional side-effect free function returning a dict of observed
shared-state fields.  It is sampled when a worker parks and when it gets the
token back (and before the first / after the last worker), so the witness can
say *which* shared field another thread changed under a parked worker's feet
— this is what the mechanism classifier of C07 reads.
"""
from __future__ import annotations

import hashlib
import json
import sys
import threading
import time

mon = sys.monitoring
DISABLE = mon.DISABLE


# ------------------------------------------------------------------ policies
class Serial:
    """No preemption: thread ``order[0]`` to completion, then the next."""
    name = "serial"

    def __init__(self, order):
        self.order = list(order)

    def start(self, n):
        return self.order[0]

    def at_yield(self, tid, local_no, step, live):
        return tid

    def on_finish(self, tid, live):
        for t in self.order:
            if t in live:
                return t
        return live[0]

    def describe(self):
        return {"policy": "serial", "order": self.order}


class SinglePreempt(Serial):
    """``first`` runs up to its yield point number ``at``, is preempted there,
    every other thread runs to completion (in ``order``), ``first`` resumes."""
    name = "single"

    def __init__(self, first, at, n=2):
        order = [first] + [t for t in range(n) if t != first]
        super().__init__(order)
        self.first, self.at, self.fired = first, at, False

    def at_yield(self, tid, local_no, step, live):
        if tid == self.first and local_no == self.at and not self.fired:
            self.fired = True
            for t in self.order[1:]:
                if t in live:
                    return t
        return tid

    def on_finish(self, tid, live):
        # others first (in order), the preempted thread last
        for t in self.order[1:] + [self.first]:
            if t in live:
                return t
        return live[0]

    def describe(self):
        return {"policy": "single", "first": self.first, "at": self.at}


class TwoPreempt(Serial):
    """A runs to its yield ``at1``, B runs to its yield ``at2``, A completes,
    B completes (two context switches before the first completion)."""
    name = "double"

    def __init__(self, first, at1, at2):
        self.a, self.b = first, 1 - first
        super().__init__([self.a, self.b])
        self.at1, self.at2 = at1, at2
        self.f1 = self.f2 = False

    def at_yield(self, tid, local_no, step, live):
        if tid == self.a and not self.f1 and local_no == self.at1:
            self.f1 = True
            return self.b if self.b in live else tid
        if tid == self.b and self.f1 and not self.f2 and local_no == self.at2:
            self.f2 = True
            return self.a if self.a in live else tid
        return tid

    def describe(self):
        return {"policy": "double", "first": self.a, "at1": self.at1,
                "at2": self.at2}


class RandomSwitch:
    """Seeded random schedule: at every yield point switch with probability p
    to a uniformly chosen other live thread."""
    name = "random"

    def __init__(self, rng, p, n):
        self.rng, self.p, self.n = rng, p, n

    def start(self, n):
        return self.rng.randrange(n)

    def at_yield(self, tid, local_no, step, live):
        if len(live) > 1 and self.rng.random() < self.p:
            return self.rng.choice([t for t in live if t != tid])
        return tid

    def on_finish(self, tid, live):
        return self.rng.choice(live)

    def describe(self):
        return {"policy": "random", "p": self.p, "threads": self.n}


class Replay:
    """Replays a recorded hand-over list exactly (by global step number)."""
    name = "replay"

    def __init__(self, start, trace):
        self._start = start
        self.sw = {s: to for s, frm, to, why in trace if why == "yield"}
        self.fin = [to for s, frm, to, why in trace if why == "finish"]

    def start(self, n):
        return self._start

    def at_yield(self, tid, local_no, step, live):
        to = self.sw.get(step, tid)
        return to if to in live else tid

    def on_finish(self, tid, live):
        while self.fin:
            to = self.fin.pop(0)
            if to in live:
                return to
        return live[0]

    def describe(self):
        return {"policy": "replay"}


# ------------------------------------------------------------------ result
class Result:
    def __init__(self):
        self.status = "ok"          # ok | inconclusive | hung
        self.outcomes = []          # per thread: return value of the thunk
        self.errors = []            # per thread: BaseException escaping the thunk
        self.start = None
        self.trace = []             # (step, from, to, "yield"|"finish")
        self.yields = []            # yield points executed per thread
        self.steps = 0
        self.foreign = []           # per thread: [(step, field, before, after)]
        self.probe_before = None
        self.probe_after = None
        self.switches = 0           # hand-overs at yield points (preemptions)
        self.locs = None            # per thread: (file, function, line) per yield
        # per thread: (local yield no, fields) where the probe differs from
        # the thread's previous yield point (``probe_every`` runs only): the
        # statement just executed wrote observed shared state
        self.changes = []

    def key(self):
        s = json.dumps([self.start, self.trace], default=repr)
        return hashlib.sha1(s.encode()).hexdigest()[:16]


class _State:
    pass


# ------------------------------------------------------------------ scheduler
class Scheduler:
    def __init__(self, prefix, tool_id=None):
        self.prefix = prefix if prefix.endswith("/") else prefix + "/"
        self.tool = mon.DEBUGGER_ID if tool_id is None else tool_id
        self.cv = threading.Condition()
        self.st = None
        self.installed = False
        self.foreign_lines = 0

    # -- monitoring plumbing -------------------------------------------
    def install(self):
        if self.installed:
            return
        if mon.get_tool(self.tool) is not None:
            # fall back to the profiler id when a debugger is attached
            self.tool = mon.PROFILER_ID
        mon.use_tool_id(self.tool, "pvm-c07-sched")
        mon.register_callback(self.tool, mon.events.LINE, self._line)
        mon.set_events(self.tool, mon.events.LINE)
        self.installed = True

    def uninstall(self):
        if not self.installed:
            return
        mon.set_events(self.tool, 0)
        mon.register_callback(self.tool, mon.events.LINE, None)
        mon.free_tool_id(self.tool)
        self.installed = False

    def restart(self):
        """Re-arm every location disabled so far (between schedules)."""
        mon.restart_events()

    def __enter__(self):
        self.install()
        return self

    def __exit__(self, *a):
        self.uninstall()

    def _line(self, code, line):
        if not code.co_filename.startswith(self.prefix):
            return DISABLE
        st = self.st
        if st is None:
            return None
        tid = st.ident2tid.get(threading.get_ident())
        if tid is None or st.busy[tid]:
            # not a worker, or a worker inside the scheduler's own bookkeeping
            # (start-up, probe, finish): never a yield point
            return None
        if st.locs is not None:
            # where each yield point of each worker is (first-use analysis)
            st.locs[tid].append(
                (code.co_filename[len(self.prefix):], code.co_name, line))
        self._yield_point(st, tid)
        return None

    # -- the yield point -------------------------------------------------
    def _yield_point(self, st, tid):
        cv = self.cv
        with cv:
            if st.abort:
                return
            # a worker only ever runs pandera code while it holds the token
            while st.current != tid and not st.abort:
                cv.wait(0.5)
            if st.abort:
                return
            n = st.local[tid]
            st.local[tid] = n + 1
            st.step += 1
            if st.probe_every and st.probe is not None:
                now = st.probe()
                prev = st.own_view[tid]
                if prev is not None and now != prev:
                    st.res.changes[tid].append(
                        (n, sorted(k for k in now
                                   if now.get(k) != prev.get(k))[:6]))
                st.own_view[tid] = now
            live = sorted(st.live)
            nxt = st.policy.at_yield(tid, n, st.step, live)
            if nxt == tid or nxt not in st.live:
                return
            st.res.trace.append((st.step, tid, nxt, "yield"))
            st.res.switches += 1
            self._handover(st, tid, nxt)
            while st.current != tid and not st.abort:
                cv.wait(0.5)
            self._resumed(st, tid)

    def _handover(self, st, frm, to):
        """Token frm -> to (cv held).  Samples the probe for both sides."""
        if st.probe is not None:
            now = st.probe()
            if frm is not None:
                st.parked_view[frm] = now
            st.last_probe = now
        st.current = to
        self.cv.notify_all()

    def _resumed(self, st, tid):
        """tid got the token (back) (cv held): what changed under its feet?"""
        if st.probe is None or st.abort:
            return
        now = st.probe()
        seen = st.parked_view.get(tid)
        if seen is not None and now != seen:
            for k in now:
                if now.get(k) != seen.get(k):
                    st.res.foreign[tid].append(
                        (st.step, k, seen.get(k), now.get(k)))

    # -- run one schedule ------------------------------------------------
    def run(self, thunks, policy, probe=None, timeout=60.0, record_locs=False,
            probe_every=False):
        assert self.installed
        n = len(thunks)
        st = _State()
        st.probe_every = probe_every
        st.own_view = [None] * n
        st.policy, st.probe = policy, probe
        st.res = res = Result()
        st.ident2tid = {}
        st.local = [0] * n
        st.busy = [True] * n
        st.step = 0
        st.live = set(range(n))
        st.current = None
        st.abort = False
        st.ready = 0
        st.parked_view = {}
        st.last_probe = None
        st.locs = [[] for _ in range(n)] if record_locs else None
        res.locs = st.locs
        res.outcomes = [None] * n
        res.errors = [None] * n
        res.foreign = [[] for _ in range(n)]
        res.changes = [[] for _ in range(n)]
        base = probe() if probe else None
        res.probe_before = base
        # every worker starts from the state before any worker ran
        for t in range(n):
            st.parked_view[t] = base
        cv = self.cv

        def body(tid):
            with cv:
                st.ident2tid[threading.get_ident()] = tid
                st.ready += 1
                cv.notify_all()
                while st.current != tid and not st.abort:
                    cv.wait(0.5)
                self._resumed(st, tid)
                st.busy[tid] = False
            try:
                res.outcomes[tid] = thunks[tid]()
            except BaseException as e:  # noqa: BLE001 - reported, not judged
                res.errors[tid] = e
            finally:
                st.busy[tid] = True
                with cv:
                    st.live.discard(tid)
                    if st.live and not st.abort:
                        nxt = policy.on_finish(tid, sorted(st.live))
                        res.trace.append((st.step, tid, nxt, "finish"))
                        self._handover(st, tid, nxt)
                    else:
                        if probe is not None:
                            st.last_probe = probe()
                        st.current = None
                        cv.notify_all()

        threads = [threading.Thread(target=body, args=(i,), daemon=True,
                                    name=f"pvm-c07-w{i}") for i in range(n)]
        self.st = st
        try:
            for t in threads:
                t.start()
            with cv:
                while st.ready < n:
                    cv.wait(0.5)
                res.start = policy.start(n)
                st.current = res.start
                cv.notify_all()
            deadline = time.time() + timeout
            for t in threads:
                t.join(max(0.0, deadline - time.time()))
            if any(t.is_alive() for t in threads):
                res.status = "inconclusive"
                with cv:
                    st.abort = True
                    cv.notify_all()
                deadline = time.time() + 20.0
                for t in threads:
                    t.join(max(0.0, deadline - time.time()))
                if any(t.is_alive() for t in threads):
                    res.status = "hung"
        finally:
            self.st = None
        res.yields = list(st.local)
        res.steps = st.step
        res.probe_after = probe() if probe else None
        return res
