"""C19 generators: a family of predicates with a scalar (pure Python) reading,
instrumented check functions built from them, and small data sets with nulls,
groups (str / int / bool / categorical keys, categories without rows) and
non-default indexes, materialised as numpy columns or as nullable extension
dtypes holding pd.NA.  Everything is a JSON-able description first
(so a witness replays without the generator) and real objects second.
"""
from __future__ import annotations

import math

KINDS = ("int", "float", "str")            # polars / alias levels
PD_KINDS = ("int", "float", "str", "bool")  # pandas predicate levels
# physical representation of the checked data in pandas: plain numpy dtypes
# (int64 / float64 / object / bool) or a nullable EXTENSION dtype that really
# holds pd.NA.  numpy int / bool cannot hold nulls; every extension dtype can.
EXT_PHYS = {"int": ["Int64", "UInt8", "Int64", "Int32", "int64[pyarrow]"],
            "float": ["Float64", "Float64", "double[pyarrow]"],
            "str": ["string"], "bool": ["boolean", "boolean", "bool[pyarrow]"]}
POOL = {
    "int": [-4, -3, -1, 0, 1, 2, 3, 4, 5, 7, 10],
    "float": [-2.5, -1.0, -0.5, 0.0, 0.5, 1.0, 1.5, 2.0, 3.0, 4.5],
    "str": ["a", "b", "ab", "abc", "ba", "", "A", "AB", "xa", "aa", "é"],
    "bool": [True, False],
}
GROUP_KEYS = ["g1", "g2", "g3"]


def is_null(x):
    return x is None or (isinstance(x, float) and math.isnan(x))


def phys_of(data):
    return data.get("phys", "numpy")


def holds_nulls(kind, phys):
    return kind in ("float", "str") or phys != "numpy"


def pool_of(kind, phys="numpy"):
    if phys == "UInt8":
        return [x for x in POOL["int"] if x >= 0]
    return POOL[kind]


def gen_phys(rng, kind, pred=None, p_ext=0.45):
    """numpy or one of the nullable extension dtypes of the kind.  UInt8 only
    when every constant of the predicate is non-negative (comparing unsigned
    scalars with negative Python ints is numpy's business, not pandera's)."""
    if rng.random() >= p_ext:
        return "numpy"
    phys = rng.choice(EXT_PHYS[kind])
    if phys == "UInt8" and pred is not None:
        a = pred["arg"]
        args = a if isinstance(a, list) else [a]
        if any(isinstance(x, (int, float)) and x < 0 for x in args):
            phys = "Int64"
    return phys


# ---------------------------------------------------------------- predicates
def gen_pred(rng, kind):
    if kind == "str":
        k = rng.choice(["startswith", "len_le", "contains", "isupper", "eq",
                        "ne"])
        if k in ("startswith", "contains"):
            return {"op": k, "arg": rng.choice(["a", "b", "ab", ""])}
        if k == "len_le":
            return {"op": k, "arg": rng.choice([0, 1, 2])}
        if k == "isupper":
            return {"op": k, "arg": None}
        return {"op": k, "arg": rng.choice(POOL["str"])}
    if kind == "bool":
        return {"op": rng.choice(["eq", "ne"]), "arg": rng.random() < 0.5}
    pool = POOL[kind]
    k = rng.choice(["gt", "ge", "lt", "le", "eq", "ne", "mod", "abs_lt",
                    "between", "intmod"] if kind == "float" else
                   ["gt", "ge", "lt", "le", "eq", "ne", "mod", "abs_lt",
                    "between"])
    if k in ("mod", "intmod"):
        m = rng.choice([2, 3])
        return {"op": k, "arg": [m, rng.randrange(m)]}
    if k == "between":
        lo, hi = sorted(rng.sample(pool, 2))
        return {"op": k, "arg": [lo, hi]}
    if k == "abs_lt":
        return {"op": k, "arg": rng.choice([1, 2, 3.5])}
    return {"op": k, "arg": rng.choice(pool)}


def py_pred(p):
    """Scalar reading of the predicate.  Comparison predicates are total on
    NaN (False, or True for 'ne'); str predicates and 'intmod' RAISE on a null
    - that is the 'predicates that raise on null' part of the family."""
    op, a = p["op"], p["arg"]
    if op == "gt":
        return lambda x: bool(x > a)
    if op == "ge":
        return lambda x: bool(x >= a)
    if op == "lt":
        return lambda x: bool(x < a)
    if op == "le":
        return lambda x: bool(x <= a)
    if op == "eq":
        return lambda x: bool(x == a)
    if op == "ne":
        return lambda x: bool(x != a)
    if op == "mod":
        return lambda x: bool(x % a[0] == a[1])
    if op == "intmod":
        return lambda x: int(x) % a[0] == a[1]
    if op == "abs_lt":
        return lambda x: bool(abs(x) < a)
    if op == "between":
        return lambda x: bool(a[0] <= x <= a[1])
    if op == "startswith":
        return lambda x: x.startswith(a)
    if op == "contains":
        return lambda x: a in x
    if op == "len_le":
        return lambda x: len(x) <= a
    if op == "isupper":
        return lambda x: x.upper() == x
    raise KeyError(op)


def raises_on_null(p, kind, phys="numpy"):
    """Does the scalar reading raise when it is shown the null of this
    representation?  numpy float -> NaN, numpy object -> None.  Extension
    dtypes: what a null element looks like to a mapped function is pandas'
    choice (Int64 -> NaN of a float copy, Float64 / boolean / string -> pd.NA,
    on which ``bool(x > a)`` raises) - treated as 'may raise'."""
    if phys != "numpy":
        return True
    if kind == "str":
        return p["op"] in ("startswith", "contains", "len_le", "isupper")
    return p["op"] == "intmod"


def agg_pandas(p, kind):
    """An AGGREGATE pandas reading of the predicate: a function Series -> one
    bool (``s.min() > k`` style).  On non-empty null-free data it agrees with
    'all elements satisfy the predicate'; on empty data / nulls it means
    whatever pandas computes - the oracle applies the same function to the
    documented input instead of assuming that.  None when there is none."""
    op, a = p["op"], p["arg"]
    if kind == "str" or kind == "bool":
        return None
    return {
        "gt": lambda s: s.min() > a, "ge": lambda s: s.min() >= a,
        "lt": lambda s: s.max() < a, "le": lambda s: s.max() <= a,
        "between": lambda s: (s.min() >= a[0]) and (s.max() <= a[1]),
        "abs_lt": lambda s: s.abs().max() < a,
    }.get(op)


def native_pandas(p):
    """Vectorised pandas reading of the predicate (None when there is none)."""
    op, a = p["op"], p["arg"]
    return {
        "gt": lambda s: s > a, "ge": lambda s: s >= a, "lt": lambda s: s < a,
        "le": lambda s: s <= a, "eq": lambda s: s == a, "ne": lambda s: s != a,
        "mod": lambda s: s % a[0] == a[1],
        "abs_lt": lambda s: s.abs() < a,
        "between": lambda s: (s >= a[0]) & (s <= a[1]),
        "startswith": lambda s: s.str.startswith(a),
        "len_le": lambda s: s.str.len() <= a,
    }.get(op)


def native_polars(p, kind):
    import polars as pl
    op, a = p["op"], p["arg"]
    if op in ("gt", "ge", "lt", "le", "eq", "ne"):
        return lambda c: getattr(c, op)(a)
    if op == "between":
        return lambda c: c.is_between(a[0], a[1], closed="both")
    if op == "startswith":
        return lambda c: c.str.starts_with(a)
    if op == "len_le":
        return lambda c: c.str.len_chars() <= a
    return None


# ---------------------------------------------------------------- data
def gen_values(rng, kind, n, p_null, pred=None, p_fail=0.3, phys="numpy"):
    """n values; nulls only where the representation can hold them (numpy
    float / object, every extension dtype).  When ``pred`` is given most
    values satisfy it so that passing checks are not rare."""
    pool = pool_of(kind, phys)
    good = bad = pool
    if pred is not None:
        f = py_pred(pred)
        good = [x for x in pool if f(x)] or pool
        bad = [x for x in pool if not f(x)] or pool
    fail_case = rng.random() < 0.5
    out = []
    for _ in range(n):
        if holds_nulls(kind, phys) and rng.random() < p_null:
            out.append(None)
        elif fail_case and rng.random() < p_fail:
            out.append(rng.choice(bad))
        else:
            out.append(rng.choice(good))
    return out


def gen_index(rng, n):
    r = rng.random()
    if r < 0.4:
        return {"kind": "range", "labels": list(range(n))}
    if r < 0.65:
        return {"kind": "shuffled", "labels": rng.sample(range(10, 10 + 3 * n + 1), n)}
    if r < 0.85:
        return {"kind": "str", "labels": rng.sample(
            ["r%02d" % i for i in range(3 * n + 1)], n)}
    labels = [rng.choice([0, 1, 2]) for _ in range(n)]
    return {"kind": "dup", "labels": labels}


def gen_data(rng, kind=None, pred=None, min_rows=0, phys="numpy",
             groups=False):
    """``phys``: physical dtype of the columns v and w.  ``groups``: also draw
    the grouping-column shapes used by the groupby level: a CATEGORICAL g with
    categories that have no rows, a bool h, a group all of whose elements are
    null (emptied by ignore_na)."""
    kind = kind or rng.choice(KINDS)
    n = rng.choice([0, 1, 2, 3, 4, 5, 6, 8])
    n = max(n, min_rows)
    p_null = rng.choice([0.0, 0.0, 0.2, 0.4] if phys == "numpy"
                        else [0.0, 0.2, 0.3, 0.5])
    nkeys = rng.choice([1, 2, 3])
    data = {
        "kind": kind,
        "phys": phys,
        "v": gen_values(rng, kind, n, p_null, pred, phys=phys),
        "w": gen_values(rng, kind, n, p_null / 2, phys=phys),
        "g": [rng.choice(GROUP_KEYS[:nkeys]) for _ in range(n)]
        if n else [],
        "h": [rng.choice([0, 1]) for _ in range(n)],
        "index": gen_index(rng, n),
    }
    if groups:
        r = rng.random()
        if r < 0.45:
            # categories: a superset of the keys drawn from; with 1-2 drawn
            # keys (or no rows) some category has no row at all
            cats = list(GROUP_KEYS if rng.random() < 0.7 else
                        GROUP_KEYS + ["g0"])
            rng.shuffle(cats)
            data["gcat"] = cats
        if rng.random() < 0.3:
            data["hbool"] = True
            data["h"] = [bool(x) for x in data["h"]]
        if n and holds_nulls(kind, phys) and rng.random() < 0.2:
            # one group whose elements are all null
            key = rng.choice(data["g"])
            data["v"] = [None if g == key else x
                         for g, x in zip(data["g"], data["v"])]
    return data


def drop_null_rows(data, cols=("v",)):
    keep = [i for i in range(len(data["v"]))
            if not any(is_null(data[c][i]) for c in cols)]
    out = dict(data)
    for c in ("v", "w", "g", "h"):
        out[c] = [data[c][i] for i in keep]
    out["index"] = {"kind": data["index"]["kind"],
                    "labels": [data["index"]["labels"][i] for i in keep]}
    return out


# ---------------------------------------------------------------- real objects
def pd_series(kind, values, index=None, name=None, phys="numpy"):
    import numpy as np
    import pandas as pd
    if phys != "numpy":
        return pd.Series(pd.array(list(values), dtype=phys), index=index,
                         name=name)
    if kind == "bool":
        arr = np.array(values, dtype=bool)
    elif kind == "int":
        arr = np.array(values, dtype="int64")
    elif kind == "float":
        arr = np.array([np.nan if v is None else v for v in values],
                       dtype="float64")
    else:
        arr = np.empty(len(values), dtype=object)
        for i, v in enumerate(values):
            arr[i] = v
    return pd.Series(arr, index=index, name=name)


def pd_index(ix):
    import pandas as pd
    if ix["kind"] == "range":
        return pd.RangeIndex(len(ix["labels"]))
    if ix["kind"] == "str":
        return pd.Index(ix["labels"], dtype=object)
    return pd.Index(ix["labels"], dtype="int64")


def pd_frame(data, cols=("v", "w", "g", "h")):
    import pandas as pd
    idx = pd_index(data["index"])
    parts = {}
    for c in cols:
        if c in ("v", "w"):
            parts[c] = pd_series(data["kind"], data[c], idx,
                                 phys=phys_of(data))
        elif c == "g" and data.get("gcat"):
            parts[c] = pd.Series(
                pd.Categorical(data["g"], categories=data["gcat"]), index=idx)
        elif c == "g":
            parts[c] = pd_series("str", data[c], idx)
        else:
            parts[c] = pd_series("bool" if data.get("hbool") else "int",
                                 data[c], idx)
    return pd.DataFrame(parts, index=idx, columns=list(cols))


PD_DTYPE = {"int": "int64", "float": "float64", "str": str, "bool": "bool"}


def pd_dtype(data):
    """dtype argument of the schema component for columns v / w."""
    phys = phys_of(data)
    return PD_DTYPE[data["kind"]] if phys == "numpy" else phys


def pl_frame(data, cols=("v", "w")):
    import polars as pl
    dt = {"int": pl.Int64, "float": pl.Float64, "str": pl.String}[data["kind"]]
    return pl.DataFrame({c: pl.Series(c, data[c], dtype=dt) for c in cols})


def pl_dtype(kind):
    import polars as pl
    return {"int": pl.Int64, "float": pl.Float64, "str": pl.String}[kind]


def norm(x):
    """null-normalised, JSON-able value."""
    import numpy as np
    import pandas as pd
    if x is None or x is pd.NA or x is pd.NaT:
        return None
    if isinstance(x, (float, np.floating)):
        return None if math.isnan(x) else float(x)
    if isinstance(x, (bool, np.bool_)):
        return bool(x)
    if isinstance(x, (int, np.integer)):
        return int(x)
    if isinstance(x, tuple):
        return [norm(v) for v in x]
    return x


class Rec:
    """Instrumented scalar function: records every argument it is shown."""

    def __init__(self, pred):
        self.f = py_pred(pred)
        self.calls = []
        self.__name__ = "pred_" + pred["op"]

    def __deepcopy__(self, memo):
        # schemas deep-copy their checks; the recorder must stay shared
        return self

    def __copy__(self):
        return self

    def __call__(self, x):
        self.calls.append(norm(x))
        return self.f(x)

    def nulls_seen(self):
        return sum(1 for c in self.calls if c is None)
